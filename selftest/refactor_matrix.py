"""Run every check against every behaviour-preserving refactoring patch."""
import json, sys
from concurrent.futures import ThreadPoolExecutor
from pathlib import Path
sys.path.insert(0, str(Path(__file__).resolve().parent))
import seedtest
VERIF = Path(__file__).resolve().parent.parent
props = [c["property_id"] for c in json.loads((VERIF / "MANIFEST.json").read_text())["checks"]]
roots = [Path(p) for p in sys.argv[1:]] or [VERIF / "refactorings"]
patches = sorted(p for r in roots for p in r.rglob("*.diff"))
def one(p):
    return p, seedtest.run(p, props)
alarms = und = 0
with ThreadPoolExecutor(8) as ex:
    for p, res in ex.map(one, patches):
        if "error" in res:
            print(f"{p}: {res['error'][:200]}"); continue
        bad = {k: v for k, v in res.items() if v[0] != 0}
        for k, (rc, rules, out) in sorted(bad.items()):
            tag = "FALSE-ALARM" if rc == 1 else "undecided"
            alarms += rc == 1; und += rc == 2
            print(f"{tag} {p.parent.name}/{p.name} {k} rules={rules}")
            if rc == 2:
                print("    " + "\n    ".join(l[:200] for l in out.splitlines() if l.startswith("ANALYSIS")))
            else:
                for l in out.splitlines():
                    if ": rule " in l: print("    " + l[:230])
        if not bad:
            print(f"ok {p.parent.name}/{p.name}")
print(f"{len(patches)} refactorings x {len(props)} checks: {alarms} false alarms, {und} undecided")
