"""Confirm a seeded change in its scratch worktree and file it under
/verif/seeded/<id>/.

usage: python3 selftest/confirm_seed.py <PROP> <k> "<what it needs to manifest>" ["<what it breaks>"]
Runs (in /tmp/wt/<PROP>): demo on clean tree (must pass), apply patch, demo
(must fail), existing suite (passing set must include the baseline passing
set), revert, then runs the /verif checks against the patched copy.
"""
import json, os, shutil, subprocess, sys
from pathlib import Path
prop, k = sys.argv[1], sys.argv[2]
needs = sys.argv[3] if len(sys.argv) > 3 else ""
breaks = sys.argv[4] if len(sys.argv) > 4 else ""
checks = sys.argv[5].split(",") if len(sys.argv) > 5 else [prop]
wt = Path(f"/tmp/wt/{prop}")
src = Path(os.environ.get("SEED_SRC", "/tmp/seed")) / prop
tag = os.environ.get("SEED_TAG", "")
patch = src / f"patch{k}.diff"
demo = src / f"demo{k}.py"
VERIF = Path("/verif")
def sh(cmd, cwd=wt, timeout=1800):
    return subprocess.run(cmd, cwd=cwd, shell=True, capture_output=True, text=True, timeout=timeout)
def suite():
    r = sh("/venv/bin/python -m pytest -q -p no:cacheprovider --timeout=900 --continue-on-collection-errors -rA 2>&1 | grep -E '^PASSED' | sort")
    return set(r.stdout.split("\n")) - {""}
sh("git checkout -- . && git clean -fdq")
base_file = Path("/tmp/seed/base_pass.txt")
if not base_file.exists():
    base_file.write_text("\n".join(sorted(suite())))
base = set(base_file.read_text().split("\n")) - {""}
r0 = sh(f"/venv/bin/python {demo}")
ap = sh(f"git apply {patch}")
assert ap.returncode == 0, ap.stderr
r1 = sh(f"/venv/bin/python {demo}")
passed = suite()
sh("git checkout -- . && git clean -fdq")
lost = sorted(base - passed)
ok = r0.returncode == 0 and r1.returncode != 0 and not lost
print(f"{prop}-{k}: demo clean rc={r0.returncode}, demo patched rc={r1.returncode}, suite passed={len(passed)} lost={lost}")
if not ok:
    print("NOT CONFIRMED"); print(r0.stdout[-500:], r0.stderr[-500:]); print(r1.stdout[-300:], r1.stderr[-500:]); sys.exit(1)
sys.path.insert(0, str(VERIF / "selftest"))
import seedtest
res = seedtest.run(patch, checks)
det = {p: {"rc": rc, "rules": rules} for p, (rc, rules, out) in res.items()}
print("checks:", det)
out = VERIF / "seeded" / f"{prop}-{tag}{k}"
out.mkdir(parents=True, exist_ok=True)
shutil.copy(patch, out / "patch.diff")
shutil.copy(demo, out / "demo.py")
meta = {
  "id": f"{prop}-{tag}{k}", "property": prop, "breaks": breaks, "needs_to_manifest": needs,
  "author": "independent sub-agent given only the property text and a scratch worktree",
  "confirmed": {
     "worktree": str(wt), "base_commit": sh("git rev-parse HEAD").stdout.strip(),
     "demo_cmd": f"cd <worktree> && /venv/bin/python demo.py",
     "demo_rc_clean": r0.returncode, "demo_rc_patched": r1.returncode,
     "demo_failure_tail": (r1.stderr or r1.stdout)[-400:],
     "suite_cmd": "/venv/bin/python -m pytest -q -p no:cacheprovider --timeout=900 --continue-on-collection-errors -rA",
     "suite_passed_with_patch": len(passed), "baseline_tests_lost": lost,
  },
  "detected_by": det,
}
(out / "meta.json").write_text(json.dumps(meta, indent=1))
print("filed", out)
