"""Regenerate the generated tables of DESIGN.md from the evidence files, the
seeded-change matrix and the refactoring matrix.

    python3 selftest/doc_tables.py rules      rules as built (from evidence/)
    python3 selftest/doc_tables.py seeds      seeded changes x own check
    python3 selftest/doc_tables.py refactors  refactorings x checks
"""
import json, sys, subprocess
from pathlib import Path
V = Path(__file__).resolve().parent.parent
what = sys.argv[1]
if what == "rules":
    print("| property | rules (instances on the current tree) |")
    print("|----------|----------------------------------------|")
    for p in sorted((V / "evidence").glob("C*.json")):
        ev = json.loads(p.read_text())
        ri = ev["coverage"]["rule_instances"]
        print(f"| {ev['property_id']} | " + ", ".join(
            f"{k} ({v})" for k, v in sorted(ri.items())) + " |")
elif what == "seeds":
    print("| id | what was changed | needs to manifest | own check | rules that report it |")
    print("|----|------------------|-------------------|-----------|----------------------|")
    for d in sorted((V / "seeded").glob("*/meta.json")):
        m = json.loads(d.read_text())
        det = (m.get("detected_by") or {}).get(m["property"], {})
        rc = det.get("rc")
        verdict = {1: "VIOLATION", 2: "exit 2", 0: "silent"}.get(rc, str(rc))
        br = (m.get("breaks") or "").replace("|", "/").replace("\n", " ")[:110]
        nd = (m.get("needs_to_manifest") or "").replace("|", "/").replace("\n", " ")[:110]
        if br.startswith("see SUMMARY") or not br:
            br = m.get("summary", br)
        print(f"| {m['id']} | {br} | {nd} | {verdict} | {', '.join(det.get('rules', []))} |")
elif what == "refactors":
    import os
    cached = os.environ.get("REFACTOR_MATRIX_OUT")
    if cached:
        out = Path(cached).read_text()
    else:
        out = subprocess.run([sys.executable, str(V / "selftest/refactor_matrix.py")],
                             capture_output=True, text=True).stdout
    lines = [ln for ln in out.splitlines() if not ln.startswith("ok ")]
    print("(every patch x check that is not listed ended in exit 0)")
    print("\n".join(lines)[-12000:])
