"""Run checks against a seeded patch without touching /repo: copy the package
to a scratch dir, apply the patch there (patch -p1), run the analyser with
MOKAPOT_REPO pointing at the copy.

usage: python3 selftest/seedtest.py <patch.diff> C01 [C02 ...]
"""
import os, shutil, subprocess, sys, tempfile
from pathlib import Path
VERIF = Path(__file__).resolve().parent.parent
REPO = Path("/repo")

def run(patch, props, verbose=True):
    tmp = Path(tempfile.mkdtemp(prefix="sa-seed-"))
    try:
        shutil.copytree(REPO / "mokapot", tmp / "mokapot")
        r = subprocess.run(["patch", "-p1", "-s", "-i", str(patch)], cwd=tmp, capture_output=True, text=True)
        if r.returncode != 0:
            return {"error": "patch failed: " + r.stdout + r.stderr}
        res = {}
        for p in props:
            env = dict(os.environ, MOKAPOT_REPO=str(tmp), VERIF_OUT=str(tmp / "out"))
            pr = subprocess.run([sys.executable, "-B", "-m", "sa.main", p], cwd=VERIF, env=env, capture_output=True, text=True)
            rules = sorted({ln.split("rule ")[1].split(":")[0] for ln in pr.stdout.splitlines() if ": rule " in ln})
            res[p] = (pr.returncode, rules, pr.stdout)
        return res
    finally:
        shutil.rmtree(tmp, ignore_errors=True)

if __name__ == "__main__":
    patch = Path(sys.argv[1]).resolve()
    res = run(patch, sys.argv[2:])
    if "error" in res:
        print(res["error"]); sys.exit(2)
    for p, (rc, rules, out) in res.items():
        print(f"{p}: rc={rc} rules={rules}")
        if rc == 2 or "-v" in sys.argv:
            print("   " + "\n   ".join(out.splitlines()[-8:]))
