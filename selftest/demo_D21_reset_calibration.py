import sys, tempfile, os
import numpy as np, pandas as pd
import mokapot
from mokapot.dataset import OnDiskPsmDataset
rng=np.random.default_rng(1)
n=200
df=pd.DataFrame({"SpecId":[f"s{i}" for i in range(n)],"Label":rng.choice([1,-1],n),"ScanNr":np.arange(n),"feat":rng.normal(size=n),"Peptide":[f"P{i}" for i in range(n)],"Proteins":["x"]*n})
d=tempfile.mkdtemp(); p=os.path.join(d,"a.pin"); df.to_csv(p,sep="\t",index=False)
from pathlib import Path
ds=mokapot.read_pin(Path(p), max_workers=1)
ds=ds[0] if isinstance(ds,list) else ds
scores=df["feat"].values
try:
    out=ds.calibrate_scores(scores, 0.5)
    print("ok", out[:3])
except Exception as e:
    print("EXC", type(e).__name__, str(e)[:200])
