"""False-alarm resistance: behaviour-preserving rewrites of the whole package
must not make any check report a VIOLATION.

Variants (computed from the current /repo source with the ast module, never
executed):
  reformat   every module re-printed with ast.unparse (layout, comments and
             string quoting change; nothing else)
  rename     every local variable of every function renamed (x -> x_rn);
             parameters, attributes, globals and keyword names untouched
  noop       a no-op assignment inserted at the top of every function
  all        reformat + rename + noop
  imports    ``from .mod import f`` turned into ``from . import mod as
             mod__m`` with every use of ``f`` written ``mod__m.f`` (the
             other import style of the same objects)

usage: python3 selftest/neutral.py [variant ...] [-p C01,C02] [-v]
exit 0 iff no check exits 1 on any variant (exit 2 = 'undecided' is listed).
"""
from __future__ import annotations

import ast
import json
import os
import shutil
import subprocess
import sys
import tempfile
from concurrent.futures import ThreadPoolExecutor
from pathlib import Path

HERE = Path(__file__).resolve().parent
VERIF = HERE.parent
REPO = Path(os.environ.get("MOKAPOT_REPO", "/repo"))


class Renamer(ast.NodeTransformer):
    """Rename function-local variables consistently."""

    def __init__(self, suffix="_rn"):
        self.suffix = suffix
        self.stack = []

    def _locals_of(self, fn):
        params = {a.arg for a in fn.args.posonlyargs + fn.args.args
                  + fn.args.kwonlyargs}
        if fn.args.vararg:
            params.add(fn.args.vararg.arg)
        if fn.args.kwarg:
            params.add(fn.args.kwarg.arg)
        declared = set()
        stores = set()

        def walk(n, top=True):
            for ch in ast.iter_child_nodes(n):
                if isinstance(ch, (ast.FunctionDef, ast.AsyncFunctionDef,
                                   ast.Lambda, ast.ClassDef)):
                    if isinstance(ch, (ast.FunctionDef,
                                       ast.AsyncFunctionDef)):
                        pass  # nested def name is a local too but keep it
                    continue
                if isinstance(ch, (ast.Global, ast.Nonlocal)):
                    declared.update(ch.names)
                if isinstance(ch, ast.Name) and isinstance(
                        ch.ctx, (ast.Store, ast.Del)):
                    stores.add(ch.id)
                if isinstance(ch, ast.ExceptHandler) and ch.name:
                    pass  # handler names live in .name (str): leave them
                walk(ch, False)
        walk(fn)
        for n in ast.walk(fn):
            if isinstance(n, (ast.Global, ast.Nonlocal)):
                declared.update(n.names)
        return {s for s in stores - params - declared
                if not s.startswith("__") and s != "_"}

    def visit_FunctionDef(self, node):
        mine = self._locals_of(node)
        # names a nested function re-binds as parameter stay as they are in
        # that nested function: handled by pushing a mask
        self.stack.append(mine)
        node.body = [self.visit(s) for s in node.body]
        self.stack.pop()
        return node

    visit_AsyncFunctionDef = visit_FunctionDef

    def visit_Lambda(self, node):
        params = {a.arg for a in node.args.args + node.args.kwonlyargs}
        self.stack.append(("mask", params))
        node.body = self.visit(node.body)
        self.stack.pop()
        return node

    def visit_Name(self, node):
        masked = set()
        for frame in reversed(self.stack):
            if isinstance(frame, tuple):
                masked |= frame[1]
                continue
            if node.id in masked:
                return node
            if node.id in frame:
                return ast.copy_location(
                    ast.Name(id=node.id + self.suffix, ctx=node.ctx), node)
        return node


class NoOp(ast.NodeTransformer):
    def visit_FunctionDef(self, node):
        self.generic_visit(node)
        stmt = ast.parse("_verif_noop = None").body[0]
        i = 0
        if node.body and isinstance(node.body[0], ast.Expr) and isinstance(
                node.body[0].value, ast.Constant) and isinstance(
                    node.body[0].value.value, str):
            i = 1
        node.body.insert(i, stmt)
        return node


class ImportStyle(ast.NodeTransformer):
    """from .mod import f, g  ->  from . import mod as mod__m; f -> mod__m.f
    for relative imports of package modules.  Names that are re-bound
    anywhere in the module (assignment targets, parameters, loop variables,
    handler names) are left as they are."""

    def __init__(self, tree):
        self.map = {}
        rebound = set()
        for n in ast.walk(tree):
            if isinstance(n, ast.Name) and isinstance(
                    n.ctx, (ast.Store, ast.Del)):
                rebound.add(n.id)
            elif isinstance(n, ast.arg):
                rebound.add(n.arg)
            elif isinstance(n, (ast.FunctionDef, ast.AsyncFunctionDef,
                                ast.ClassDef)):
                rebound.add(n.name)
            elif isinstance(n, ast.ExceptHandler) and n.name:
                rebound.add(n.name)
            elif isinstance(n, (ast.Global, ast.Nonlocal)):
                rebound.update(n.names)
        self.rebound = rebound
        self.new_imports = []
        body = []
        for st in tree.body:
            if isinstance(st, ast.ImportFrom) and st.level >= 1 and \
                    st.module and "." not in st.module and all(
                        a.name != "*" for a in st.names):
                keep = []
                alias = st.module + "__m"
                moved = False
                for a in st.names:
                    local = a.asname or a.name
                    if local in rebound or local[:1].isupper() and False:
                        keep.append(a)
                        continue
                    self.map[local] = (alias, a.name)
                    moved = True
                if moved:
                    body.append(ast.ImportFrom(
                        module=None, level=st.level,
                        names=[ast.alias(name=st.module, asname=alias)]))
                if keep:
                    body.append(ast.ImportFrom(module=st.module,
                                               names=keep, level=st.level))
                continue
            body.append(st)
        tree.body = body

    def visit_Name(self, node):
        if isinstance(node.ctx, ast.Load) and node.id in self.map:
            alias, name = self.map[node.id]
            return ast.copy_location(ast.Attribute(
                value=ast.Name(id=alias, ctx=ast.Load()), attr=name,
                ctx=ast.Load()), node)
        return node


def make_variant(kind, dst):
    shutil.copytree(REPO / "mokapot", dst / "mokapot")
    for path in sorted((dst / "mokapot").rglob("*.py")):
        src = path.read_text()
        tree = ast.parse(src)
        if kind in ("rename", "all"):
            tree = Renamer().visit(tree)
        if kind in ("noop", "all"):
            tree = NoOp().visit(tree)
        if kind == "imports" and path.name != "__init__.py":
            tree = ImportStyle(tree).visit(tree)
        ast.fix_missing_locations(tree)
        out = ast.unparse(tree)
        compile(out, str(path), "exec")
        path.write_text(out + "\n")


def run_variant(kind, props):
    tmp = Path(tempfile.mkdtemp(prefix=f"sa-neutral-{kind}-"))
    try:
        make_variant(kind, tmp)
        res = {}

        def one(p):
            env = dict(os.environ, MOKAPOT_REPO=str(tmp),
                       VERIF_OUT=str(tmp / "out" / p))
            r = subprocess.run([sys.executable, "-B", "-m", "sa.main", p],
                               cwd=VERIF, env=env, capture_output=True,
                               text=True, timeout=600)
            return p, r.returncode, r.stdout
        with ThreadPoolExecutor(16) as ex:
            for p, rc, out in ex.map(one, props):
                res[p] = (rc, out)
        return res
    finally:
        shutil.rmtree(tmp, ignore_errors=True)


def main():
    args = [a for a in sys.argv[1:] if not a.startswith("-")]
    verbose = "-v" in sys.argv
    props = None
    if "-p" in sys.argv:
        props = sys.argv[sys.argv.index("-p") + 1].split(",")
        args = [a for a in args if a != ",".join(props)]
    if props is None:
        man = json.loads((VERIF / "MANIFEST.json").read_text())
        props = [c["property_id"] for c in man["checks"]]
    kinds = args or ["reformat", "rename", "noop", "all", "imports"]
    bad = 0
    undecided = 0
    for kind in kinds:
        res = run_variant(kind, props)
        for p in props:
            rc, out = res[p]
            if rc == 1:
                bad += 1
                print(f"FALSE-ALARM {kind:9} {p}")
                for ln in out.splitlines():
                    if ": rule " in ln or "ANALYSIS-INCOMPLETE" in ln:
                        print("     " + ln[:260])
            elif rc == 2:
                undecided += 1
                last = [ln for ln in out.splitlines()
                        if ln.startswith("ANALYSIS-ERROR")]
                print(f"undecided   {kind:9} {p}  {last[0][:220] if last else ''}")
            elif verbose:
                print(f"ok          {kind:9} {p}")
    print(f"{len(kinds)} variants x {len(props)} checks: {bad} false alarms, "
          f"{undecided} undecided")
    return 1 if bad else 0


if __name__ == "__main__":
    sys.exit(main())
