import sys, tempfile, os
from pathlib import Path
import numpy as np, pandas as pd
import mokapot
from sklearn.ensemble import RandomForestClassifier
brew_mod = sys.modules["mokapot.brew"]
rng=np.random.default_rng(3)
n=3001
lab=rng.choice([1,-1],n)
f1=rng.normal(size=n)+ (lab==1)*6.0
f2=rng.normal(size=n)
df=pd.DataFrame({"SpecId":[f"s{i}" for i in range(n)],"Label":lab,"ScanNr":np.arange(n),"f1":f1,"f2":f2,"Peptide":[f"P{i}" for i in range(n)],"Proteins":["x"]*n})
d=tempfile.mkdtemp(); p=os.path.join(d,"a.pin"); df.to_csv(p,sep="\t",index=False)
ds=mokapot.read_pin(Path(p), max_workers=1)
m_rf=mokapot.Model(RandomForestClassifier(n_estimators=10, random_state=1), rng=1, train_fdr=0.05)
m_svm=mokapot.PercolatorModel(rng=1, train_fdr=0.05)
from mokapot.dataset import LinearPsmDataset
lin=LinearPsmDataset(psms=df.assign(Label=(df.Label==1)), target_column="Label", spectrum_columns="ScanNr", peptide_column="Peptide", protein_column="Proteins", feature_columns=["f1","f2"], copy_data=True)
m_rf.fit(lin); m_svm.fit(lin)
m_rf.fold=1; m_svm.fold=2
calls=[]
orig=brew_mod.calibrate_scores
def spy(scores, targets, eval_fdr, desc=True):
    calls.append((len(scores), len(targets)))
    return orig(scores, targets, eval_fdr, desc)
brew_mod.calibrate_scores=spy
try:
    res=mokapot.brew(ds, model=[m_rf, m_svm], folds=2, rng=1, max_workers=1, test_fdr=0.2)
    print("brew ok")
except Exception as e:
    print("EXC", type(e).__name__, str(e)[:200])
print("calibrate calls (n scores, n targets):", calls)
bad=[c for c in calls if c[0]!=c[1]]
sys.exit(1 if bad or not calls else 0)
