"""Re-run every check against every confirmed seeded change (scratch copies),
update seeded/*/meta.json 'detected_by' and write seeded/MATRIX.json."""
import json, sys
from concurrent.futures import ThreadPoolExecutor
from pathlib import Path
sys.path.insert(0, str(Path(__file__).resolve().parent))
import seedtest
VERIF = Path(__file__).resolve().parent.parent
props = [c["property_id"] for c in json.loads((VERIF / "MANIFEST.json").read_text())["checks"]]
seeds = sorted((VERIF / "seeded").glob("*/meta.json"))
def one(mp):
    meta = json.loads(mp.read_text())
    res = seedtest.run(mp.parent / "patch.diff", props)
    if "error" in res:
        return meta["id"], {"error": res["error"]}
    det = {p: {"rc": rc, "rules": rules} for p, (rc, rules, out) in res.items() if rc != 0}
    meta["detected_by"] = det
    meta["own_property_exit"] = res[meta["property"]][0] if meta["property"] in res else None
    mp.write_text(json.dumps(meta, indent=1))
    return meta["id"], det
with ThreadPoolExecutor(8) as ex:
    out = dict(ex.map(one, seeds))
(VERIF / "seeded" / "MATRIX.json").write_text(json.dumps(out, indent=1, sort_keys=True))
miss = []
for sid, det in sorted(out.items()):
    own = sid.split("-")[0]
    rc = det.get(own, {}).get("rc", 0) if "error" not in det else "ERR"
    others = sorted(p for p in det if p != own) if "error" not in det else []
    print(f"{sid}: own check exit={rc} rules={det.get(own, {}).get('rules')} also={others}")
    if rc != 1:
        miss.append(sid)
print("not reported as VIOLATION by own check:", miss)
