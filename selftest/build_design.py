"""Refresh the generated tables of DESIGN.md in place.

The tables live between `<!-- BEGIN:<name> -->` and `<!-- END:<name> -->`
markers; everything else in DESIGN.md is hand-written and left alone.

    python3 selftest/build_design.py            rules + seeds (fast)
    python3 selftest/build_design.py refactors  also re-run the refactoring matrix
"""
import re, subprocess, sys
from pathlib import Path
V = Path(__file__).resolve().parent.parent
names = ["rules", "seeds"] + [a for a in sys.argv[1:] if a == "refactors"]
text = (V / "DESIGN.md").read_text()
for name in names:
    out = subprocess.run([sys.executable, str(V / "selftest/doc_tables.py"), name],
                         capture_output=True, text=True, check=True).stdout.rstrip()
    if name == "refactors":
        out = "```\n" + out + "\n```"
    pat = re.compile(rf"<!-- BEGIN:{name} -->.*?<!-- END:{name} -->", re.S)
    if not pat.search(text):
        sys.exit(f"marker {name} missing in DESIGN.md")
    text = pat.sub(lambda m: f"<!-- BEGIN:{name} -->\n{out}\n<!-- END:{name} -->", text)
(V / "DESIGN.md").write_text(text)
print("DESIGN.md tables refreshed:", ", ".join(names))
