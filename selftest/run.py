"""Mutation sensitivity of the checkers.

Every mutant is a textual edit of the *current* /repo source (old text must
occur exactly once), applied to a scratch copy of the package under
mkdtemp(); only the analyser runs on it - the mutated code is never executed.
`expect`: 'fire' (exit 1 with a VIOLATION for that property), 'silent'
(exit 0) or 'any-nonzero' (exit 1 or 2).

usage: python3 selftest/run.py [C01 C02 ...] [-j N] [-v]
"""
from __future__ import annotations

import importlib.util
import json
import os
import shutil
import subprocess
import sys
import tempfile
from concurrent.futures import ThreadPoolExecutor
from pathlib import Path

HERE = Path(__file__).resolve().parent
VERIF = HERE.parent
REPO = Path(os.environ.get("MOKAPOT_REPO", "/repo"))


def load_mutants():
    out = []
    for f in sorted((HERE / "mutants").glob("c*.py")):
        spec = importlib.util.spec_from_file_location(f.stem, f)
        m = importlib.util.module_from_spec(spec)
        spec.loader.exec_module(m)
        for mu in m.MUTANTS:
            mu = dict(mu)
            mu.setdefault("prop", f.stem.upper())
            out.append(mu)
    return out


def run_one(mu):
    tmp = Path(tempfile.mkdtemp(prefix="sa-mut-"))
    try:
        shutil.copytree(REPO / "mokapot", tmp / "mokapot")
        edits = mu.get("edits") or [(mu["file"], mu["old"], mu["new"])]
        for file, old, new in edits:
            path = tmp / "mokapot" / file
            src = path.read_text()
            if src.count(old) != 1:
                return dict(mu, result="skipped",
                            why=f"old text occurs {src.count(old)} times in {file}")
            path.write_text(src.replace(old, new))
            try:
                compile(path.read_text(), str(path), "exec")
            except SyntaxError as e:
                return dict(mu, result="skipped", why=f"syntax error {e}")
        env = dict(os.environ, MOKAPOT_REPO=str(tmp), VERIF_OUT=str(tmp / "out"))
        p = subprocess.run(
            [sys.executable, "-B", "-m", "sa.main", mu["prop"]],
            cwd=VERIF, env=env, capture_output=True, text=True, timeout=300)
        rc = p.returncode
        fired = rc == 1 and f"VIOLATION property={mu['prop']}" in p.stdout
        exp = mu["expect"]
        ok = {"fire": fired, "silent": rc == 0,
              "any-nonzero": rc != 0}[exp]
        rules = sorted({ln.split("rule ")[1].split(":")[0]
                        for ln in p.stdout.splitlines() if ": rule " in ln})
        return dict(mu, result="ok" if ok else "WRONG", rc=rc, rules=rules,
                    out=p.stdout[-1500:] if not ok else "")
    finally:
        shutil.rmtree(tmp, ignore_errors=True)


def main():
    args = [a for a in sys.argv[1:] if not a.startswith("-")]
    verbose = "-v" in sys.argv
    jobs = 16
    mus = load_mutants()
    if args:
        want = {a.upper() for a in args}
        mus = [m for m in mus if m["prop"] in want]
    with ThreadPoolExecutor(jobs) as ex:
        res = list(ex.map(run_one, mus))
    bad = 0
    for r in res:
        flag = r["result"]
        if flag != "ok":
            bad += 1
        if verbose or flag != "ok":
            print(f"{flag:8} {r['prop']} {r['expect']:7} {r['name']}"
                  f"  rc={r.get('rc')} rules={r.get('rules')}"
                  f" {r.get('why', '')}")
            if flag == "WRONG" and r.get("out"):
                print("    | " + "\n    | ".join(r["out"].splitlines()[-6:]))
    print(f"{len(res)} mutants, {bad} not as expected")
    return 1 if bad else 0


if __name__ == "__main__":
    sys.exit(main())
