"""Structured trace of a statement block under a valuation.

``trace(stmts, T, atoms)`` walks a list of statements the way the
interpreter would, deciding every ``if`` with the term evaluator
(``chunks.ev`` over ``atoms``), expanding every ``for`` loop whose iterable
evaluates to a small concrete sequence (the loop variable is then bound to
each element in turn), and honouring break / continue / return.  Nothing of
the repository is executed: only control flow is followed, on terms; data
stays symbolic.  The result is the ordered list of simple statements that
run, each with the bindings of the expanded loop variables that were active
- enough to read off "which updates happen, in which order, under this
flag valuation" when the code is written with small loops instead of
repeated statements (``for kind in ["targets", "decoys"] if decoys else
["targets"]: ...``).

A test or an iterable that cannot be evaluated raises ``Undecided``; the
caller reports exit 2 (never a verdict).
"""

from __future__ import annotations

import ast

from .chunks import Unknown, ev


class Undecided(Exception):
    pass


class _Break(Exception):
    pass


class _Continue(Exception):
    pass


class _Return(Exception):
    pass


def trace(stmts, T, atoms, max_steps=2000):
    """[(stmt node, {('elem', iter term): value, ...})] in execution order."""
    out = []
    steps = [0]

    def value(expr, env):
        t = T.of(expr)

        def at(x):
            if x in env:
                return env[x]
            return atoms(x)
        try:
            return ev(t, at)
        except (Unknown, KeyError) as e:
            raise Undecided(f"{ast.unparse(expr)[:60]}: {str(e)[:60]}")

    def block(body, env):
        for st in body:
            steps[0] += 1
            if steps[0] > max_steps:
                raise Undecided("trace too long")
            if isinstance(st, ast.If):
                block(st.body if value(st.test, env) else st.orelse, env)
            elif isinstance(st, ast.For):
                it_t = T.of(st.iter)
                seq = value(st.iter, env)
                if not isinstance(seq, (list, tuple)) or len(seq) > 8:
                    raise Undecided("loop iterable not a small sequence")
                broke = False
                for v in seq:
                    env2 = dict(env)
                    env2[("elem", it_t)] = v
                    try:
                        block(st.body, env2)
                    except _Continue:
                        continue
                    except _Break:
                        broke = True
                        break
                if not broke:
                    block(st.orelse, env)
            elif isinstance(st, ast.While):
                raise Undecided("while loop in a traced block")
            elif isinstance(st, ast.Break):
                raise _Break()
            elif isinstance(st, ast.Continue):
                raise _Continue()
            elif isinstance(st, ast.Return):
                out.append((st, dict(env)))
                raise _Return()
            elif isinstance(st, (ast.With, ast.AsyncWith)):
                out.append((st, dict(env)))
                block(st.body, env)
            elif isinstance(st, ast.Try):
                block(st.body, env)
                block(st.orelse, env)
                block(st.finalbody, env)
            else:
                out.append((st, dict(env)))

    try:
        block(stmts, {})
    except (_Break, _Continue, _Return):
        pass
    return out
