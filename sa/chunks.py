"""Bounded evaluation of *index arithmetic* terms: does a hand-written
splitter cut a string into consecutive pieces that together are the string?

A rule that meets ``textwrap.wrap(x)`` or the stride comprehension
``[x[i:i+w] for i in range(0, len(x), w)]`` needs none of this.  For any
other way of cutting ``x`` into lines (a loop plus a tail slice, min() /
max() on the bounds, negative indices ...) the rule hands the *term* of the
list of lines to ``judge_partition``: the term is evaluated - the term, a
closed expression over ``x``; no repository code runs - with ``x`` a string
of pairwise distinct characters, for every length 0 .. 3*w+1 (w = the
largest integer constant of the term).  A length for which the pieces do
not concatenate to ``x`` is a concrete witness (reported as the violation);
if all lengths pass the clause is recorded as held *on the evaluated
lengths*.  Terms outside the small pure fragment below give "unknown"
(exit 2), never a verdict.

Fragment: constants, names bound by the caller's ``atoms``, + - * // % and
unary minus, comparisons, not / and / or, conditional expressions, len(),
min(), max(), range(), list / tuple displays, list comprehensions over one
or more generators with filters, subscripts and slices, list + list,
``.append`` / ``.extend`` chains, textwrap.wrap.
"""

from __future__ import annotations

import re as _re
import textwrap

from .defuse import key as _tkey


class Unknown(Exception):
    pass


class Vec(tuple):
    """A small value vector with the element-wise semantics of a numpy
    array / pandas Series, for evaluating guards over label vectors."""

    def _zip(self, o, f):
        ov = o if isinstance(o, Vec) else Vec((o,) * len(self))
        return Vec(f(a, b) for a, b in zip(self, ov))

    def __lt__(self, o): return self._zip(o, lambda a, b: a < b)
    def __le__(self, o): return self._zip(o, lambda a, b: a <= b)
    def __gt__(self, o): return self._zip(o, lambda a, b: a > b)
    def __ge__(self, o): return self._zip(o, lambda a, b: a >= b)
    def __eq__(self, o): return self._zip(o, lambda a, b: a == b)
    def __ne__(self, o): return self._zip(o, lambda a, b: a != b)
    def __or__(self, o): return self._zip(o, lambda a, b: bool(a) or bool(b))
    def __and__(self, o):
        return self._zip(o, lambda a, b: bool(a) and bool(b))
    def __invert__(self): return Vec(not a for a in self)
    def __neg__(self): return Vec(-a for a in self)
    def __abs__(self): return Vec(abs(a) for a in self)
    def __hash__(self): return hash(tuple(self))
    def __bool__(self):
        if len(self) == 1:
            return bool(self[0])
        raise Unknown("truth value of a vector")

    def min(self): return min(tuple(self))
    def max(self): return max(tuple(self))
    def any(self): return any(bool(a) for a in self)
    def all(self): return all(bool(a) for a in self)
    def abs(self): return abs(self)
    def sum(self): return sum(tuple(self))
    def isin(self, xs): return Vec(a in tuple(xs) for a in self)
    def astype(self, ty): return Vec(ty(a) for a in self)


def ev(t, atoms, env=None):
    """Value of a term.  ``atoms(term)`` supplies values for leaves (raise
    KeyError to decline); ``env`` maps ('elem', iter term) loop variables of
    enclosing comprehensions to their current value."""
    env = env or {}
    if t in env:
        return env[t]
    try:
        return atoms(t)
    except KeyError:
        pass
    k = t[0]
    if k == "const":
        return t[1]
    if k == "un":
        v = ev(t[2], atoms, env)
        if t[1] == "not":
            return not v
        if t[1] == "-":
            return -v
        if t[1] == "+":
            return +v
    if k == "bool":
        r = t[1] == "and"
        for x in t[2]:
            r = ev(x, atoms, env)
            if bool(r) != (t[1] == "and"):
                return r
        return r
    if k == "cmp":
        a, b = ev(t[2], atoms, env), ev(t[3], atoms, env)
        ops = {"<": lambda: a < b, "<=": lambda: a <= b, ">": lambda: a > b,
               ">=": lambda: a >= b, "==": lambda: a == b,
               "!=": lambda: a != b, "in": lambda: a in b,
               "not in": lambda: a not in b, "is": lambda: a is b,
               "is not": lambda: a is not b}
        if t[1] in ops:
            return ops[t[1]]()
    if k == "bin":
        a, b = ev(t[2], atoms, env), ev(t[3], atoms, env)
        ops = {"+": lambda: a + b, "-": lambda: a - b, "*": lambda: a * b,
               "//": lambda: a // b, "%": lambda: a % b}
        if t[1] in ops:
            try:
                return ops[t[1]]()
            except ZeroDivisionError:
                raise Unknown("division by zero")
    if k == "ifexp":
        return ev(t[2] if ev(t[1], atoms, env) else t[3], atoms, env)
    if k == "set":
        return {ev(e, atoms, env) for e in t[1]}
    if k in ("list", "tuple"):
        out = []
        for e in t[1]:
            if e[0] == "star":
                out.extend(ev(e[1], atoms, env))
            else:
                out.append(ev(e, atoms, env))
        return out if k == "list" else tuple(out)
    if k == "slice":
        return slice(*(ev(x, atoms, env) for x in t[1:4]))
    if k == "sub":
        base = ev(t[1], atoms, env)
        idx = ev(t[2], atoms, env)
        try:
            return base[idx]
        except (IndexError, KeyError, TypeError):
            raise Unknown("subscript fails")
    if k == "call":
        args = [ev(a, atoms, env) for a in t[2]]
        kw = {n: ev(v, atoms, env) for n, v in t[3]}
        fn = {"builtins.any": lambda x: any(bool(a) for a in x),
              "builtins.all": lambda x: all(bool(a) for a in x),
              "numpy.any": lambda x: any(bool(a) for a in x),
              "numpy.all": lambda x: all(bool(a) for a in x),
              "numpy.abs": abs, "builtins.sum": sum, "builtins.set": set,
              "builtins.len": len, "builtins.min": min, "builtins.max": max,
              "builtins.range": range, "builtins.list": list,
              "builtins.tuple": tuple, "builtins.int": int,
              "builtins.abs": abs, "builtins.divmod": divmod,
              "builtins.bool": bool, "builtins.str": str,
              "textwrap.wrap": textwrap.wrap,
              "re.split": _re.split, "re.findall": _re.findall,
              "re.sub": _re.sub}.get(t[1])
        if fn is not None:
            try:
                return fn(*args, **kw)
            except Exception as e:  # noqa: BLE001
                raise Unknown(f"{t[1]} fails: {e}")
    if k == "comp" and t[1] in ("list", "gen"):
        out = []

        def rec(i, env_):
            if i == len(t[3]):
                out.append(ev(t[2], atoms, env_))
                return
            _targets, it, conds = t[3][i]
            for v in ev(it, atoms, env_):
                e2 = dict(env_)
                e2[("elem", it)] = v
                if all(ev(c, atoms, e2) for c in conds):
                    rec(i + 1, e2)
        rec(0, dict(env))
        return out
    if k == "mut" and t[2] in ("append", "extend") and len(t[3]) == 1:
        prev = list(ev(t[1], atoms, env))
        a = ev(t[3][0], atoms, env)
        if t[2] == "append":
            prev.append(a)
        else:
            prev.extend(a)
        return prev
    if k == "mcall" and t[2] == "join" and len(t[3]) == 1:
        return ev(t[1], atoms, env).join(ev(t[3][0], atoms, env))
    if k == "mcall" and t[2] in ("min", "max", "any", "all", "abs", "sum",
                                 "isin", "astype"):
        base = ev(t[1], atoms, env)
        if isinstance(base, Vec):
            args = [ev(a, atoms, env) for a in t[3]]
            try:
                return getattr(base, t[2])(*args)
            except Exception as e:  # noqa: BLE001
                raise Unknown(f".{t[2]} fails: {e}")
    if k == "mcall":
        # methods of plain strings and sets (pure, no repository code)
        base = None
        try:
            base = ev(t[1], atoms, env)
        except Unknown:
            base = None
        ok_str = isinstance(base, str) and t[2] in (
            "startswith", "endswith", "lower", "upper", "strip", "lstrip",
            "rstrip", "split", "replace", "count", "find", "isdigit",
            "splitlines", "partition", "rpartition", "rsplit")
        ok_set = isinstance(base, (set, frozenset)) and t[2] in (
            "intersection", "isdisjoint", "issubset", "issuperset", "union",
            "difference")
        if (ok_str or ok_set) and not t[4]:
            args = [ev(a, atoms, env) for a in t[3]]
            try:
                return getattr(base, t[2])(*args)
            except Exception as e:  # noqa: BLE001
                raise Unknown(f".{t[2]} fails: {e}")
    if k == "un" and t[1] == "~":
        v = ev(t[2], atoms, env)
        if isinstance(v, Vec):
            return ~v
    if k == "bin" and t[1] in ("|", "&"):
        a, b = ev(t[2], atoms, env), ev(t[3], atoms, env)
        if isinstance(a, Vec) or isinstance(b, Vec):
            return (a | b) if t[1] == "|" else (a & b)
        return (a | b) if t[1] == "|" else (a & b)
    if k in ("name", "free") and t[1] in ("builtins.int", "int",
                                          "builtins.bool", "bool",
                                          "builtins.float", "float"):
        return {"int": int, "bool": bool, "float": float}[
            t[1].split(".")[-1]]
    raise Unknown(_tkey(t)[:120])


def int_constants(t, acc=None):
    acc = set() if acc is None else acc
    if isinstance(t, tuple):
        if t[:1] == ("const",) and type(t[1]) is int:
            acc.add(t[1])
        for x in t:
            int_constants(x, acc)
    return acc


def distinct_string(n):
    return "".join(chr(0x100 + i) for i in range(n))


def judge_partition(cases, X):
    """``cases``: [(conditions [(term, outcome)], lines term)] - the
    alternative definitions of the list of lines with the conditions under
    which each applies (one straight-line path each).  ``X``: the term of
    the string being cut.

    Returns ('ok', lengths evaluated) | ('violation', message) |
    ('unknown', message)."""
    consts = set()
    for conds, lt in cases:
        int_constants(lt, consts)
        for c, _o in conds:
            int_constants(c, consts)
    w = max([c for c in consts if c > 1] or [8])
    top = min(3 * w + 1, 600)
    for L in range(0, top + 1):
        s = distinct_string(L)

        def atoms(t, s=s):
            if t == X:
                return s
            raise KeyError(t)
        active = []
        try:
            for conds, lt in cases:
                if all(bool(ev(c, atoms)) == o for c, o in conds):
                    active.append(lt)
            if len(active) != 1:
                return ("unknown", f"{len(active)} alternative definitions "
                        f"apply to a string of length {L}")
            lines = ev(active[0], atoms)
        except Unknown as e:
            return ("unknown", f"not evaluable: {e}")
        if not isinstance(lines, (list, tuple)) or not all(
                isinstance(x, str) for x in lines):
            return ("unknown", "the lines are not a list of strings")
        if "".join(lines) != s:
            got = [len(x) for x in lines]
            return ("violation",
                    f"for a string of {L} characters the pieces have lengths "
                    f"{got[:6]}{'...' if len(got) > 6 else ''} (total "
                    f"{sum(got)}): they do not concatenate to the string")
    return ("ok", top + 1)
