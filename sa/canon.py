"""Syntactic canonicalisation applied to every module before analysis.

Behaviour-preserving rewrites towards one spelling, so that equivalent code
reaches the rules in the same shape:

  K1  x = []                      ->  x = [E for T in IT if C]
      for T in IT:
          [if C:] x.append(E)
  K2  d = {}                      ->  d = {K: V for T in IT if C}
      for T in IT:
          [if C:] d[K] = V
  K3  if not A: X else: Y         ->  if A: Y else: X        (both non-empty)
  K4  x += [e] / x.extend([e])    ->  x.append(e)            (statement)
      x.extend(E)                 ->  x += E                 (statement)
  K5  for i, v in enumerate(xs, start=0) -> enumerate(xs)
  K7  a, b = x, y                 ->  a = x; b = y       (names only, no
                                      target read on the right-hand side)
  K8  a = b = CONST               ->  a = CONST; b = CONST
  K11 k = c; for x in IT: BODY; k += 1  ->  for k, x in enumerate(IT, c)
      (the increment - k += 1 or k = k + 1 - may stand anywhere at the top
      level of the body if nothing behind it reads k and no continue comes
      before it)
  K14 np.f(a, out=x)   (statement) ->  x = np.f(a, out=x)  (NumPy returns
                                      its out array)
  K13 for x in E: yield x         ->  yield from E       (x not used
                                      elsewhere)
  K12 k = a; while k < N [and C]: BODY; k += s  ->  for k in range(a, N, s):
                                      [if not C: break]; BODY   (k, N
                                      not written in BODY, no continue, k
                                      not read after the loop)
  K10 for x in (a, b): BODY       ->  BODY[a]; BODY[b]  (names only, short
                                      straight-line body)
  K15 map(f, X)                   ->  (f(m) for m in X)  (f a name; and
                                      list(map(f, X)) -> [f(m) for m in X])
  K16 (a, *(b, c))                ->  (a, b, c)
  K17 [E(v) for v in (a, b, c)]   ->  [E(a), E(b), E(c)]  (a, b, c names,
                                      attribute chains or constants; at most
                                      four)
  K18 for i in range(len(X)): .. X[i] ..  ->  for i, e in enumerate(X): .. e ..
                                      (X a name the body only reads as X[i]
                                      or len(X); i not re-bound)
  K22 add = xs[k].append; add(v)  ->  xs[k].append(v)   (add bound once to a
      method of a plain receiver whose names are never re-bound or stored
      into, and used only as a callee)
  K21 r = (a, b); .. r[0] ..; x, y = r; return r  ->  r__0, r__1 = a, b; ..
      r__0 ..; x, y = r__0, r__1; return (r__0, r__1)   (r a local only bound
      to tuple displays of one length, read only in these three ways)
  K20 while True: if C: break; rest  ->  while not C: rest   (also ``return``
      when the loop is the last statement of the function)
  K19 opts = {"a": x}; f(**opts)  ->  f(a=x)   (constant keys, plain values,
                                      opts used only as **opts)
  K9  t = delayed(f); t(x)        ->  delayed(f)(x)     (t bound once and
                                      used only as a callee)

The rewrites are conservative: K1/K2 require that the accumulator is
initialised empty immediately before the loop (statements in between must not
mention it), that the loop body consists of exactly the accumulation
(optionally under one ``if`` without ``else``), that there is no
break/continue/else, and that the accumulator is not read inside the loop.
Line numbers of the rewritten statements are those of the loop.
"""

from __future__ import annotations

import ast
import os


def _names(node):
    return {n.id for n in ast.walk(node) if isinstance(n, ast.Name)}


def _is_empty_list(e):
    return (isinstance(e, ast.List) and not e.elts) or (
        isinstance(e, ast.Call) and isinstance(e.func, ast.Name)
        and e.func.id == "list" and not e.args and not e.keywords)


def _is_empty_dict(e):
    return (isinstance(e, ast.Dict) and not e.keys) or (
        isinstance(e, ast.Call) and isinstance(e.func, ast.Name)
        and e.func.id == "dict" and not e.args and not e.keywords)


class Canon(ast.NodeTransformer):
    def __init__(self):
        self.applied = {"K1": 0, "K2": 0, "K3": 0, "K4": 0, "K5": 0}
        self.cur_fn = None

    # ---- statement lists
    def _block(self, body):
        body = [self.visit(s) for s in body]
        flat = []
        for s in body:
            flat.extend(s if isinstance(s, list) else [s])
        return self._loops_to_comps(flat)

    def _accum(self, loop, name):
        """(kind, elt/key, value, cond) when the loop only accumulates into
        ``name``."""
        if not isinstance(loop, ast.For) or loop.orelse:
            return None
        if not loop.body:
            return None
        # leading temporaries  t = EXPR  that live only inside this loop are
        # substituted into what follows
        temps = []
        guards = []
        for pre in loop.body[:-1]:
            if isinstance(pre, ast.Assign) and len(pre.targets) == 1 \
                    and isinstance(pre.targets[0], ast.Name) \
                    and pre.targets[0].id != name and not guards:
                temps.append((pre.targets[0].id, pre.value))
            elif isinstance(pre, ast.If) and not pre.orelse and \
                    len(pre.body) == 1 and isinstance(
                        pre.body[0], ast.Continue):
                # guard clause:  if C: continue   ==  keep only if not C
                guards.append(ast.UnaryOp(op=ast.Not(), operand=pre.test))
            else:
                return None
        if guards:
            last = loop.body[-1]
            if isinstance(last, ast.If) and not last.orelse and \
                    len(last.body) == 1:
                test = ast.BoolOp(op=ast.And(), values=guards + [last.test])
                inner = last.body[0]
            else:
                test = guards[0] if len(guards) == 1 else ast.BoolOp(
                    op=ast.And(), values=guards)
                inner = last
            new_last = ast.If(test=test, body=[inner], orelse=[])
            ast.copy_location(new_last, last)
            loop2 = ast.For(target=loop.target, iter=loop.iter,
                            body=[s_ for s_ in loop.body[:-1]
                                  if isinstance(s_, ast.Assign)]
                            + [new_last], orelse=[], type_comment=None)
            ast.copy_location(loop2, loop)
            ast.fix_missing_locations(loop2)
            loop = loop2
        if temps:
            loop = self._subst_temps(loop, temps)
            if loop is None:
                return None
        st = loop.body[-1]
        cond = None
        if isinstance(st, ast.If) and not st.orelse and len(st.body) == 1:
            cond = st.test
            st = st.body[0]
        inner = None
        if isinstance(st, ast.Expr) and isinstance(st.value, ast.Call) and \
                isinstance(st.value.func, ast.Attribute) and \
                st.value.func.attr == "append" and isinstance(
                    st.value.func.value, ast.Name) and \
                st.value.func.value.id == name and len(
                    st.value.args) == 1 and not st.value.keywords:
            inner = ("list", st.value.args[0], None)
        elif isinstance(st, ast.Assign) and len(st.targets) == 1 and \
                isinstance(st.targets[0], ast.Subscript) and isinstance(
                    st.targets[0].value, ast.Name) and \
                st.targets[0].value.id == name:
            inner = ("dict", st.targets[0].slice, st.value)
        if inner is None:
            return None
        used = _names(loop.iter) | _names(loop.target) | _names(inner[1])
        if inner[2] is not None:
            used |= _names(inner[2])
        if cond is not None:
            used |= _names(cond)
        if name in used:
            return None
        if any(isinstance(n, (ast.Break, ast.Continue, ast.Return,
                              ast.Yield, ast.YieldFrom))
               for n in ast.walk(loop)):
            return None
        return inner + (cond,)

    def _subst_temps(self, loop, temps):
        """Copy of the loop with only its last statement, the temporaries
        substituted; None when that is not safe."""
        fn = self.cur_fn
        if fn is None:
            return None
        tnames = [t for t, _v in temps]
        if len(set(tnames)) != len(tnames):
            return None
        target_names = _names(loop.target)
        for t in tnames:
            if t in target_names:
                return None
            inside_ids = {id(n) for n in ast.walk(loop)
                          if isinstance(n, ast.Name) and n.id == t}
            # names of nested scopes that bind ``t`` themselves (parameter
            # or local of an inner def / lambda) are different variables
            shadowed = set()
            for inner in ast.walk(fn):
                if inner is fn or not isinstance(
                        inner, (ast.FunctionDef, ast.AsyncFunctionDef,
                                ast.Lambda)):
                    continue
                a_ = inner.args
                bound = {x.arg for x in a_.posonlyargs + a_.args
                         + a_.kwonlyargs}
                if a_.vararg:
                    bound.add(a_.vararg.arg)
                if a_.kwarg:
                    bound.add(a_.kwarg.arg)
                if not isinstance(inner, ast.Lambda):
                    bound |= {n.id for b in inner.body for n in ast.walk(b)
                              if isinstance(n, ast.Name)
                              and isinstance(n.ctx, ast.Store)}
                if t in bound:
                    shadowed |= {id(n) for n in ast.walk(inner)}
            # a comprehension that binds ``t`` as its own loop variable has
            # a scope of its own as well (its first iterable excepted: that
            # is evaluated outside)
            for comp in ast.walk(fn):
                if not isinstance(comp, (ast.ListComp, ast.SetComp,
                                         ast.DictComp, ast.GeneratorExp)):
                    continue
                bound = {n.id for g in comp.generators
                         for n in ast.walk(g.target)
                         if isinstance(n, ast.Name)}
                if t in bound:
                    outer_it = {id(n) for n in ast.walk(
                        comp.generators[0].iter)}
                    shadowed |= {id(n) for n in ast.walk(comp)
                                 if id(n) not in outer_it}
            outside_loads = [n for n in ast.walk(fn)
                             if isinstance(n, ast.Name) and n.id == t
                             and id(n) not in inside_ids
                             and id(n) not in shadowed
                             and isinstance(n.ctx, ast.Load)]
            if outside_loads and not _reads_own_defs(fn, t, outside_loads):
                return None
            if t in {a.arg for a in fn.args.args + fn.args.kwonlyargs}:
                return None
        env = {}
        last = _copy(loop.body[-1])

        class Sub(ast.NodeTransformer):
            def visit_Name(self, node):
                if isinstance(node.ctx, ast.Load) and node.id in env:
                    return _copy(env[node.id])
                return node

        for t, v in temps:
            v2 = Sub().visit(_copy(v))
            # how often is it used afterwards?
            rest = [x for (t2, x) in temps[tnames.index(t) + 1:]] + [last]
            uses = sum(1 for r in rest for n in ast.walk(r)
                       if isinstance(n, ast.Name) and n.id == t
                       and isinstance(n.ctx, ast.Load))
            if uses > 1 and not _pure_ext(v2):
                return None
            if any(isinstance(n, ast.Name) and n.id == t and isinstance(
                    n.ctx, ast.Store) for n in ast.walk(last)):
                return None
            env[t] = v2
        last = Sub().visit(last)
        new = ast.For(target=loop.target, iter=loop.iter, body=[last],
                      orelse=[], type_comment=None)
        ast.copy_location(new, loop)
        ast.fix_missing_locations(new)
        return new

    def _while_true(self, node, exits):
        """K20  while True: if C: break; rest   ->   while not C: rest
        (``exits``: the statement kinds that leave the loop at that point -
        ``return`` counts when nothing follows the loop in the function)"""
        if not (isinstance(node, ast.While) and isinstance(
                node.test, ast.Constant) and node.test.value is True
                and len(node.body) > 1 and not node.orelse):
            return False
        first = node.body[0]
        if not (isinstance(first, ast.If) and not first.orelse
                and len(first.body) == 1 and isinstance(first.body[0], exits)
                and getattr(first.body[0], "value", None) is None):
            return False
        c = first.test
        node.test = c.operand if isinstance(c, ast.UnaryOp) and isinstance(
            c.op, ast.Not) else ast.copy_location(
                ast.UnaryOp(op=ast.Not(), operand=c), c)
        node.body = node.body[1:]
        self.applied["K20"] = self.applied.get("K20", 0) + 1
        return True

    def visit_While(self, node):
        self.generic_visit(node)
        self._while_true(node, (ast.Break,))
        return node

    def _scalarise_records(self, fn):
        """K21  r = (a, b, c) ... r[1] ... x, y, z = r ... return r   ->
        r__0, r__1, r__2 = a, b, c ... r__1 ... x, y, z = r__0, r__1, r__2
        ... return (r__0, r__1, r__2)
        for a local name that is only ever bound to tuple displays of one
        length and only read by constant subscript, by unpacking into as
        many targets, or as the returned value."""
        own, nested = [], []

        def walk(n, inner):
            for ch in ast.iter_child_nodes(n):
                deeper = inner or isinstance(
                    ch, (ast.FunctionDef, ast.AsyncFunctionDef, ast.Lambda,
                         ast.ClassDef))
                (nested if deeper else own).append(ch)
                walk(ch, deeper)
        for st in fn.body:
            own.append(st)
            walk(st, False)
        params = {a.arg for a in fn.args.args + fn.args.kwonlyargs
                  + fn.args.posonlyargs}
        for extra in (fn.args.vararg, fn.args.kwarg):
            if extra is not None:
                params.add(extra.arg)
        parent = {}
        for n in own:
            for ch in ast.iter_child_nodes(n):
                parent[id(ch)] = n
        cands = {}
        for n in own:
            if isinstance(n, ast.Assign) and len(n.targets) == 1 and \
                    isinstance(n.targets[0], ast.Name) and isinstance(
                        n.value, ast.Tuple) and n.value.elts and not any(
                        isinstance(e, ast.Starred) for e in n.value.elts):
                cands.setdefault(n.targets[0].id, set()).add(
                    len(n.value.elts))
        hidden = {x.id for x in nested if isinstance(x, ast.Name)}
        done = False
        for name, sizes in sorted(cands.items()):
            if len(sizes) != 1 or name in params or name in hidden:
                continue
            k = next(iter(sizes))
            ok = True
            for n in own:
                if not (isinstance(n, ast.Name) and n.id == name):
                    continue
                par = parent.get(id(n))
                if isinstance(n.ctx, ast.Store):
                    ok = ok and isinstance(par, ast.Assign) and \
                        par.targets == [n] and isinstance(
                            par.value, ast.Tuple) and len(
                                par.value.elts) == k
                elif isinstance(n.ctx, ast.Load):
                    if isinstance(par, ast.Subscript) and par.value is n \
                            and isinstance(par.ctx, ast.Load) and \
                            isinstance(par.slice, ast.Constant) and type(
                                par.slice.value) is int and \
                            -k <= par.slice.value < k:
                        continue
                    if isinstance(par, ast.Assign) and par.value is n and \
                            len(par.targets) == 1 and isinstance(
                                par.targets[0], (ast.Tuple, ast.List)) and \
                            len(par.targets[0].elts) == k and not any(
                                isinstance(e, ast.Starred)
                                for e in par.targets[0].elts):
                        continue
                    if isinstance(par, ast.Return) and par.value is n:
                        continue
                    ok = False
                else:
                    ok = False
            if not ok:
                continue
            fields = [f"{name}__{i}" for i in range(k)]

            class _R(ast.NodeTransformer):
                def visit_FunctionDef(self, node):
                    return node

                visit_AsyncFunctionDef = visit_Lambda = visit_ClassDef = \
                    visit_FunctionDef

                def visit_Subscript(self, node):
                    if isinstance(node.value, ast.Name) and \
                            node.value.id == name and isinstance(
                                node.ctx, ast.Load):
                        return ast.copy_location(ast.Name(
                            id=fields[node.slice.value % k],
                            ctx=ast.Load()), node)
                    self.generic_visit(node)
                    return node

                def visit_Name(self, node):
                    if node.id != name:
                        return node
                    if isinstance(node.ctx, ast.Store):
                        new = ast.Tuple(elts=[ast.Name(id=f_, ctx=ast.Store())
                                              for f_ in fields],
                                        ctx=ast.Store())
                    else:
                        new = ast.Tuple(elts=[ast.Name(id=f_, ctx=ast.Load())
                                              for f_ in fields],
                                        ctx=ast.Load())
                    return ast.copy_location(new, node)
            fn.body = [_R().visit(st) for st in fn.body]
            ast.fix_missing_locations(fn)
            self.applied["K21"] = self.applied.get("K21", 0) + 1
            done = True
            break           # parents are stale: one record per pass
        if done:
            self._scalarise_records(fn)

    def visit_FunctionDef(self, node):
        prev, self.cur_fn = self.cur_fn, node
        self._scalarise_records(node)
        self.generic_visit(node)
        self.cur_fn = prev
        if node.body:
            self._while_true(node.body[-1], (ast.Break, ast.Return))
        self._inline_task_aliases(node)
        self._spread_keyword_dicts(node)
        return node

    def _spread_keyword_dicts(self, fn):
        """K19  opts = {"a": x, "b": y} ... f(p, **opts)  ->  f(p, a=x, b=y)
        (opts bound once to a display with constant string keys and plain
        values - names, attribute chains, constants - whose root names are
        bound at most once, before the display; opts used only as **opts)
        and  f(**{"a": x})  ->  f(a=x)."""
        parents = {}
        for n in ast.walk(fn):
            for ch in ast.iter_child_nodes(n):
                parents[id(ch)] = n

        def const_keys(d):
            return isinstance(d, ast.Dict) and d.keys and all(
                isinstance(k, ast.Constant) and isinstance(k.value, str)
                and k.value.isidentifier() for k in d.keys)

        # direct: f(**{...})
        for n in ast.walk(fn):
            if isinstance(n, ast.Call):
                new_kws, changed = [], False
                for kw in n.keywords:
                    if kw.arg is None and const_keys(kw.value) and not (
                            {k.value for k in kw.value.keys}
                            & {k2.arg for k2 in n.keywords}):
                        for k, v in zip(kw.value.keys, kw.value.values):
                            new_kws.append(ast.keyword(arg=k.value, value=v))
                        changed = True
                    else:
                        new_kws.append(kw)
                if changed:
                    n.keywords = new_kws
                    self.applied["K19"] = self.applied.get("K19", 0) + 1
        # through a name
        stores = {}
        for n in ast.walk(fn):
            if isinstance(n, ast.Name) and isinstance(
                    n.ctx, (ast.Store, ast.Del)):
                stores.setdefault(n.id, []).append(n)
        params = {a.arg for a in fn.args.args + fn.args.kwonlyargs
                  + fn.args.posonlyargs}
        for st in list(ast.walk(fn)):
            if not (isinstance(st, ast.Assign) and len(st.targets) == 1
                    and isinstance(st.targets[0], ast.Name)
                    and const_keys(st.value)):
                continue
            name = st.targets[0].id
            if len(stores.get(name, [])) != 1 or name in params:
                continue
            if not all(_plain(v) for v in st.value.values):
                continue
            roots = {x.id for v in st.value.values for x in ast.walk(v)
                     if isinstance(x, ast.Name)}
            if any(len(stores.get(r, [])) > 1 or any(
                    getattr(s_, "lineno", 0) >= st.lineno
                    for s_ in stores.get(r, [])) for r in roots):
                continue
            uses = [n for n in ast.walk(fn) if isinstance(n, ast.Name)
                    and n.id == name and isinstance(n.ctx, ast.Load)]
            if not uses or not all(
                    isinstance(parents.get(id(u)), ast.keyword)
                    and parents[id(u)].arg is None for u in uses):
                continue
            ok = True
            for u in uses:
                call = parents.get(id(parents[id(u)]))
                if not isinstance(call, ast.Call) or (
                        {k.value for k in st.value.keys}
                        & {k2.arg for k2 in call.keywords}):
                    ok = False
            if not ok:
                continue
            for u in uses:
                kwn = parents[id(u)]
                call = parents[id(kwn)]
                new_kws = []
                for kw in call.keywords:
                    if kw is kwn:
                        for k, v in zip(st.value.keys, st.value.values):
                            new_kws.append(ast.keyword(arg=k.value,
                                                       value=_copy(v)))
                    else:
                        new_kws.append(kw)
                call.keywords = new_kws
                ast.fix_missing_locations(call)
            # the display itself is now unused: drop the binding
            holder = parents.get(id(st))
            for field in ("body", "orelse", "finalbody"):
                lst = getattr(holder, field, None)
                if isinstance(lst, list) and any(x is st for x in lst):
                    lst[:] = [x for x in lst if x is not st] or [
                        ast.copy_location(ast.Pass(), st)]
            self.applied["K19"] = self.applied.get("K19", 0) + 1

    def _inline_task_aliases(self, fn):
        """K9  t = delayed(f) ... t(args)  ->  delayed(f)(args)   (t bound
        once, used only as a callee)"""
        for st in list(ast.walk(fn)):
            if not (isinstance(st, ast.Assign) and len(st.targets) == 1
                    and isinstance(st.targets[0], ast.Name)
                    and isinstance(st.value, ast.Call)
                    and ((ast.unparse(st.value.func).split(".")[-1]
                          == "delayed" and len(st.value.args) == 1
                          and not st.value.keywords)
                         or ast.unparse(st.value.func).split(".")[-1]
                         == "Parallel")):
                continue
            name = st.targets[0].id
            stores = [n for n in ast.walk(fn) if isinstance(n, ast.Name)
                      and n.id == name and isinstance(n.ctx, (ast.Store,
                                                              ast.Del))]
            loads = [n for n in ast.walk(fn) if isinstance(n, ast.Name)
                     and n.id == name and isinstance(n.ctx, ast.Load)]
            callees = [c for c in ast.walk(fn) if isinstance(c, ast.Call)
                       and isinstance(c.func, ast.Name)
                       and c.func.id == name]
            if len(stores) != 1 or not loads or len(loads) != len(callees):
                continue
            for c in callees:
                c.func = _copy(st.value)
                ast.copy_location(c.func, c)
            # the binding itself becomes a no-op
            st.value = ast.Constant(value=None)
            self.applied["K9"] = self.applied.get("K9", 0) + 1
        # K22  add = xs[k].append ... add(v)  ->  xs[k].append(v)
        # (add bound once to a method of a plain receiver - names,
        # constant-free subscripts and attributes of names that the
        # function never re-binds and never stores into - and used only as
        # a callee)
        for st in list(ast.walk(fn)):
            if not (isinstance(st, ast.Assign) and len(st.targets) == 1
                    and isinstance(st.targets[0], ast.Name)
                    and isinstance(st.value, ast.Attribute)):
                continue
            recv = st.value.value
            if not all(isinstance(x, (ast.Name, ast.Subscript, ast.Attribute,
                                      ast.Load, ast.Constant))
                       for x in ast.walk(recv)):
                continue
            name = st.targets[0].id
            rnames = _names(recv)
            if name in rnames:
                continue
            stores = [n for n in ast.walk(fn) if isinstance(n, ast.Name)
                      and n.id == name and isinstance(n.ctx, (ast.Store,
                                                              ast.Del))]
            loads = [n for n in ast.walk(fn) if isinstance(n, ast.Name)
                     and n.id == name and isinstance(n.ctx, ast.Load)]
            callees = [c for c in ast.walk(fn) if isinstance(c, ast.Call)
                       and isinstance(c.func, ast.Name)
                       and c.func.id == name]
            if len(stores) != 1 or not loads or len(loads) != len(callees):
                continue
            rebound = any(
                isinstance(n, ast.Name) and n.id in rnames
                and isinstance(n.ctx, (ast.Store, ast.Del))
                for n in ast.walk(fn))
            stored_into = any(
                isinstance(n, (ast.Subscript, ast.Attribute))
                and isinstance(n.ctx, (ast.Store, ast.Del))
                and _names(n.value) & rnames for n in ast.walk(fn))
            if rebound or stored_into:
                continue
            for c in callees:
                c.func = _copy(st.value)
                ast.copy_location(c.func, c)
            st.value = ast.Constant(value=None)
            self.applied["K22"] = self.applied.get("K22", 0) + 1
        # jobs = (task(x) for x in xs); Parallel(..)(jobs)
        #   ->  Parallel(..)(task(x) for x in xs)
        # (jobs bound once, used once - as the only argument of a call whose
        # callee is itself a call - in the same block, and nothing in
        # between rebinds a name the generator reads)
        for blk in [n for n in ast.walk(fn) if hasattr(n, "body")
                    and isinstance(getattr(n, "body"), list)]:
            for field in ("body", "orelse", "finalbody"):
                body = getattr(blk, field, None)
                if not isinstance(body, list):
                    continue
                for i, st in enumerate(body):
                    if not (isinstance(st, ast.Assign)
                            and len(st.targets) == 1
                            and isinstance(st.targets[0], ast.Name)
                            and isinstance(st.value, (ast.GeneratorExp,
                                                      ast.ListComp))):
                        continue
                    name = st.targets[0].id
                    occ = [n for n in ast.walk(fn) if isinstance(n, ast.Name)
                           and n.id == name]
                    if len(occ) != 2:
                        continue
                    use = None
                    for j in range(i + 1, len(body)):
                        for c in ast.walk(body[j]):
                            if isinstance(c, ast.Call) and isinstance(
                                    c.func, ast.Call) and len(c.args) == 1 \
                                    and not c.keywords and isinstance(
                                        c.args[0], ast.Name) and \
                                    c.args[0].id == name:
                                use = (j, c)
                        if use:
                            break
                    if not use:
                        continue
                    j, c = use
                    reads = _names(st.value)
                    between = set()
                    for k in range(i + 1, j):
                        between |= _stores(body[k])
                    if reads & between:
                        continue
                    c.args[0] = st.value
                    st.value = ast.Constant(value=None)
                    self.applied["K9"] = self.applied.get("K9", 0) + 1
        ast.fix_missing_locations(fn)

    visit_AsyncFunctionDef = visit_FunctionDef

    def _multi_accum(self, loop, names):
        """[(name, kind, elt/key, value)] when the loop body is one
        unconditional accumulation per name in ``names`` (each exactly
        once) and nothing else."""
        if not isinstance(loop, ast.For) or loop.orelse or \
                len(loop.body) != len(names) or len(names) < 2:
            return None
        if not _reiterable(loop.iter):
            return None
        out = {}
        for st in loop.body:
            if isinstance(st, ast.Expr) and isinstance(
                    st.value, ast.Call) and isinstance(
                        st.value.func, ast.Attribute) and \
                    st.value.func.attr == "append" and isinstance(
                        st.value.func.value, ast.Name) and len(
                            st.value.args) == 1 and not st.value.keywords:
                nm = st.value.func.value.id
                item = (nm, "list", st.value.args[0], None)
            elif isinstance(st, ast.Assign) and len(st.targets) == 1 and \
                    isinstance(st.targets[0], ast.Subscript) and isinstance(
                        st.targets[0].value, ast.Name):
                nm = st.targets[0].value.id
                item = (nm, "dict", st.targets[0].slice, st.value)
            else:
                return None
            if nm not in names or nm in out:
                return None
            out[nm] = item
        used = _names(loop.iter) | _names(loop.target)
        for it in out.values():
            used |= _names(it[2])
            if it[3] is not None:
                used |= _names(it[3])
            # the accumulated expressions must not have effects that depend
            # on being interleaved: constructors and pure displays only
            for e in (it[2], it[3]):
                if e is not None and not _pure(e):
                    return None
        if used & set(names):
            return None
        return [out[n] for n in names]

    def _manual_counters(self, body):
        """K11  k = c; for x in IT: BODY; k += 1   ->
                for k, x in enumerate(IT, c): BODY
        (k only incremented at the end of the body, no continue, not read
        after the loop)"""
        out = list(body)
        fn = self.cur_fn
        i = 0
        while i < len(out):
            st = out[i]
            if isinstance(st, ast.Assign) and len(st.targets) == 1 and \
                    isinstance(st.targets[0], ast.Name) and isinstance(
                        st.value, ast.Constant) and type(
                            st.value.value) is int and fn is not None:
                k = st.targets[0].id
                j = i + 1
                while j < len(out) and k not in _names(out[j]):
                    j += 1
                lp = out[j] if j < len(out) else None
                def is_inc(x):
                    if isinstance(x, ast.AugAssign) and isinstance(
                            x.target, ast.Name) and x.target.id == k and \
                            isinstance(x.op, ast.Add) and isinstance(
                                x.value, ast.Constant) and \
                            x.value.value == 1:
                        return True
                    # k = k + 1 / k = 1 + k
                    return isinstance(x, ast.Assign) and len(
                        x.targets) == 1 and isinstance(
                            x.targets[0], ast.Name) and \
                        x.targets[0].id == k and isinstance(
                            x.value, ast.BinOp) and isinstance(
                                x.value.op, ast.Add) and sorted(
                        ast.dump(y) for y in (x.value.left, x.value.right)
                    ) == sorted([ast.dump(ast.Name(id=k, ctx=ast.Load())),
                                 ast.dump(ast.Constant(value=1))])
                m = None
                if isinstance(lp, ast.For) and not lp.orelse and lp.body \
                        and k not in _names(lp.iter) | _names(lp.target):
                    incs = [ix for ix, x in enumerate(lp.body) if is_inc(x)]
                    # the increment is one unconditional statement of the
                    # body and nothing behind it looks at the counter
                    if len(incs) == 1 and not any(
                            k in _names(x) for x in lp.body[incs[0] + 1:]):
                        m = incs[0]
                if m is not None:
                    inner = lp.body[:m] + lp.body[m + 1:]
                    before = lp.body[:m]
                    stores = [n for s_ in inner for n in ast.walk(s_)
                              if isinstance(n, ast.Name) and n.id == k
                              and isinstance(n.ctx, (ast.Store, ast.Del))]
                    conts = [n for s_ in before for n in ast.walk(s_)
                             if isinstance(n, ast.Continue)]
                    in_loop = {id(n) for n in ast.walk(lp)}
                    after = [n for n in ast.walk(fn)
                             if isinstance(n, ast.Name) and n.id == k
                             and id(n) not in in_loop and n is not
                             st.targets[0]]
                    if not stores and not conts and not after and inner:
                        call = ast.Call(
                            func=ast.Name(id="enumerate", ctx=ast.Load()),
                            args=[lp.iter] + ([st.value] if
                                              st.value.value != 0 else []),
                            keywords=[])
                        new = ast.For(
                            target=ast.Tuple(
                                elts=[ast.Name(id=k, ctx=ast.Store()),
                                      lp.target], ctx=ast.Store()),
                            iter=call, body=inner, orelse=[],
                            type_comment=None)
                        ast.copy_location(new, lp)
                        ast.fix_missing_locations(new)
                        out = out[:i] + out[i + 1:j] + [new] + out[j + 1:]
                        self.applied["K11"] = self.applied.get("K11", 0) + 1
                        continue
            i += 1
        return out

    def _while_counters(self, body):
        """K12  k = a; while k < N [and C]: BODY; k += s  ->
                for k in range(a, N[, s]): [if not C: break]; BODY"""
        out = list(body)
        fn = self.cur_fn
        i = 0
        while i < len(out):
            st = out[i]
            if fn is not None and isinstance(st, ast.Assign) and len(
                    st.targets) == 1 and isinstance(
                        st.targets[0], ast.Name) and _pure(st.value):
                k = st.targets[0].id
                j = i + 1
                while j < len(out) and k not in _names(out[j]) and not (
                        _names(st.value) & _stores(out[j])):
                    j += 1
                lp = out[j] if j < len(out) else None
                new = self._while_to_for(lp, k, st, fn) if isinstance(
                    lp, ast.While) else None
                if new is not None:
                    out = out[:i] + out[i + 1:j] + [new] + out[j + 1:]
                    self.applied["K12"] = self.applied.get("K12", 0) + 1
                    continue
            i += 1
        return out

    def _while_to_for(self, lp, k, init, fn):
        if lp.orelse or len(lp.body) < 2:
            return None
        inc = lp.body[-1]
        if not (isinstance(inc, ast.AugAssign) and isinstance(
                inc.target, ast.Name) and inc.target.id == k and isinstance(
                    inc.op, ast.Add) and isinstance(inc.value, ast.Constant)
                and type(inc.value.value) is int and inc.value.value >= 1):
            return None
        test = lp.test
        rest = None
        if isinstance(test, ast.BoolOp) and isinstance(test.op, ast.And):
            first = test.values[0]
            rest = test.values[1:]
        else:
            first = test
        if not (isinstance(first, ast.Compare) and len(first.ops) == 1):
            return None
        a, op, b = first.left, first.ops[0], first.comparators[0]
        if isinstance(a, ast.Name) and a.id == k and isinstance(
                op, (ast.Lt, ast.LtE)):
            bound, incl = b, isinstance(op, ast.LtE)
        elif isinstance(b, ast.Name) and b.id == k and isinstance(
                op, (ast.Gt, ast.GtE)):
            bound, incl = a, isinstance(op, ast.GtE)
        else:
            return None
        inner = lp.body[:-1]
        if not _pure(bound) or k in _names(bound):
            return None
        written = set()
        for s_ in inner:
            written |= _stores(s_)
        if k in written or (_names(bound) & written):
            return None
        # a second conjunct that reads what the body writes makes this a
        # "retry until" loop, not a counting scan: leave it alone
        if rest and any(_names(r) & written for r in rest):
            return None
        # attribute / subscript bounds could be changed by calls in the body:
        # accept only names, constants and len() of a name
        okb = all(isinstance(x, (ast.Name, ast.Constant, ast.Load, ast.Call,
                                 ast.BinOp, ast.Add, ast.Sub))
                  for x in ast.walk(bound)) and all(
                      isinstance(x.func, ast.Name) and x.func.id == "len"
                      for x in ast.walk(bound) if isinstance(x, ast.Call))
        if not okb:
            return None
        from .inline import _loop_level_jumps
        if any(isinstance(x, ast.Continue)
               for x in _loop_level_jumps(inner)):
            return None
        in_loop = {id(n) for n in ast.walk(lp)}
        after = [n for n in ast.walk(fn) if isinstance(n, ast.Name)
                 and n.id == k and id(n) not in in_loop
                 and n is not init.targets[0]]
        if after:
            return None
        stop = bound if not incl else ast.BinOp(
            left=bound, op=ast.Add(), right=ast.Constant(value=1))
        args = [init.value, stop]
        if isinstance(init.value, ast.Constant) and init.value.value == 0 \
                and inc.value.value == 1:
            args = [stop]
        elif inc.value.value != 1:
            args.append(ast.Constant(value=inc.value.value))
        body = list(inner)
        if rest:
            cond = rest[0] if len(rest) == 1 else ast.BoolOp(
                op=ast.And(), values=rest)
            body = [ast.If(test=ast.UnaryOp(op=ast.Not(), operand=cond),
                           body=[ast.Break()], orelse=[])] + body
        new = ast.For(target=ast.Name(id=k, ctx=ast.Store()),
                      iter=ast.Call(func=ast.Name(id="range", ctx=ast.Load()),
                                    args=args, keywords=[]),
                      body=body, orelse=[], type_comment=None)
        ast.copy_location(new, lp)
        for x in ast.walk(new):
            if not hasattr(x, "lineno"):
                ast.copy_location(x, lp)
        ast.fix_missing_locations(new)
        return new

    def _loops_to_comps(self, body):
        out = self._manual_counters(list(body) if os.environ.get("MOKAPOT_NO_K12") else self._while_counters(list(body)))
        i = 0
        while i < len(out):
            st = out[i]
            # a run of empty initialisations followed by one loop filling
            # all of them
            run = []
            j = i
            while j < len(out) and isinstance(out[j], ast.Assign) and len(
                    out[j].targets) == 1 and isinstance(
                        out[j].targets[0], ast.Name) and (
                            _is_empty_list(out[j].value)
                            or _is_empty_dict(out[j].value)):
                run.append(out[j])
                j += 1
            if len(run) >= 2 and j < len(out) and isinstance(
                    out[j], ast.For):
                names = [r.targets[0].id for r in run]
                kinds = ["list" if _is_empty_list(r.value) else "dict"
                         for r in run]
                acc = self._multi_accum(out[j], names) if len(
                    set(names)) == len(names) else None
                if acc and [a[1] for a in acc] == kinds:
                    loop = out[j]
                    news = []
                    for r, a in zip(run, acc):
                        gen = ast.comprehension(
                            target=_copy(loop.target), iter=_copy(loop.iter),
                            ifs=[], is_async=0)
                        if a[1] == "list":
                            val = ast.ListComp(elt=a[2], generators=[gen])
                            self.applied["K1"] += 1
                        else:
                            val = ast.DictComp(key=a[2], value=a[3],
                                               generators=[gen])
                            self.applied["K2"] += 1
                        new = ast.Assign(targets=[r.targets[0]], value=val)
                        ast.copy_location(new, loop)
                        ast.copy_location(val, loop)
                        news.append(new)
                    out = out[:i] + news + out[j + 1:]
                    i += len(news)
                    continue
            if isinstance(st, ast.Assign) and len(st.targets) == 1 and \
                    isinstance(st.targets[0], ast.Name):
                name = st.targets[0].id
                kind = "list" if _is_empty_list(st.value) else (
                    "dict" if _is_empty_dict(st.value) else None)
                if kind:
                    # next statement mentioning the name
                    j = i + 1
                    while j < len(out) and name not in _names(out[j]):
                        j += 1
                    if j < len(out) and isinstance(out[j], ast.If) and \
                            name not in _names(out[j].test) and not any(
                                name in _names(x) for x in out[j].orelse):
                        # xs = []; if C: for ..: xs.append(..)   ->
                        # xs = []; if C: xs = [..]   (the empty default
                        # stays, the filling loop becomes a comprehension)
                        inner = [x for x in out[j].body
                                 if name in _names(x)]
                        if len(inner) == 1 and isinstance(inner[0], ast.For):
                            acc = self._accum(inner[0], name)
                            if acc and acc[0] == kind:
                                loop = inner[0]
                                gen = ast.comprehension(
                                    target=loop.target, iter=loop.iter,
                                    ifs=[acc[3]] if acc[3] is not None
                                    else [], is_async=0)
                                if kind == "list":
                                    val = ast.ListComp(elt=acc[1],
                                                       generators=[gen])
                                    self.applied["K1"] += 1
                                else:
                                    val = ast.DictComp(
                                        key=acc[1], value=acc[2],
                                        generators=[gen])
                                    self.applied["K2"] += 1
                                new = ast.Assign(
                                    targets=[_copy(st.targets[0])],
                                    value=val)
                                ast.copy_location(new, loop)
                                ast.copy_location(val, loop)
                                out[j].body = [new if x is loop else x
                                               for x in out[j].body]
                                i += 1
                                continue
                    if j < len(out) and isinstance(out[j], ast.For):
                        acc = self._accum(out[j], name)
                        if acc and acc[0] == kind:
                            loop = out[j]
                            gen = ast.comprehension(
                                target=loop.target, iter=loop.iter,
                                ifs=[acc[3]] if acc[3] is not None else [],
                                is_async=0)
                            if kind == "list":
                                val = ast.ListComp(elt=acc[1],
                                                   generators=[gen])
                                self.applied["K1"] += 1
                            else:
                                val = ast.DictComp(key=acc[1], value=acc[2],
                                                   generators=[gen])
                                self.applied["K2"] += 1
                            new = ast.Assign(targets=[st.targets[0]],
                                             value=val)
                            ast.copy_location(new, loop)
                            ast.copy_location(val, loop)
                            # statements between i and j stay; the empty
                            # initialisation disappears
                            out = out[:i] + out[i + 1:j] + [new] + \
                                out[j + 1:]
                            continue
            i += 1
        return out

    def generic_visit(self, node):
        for field, old in ast.iter_fields(node):
            if isinstance(old, list) and old and all(
                    isinstance(x, ast.stmt) for x in old):
                setattr(node, field, self._block(old))
            elif isinstance(old, list):
                new = []
                for x in old:
                    if isinstance(x, ast.AST):
                        x = self.visit(x)
                        if x is None:
                            continue
                        if isinstance(x, list):
                            new.extend(x)
                            continue
                    new.append(x)
                old[:] = new
            elif isinstance(old, ast.AST):
                new = self.visit(old)
                if new is None:
                    delattr(node, field)
                else:
                    setattr(node, field, new)
        return node

    # ---- single statements
    def visit_If(self, node):
        self.generic_visit(node)
        if isinstance(node.test, ast.UnaryOp) and isinstance(
                node.test.op, ast.Not) and node.body and node.orelse and \
                not (len(node.orelse) == 1 and isinstance(
                    node.orelse[0], ast.If)):
            node.test = node.test.operand
            node.body, node.orelse = node.orelse, node.body
            self.applied["K3"] += 1
        return node

    def _range_len_to_enumerate(self, node):
        """K18  for i in range(len(X)): ... X[i] ...  ->
                for i, e in enumerate(X): ... e ...
        X a plain name that the body only reads as X[i] or len(X); i not
        re-bound in the body; neither used after the loop in a way that the
        rewrite changes (i keeps its meaning, e is new)."""
        it = node.iter
        if not (isinstance(node.target, ast.Name) and isinstance(
                it, ast.Call) and isinstance(it.func, ast.Name)
                and it.func.id == "range" and len(it.args) == 1
                and not it.keywords and isinstance(it.args[0], ast.Call)
                and isinstance(it.args[0].func, ast.Name)
                and it.args[0].func.id == "len"
                and len(it.args[0].args) == 1
                and isinstance(it.args[0].args[0], ast.Name)
                and not node.orelse):
            return node
        i, X = node.target.id, it.args[0].args[0].id
        if i == X:
            return node
        parents = {}
        for st in node.body:
            for n in ast.walk(st):
                for ch in ast.iter_child_nodes(n):
                    parents[id(ch)] = n
        hits = []
        for st in node.body:
            for n in ast.walk(st):
                if isinstance(n, (ast.FunctionDef, ast.Lambda,
                                  ast.AsyncFunctionDef)):
                    return node
                if isinstance(n, ast.Name) and n.id == i and isinstance(
                        n.ctx, (ast.Store, ast.Del)):
                    return node
                if isinstance(n, ast.Name) and n.id == X:
                    par = parents.get(id(n))
                    if isinstance(par, ast.Subscript) and par.value is n \
                            and isinstance(par.ctx, ast.Load) and \
                            isinstance(par.slice, ast.Name) and \
                            par.slice.id == i:
                        hits.append(par)
                        continue
                    if isinstance(par, ast.Call) and isinstance(
                            par.func, ast.Name) and par.func.id == "len" \
                            and par.args == [n]:
                        continue
                    return node
        var = f"_e{getattr(node, 'lineno', 0)}_{X}"

        class Sub(ast.NodeTransformer):
            def visit_Subscript(self, n):
                if any(n is h for h in hits):
                    return ast.copy_location(
                        ast.Name(id=var, ctx=ast.Load()), n)
                return self.generic_visit(n)
        node.body = [Sub().visit(st) for st in node.body]
        node.target = ast.Tuple(
            elts=[ast.Name(id=i, ctx=ast.Store()),
                  ast.Name(id=var, ctx=ast.Store())], ctx=ast.Store())
        node.iter = ast.Call(func=ast.Name(id="enumerate", ctx=ast.Load()),
                             args=[ast.Name(id=X, ctx=ast.Load())],
                             keywords=[])
        ast.fix_missing_locations(node)
        self.applied["K18"] = self.applied.get("K18", 0) + 1
        return node

    def visit_For(self, node):
        self.generic_visit(node)
        node = self._range_len_to_enumerate(node)
        # K13  for x in E: yield x   ->   yield from E
        if isinstance(node.target, ast.Name) and not node.orelse and \
                len(node.body) == 1 and isinstance(
                    node.body[0], ast.Expr) and isinstance(
                        node.body[0].value, ast.Yield) and isinstance(
                            node.body[0].value.value, ast.Name) and \
                node.body[0].value.value.id == node.target.id:
            fn = self.cur_fn
            later = [n for n in ast.walk(fn) if isinstance(n, ast.Name)
                     and n.id == node.target.id
                     and n is not node.target
                     and n is not node.body[0].value.value] \
                if fn is not None else [1]
            if not later:
                new = ast.Expr(value=ast.YieldFrom(value=node.iter))
                ast.copy_location(new, node)
                ast.fix_missing_locations(new)
                self.applied["K13"] = self.applied.get("K13", 0) + 1
                return new
        # K10  for x in (a, b, c): BODY   ->   BODY[a]; BODY[b]; BODY[c]
        # (display of plain names, short straight-line body that only uses
        # x as a load)
        if isinstance(node.iter, (ast.Tuple, ast.List)) and \
                1 <= len(node.iter.elts) <= 4 and all(
                    isinstance(e, (ast.Name, ast.Constant))
                    for e in node.iter.elts) and \
                isinstance(node.target, ast.Name) and not node.orelse and \
                len(node.body) <= 2 and not any(
                    isinstance(n, (ast.Break, ast.Continue, ast.Return,
                                   ast.Yield, ast.YieldFrom, ast.For,
                                   ast.While, ast.If, ast.Try))
                    for st in node.body for n in ast.walk(st)) and not any(
                    isinstance(n, ast.Name) and n.id == node.target.id
                    and isinstance(n.ctx, (ast.Store, ast.Del))
                    for st in node.body for n in ast.walk(st)):
            fn = self.cur_fn
            used_after = fn is not None and any(
                isinstance(n, ast.Name) and n.id == node.target.id
                and not any(n is x for x in ast.walk(node))
                for n in ast.walk(fn))
            if not used_after:
                out = []
                tname = node.target.id
                for e in node.iter.elts:
                    class Sub(ast.NodeTransformer):
                        def visit_Name(self, n, e=e):
                            if n.id == tname and isinstance(n.ctx, ast.Load):
                                return _copy(e)
                            return n
                    for st in node.body:
                        st2 = Sub().visit(_copy(st))
                        ast.copy_location(st2, node)
                        out.append(st2)
                for st2 in out:
                    ast.fix_missing_locations(st2)
                self.applied["K10"] = self.applied.get("K10", 0) + 1
                return out
        return node

    def visit_Assign(self, node):
        self.generic_visit(node)
        # K7  a, b = x, y  ->  a = x; b = y   (no target read on the right)
        if len(node.targets) == 1 and isinstance(
                node.targets[0], (ast.Tuple, ast.List)) and isinstance(
                    node.value, (ast.Tuple, ast.List)) and len(
                        node.targets[0].elts) == len(node.value.elts) and \
                not any(isinstance(e, ast.Starred)
                        for e in node.targets[0].elts + node.value.elts):
            tnames = set()
            for t in node.targets[0].elts:
                tnames |= _names(t)
            vnames = set()
            for v in node.value.elts:
                vnames |= _names(v)
            if not (tnames & vnames) and all(
                    isinstance(t, ast.Name) for t in node.targets[0].elts):
                out = []
                for t, v in zip(node.targets[0].elts, node.value.elts):
                    a = ast.Assign(targets=[t], value=v)
                    ast.copy_location(a, node)
                    out.append(a)
                self.applied["K7"] = self.applied.get("K7", 0) + 1
                return out
        # K8  a = b = CONST  ->  a = CONST; b = CONST
        if len(node.targets) > 1 and isinstance(
                node.value, ast.Constant) and all(
                    isinstance(t, ast.Name) for t in node.targets):
            out = []
            for t in node.targets:
                a = ast.Assign(targets=[t], value=_copy(node.value))
                ast.copy_location(a, node)
                out.append(a)
            self.applied["K8"] = self.applied.get("K8", 0) + 1
            return out
        return node

    def visit_AugAssign(self, node):
        self.generic_visit(node)
        if isinstance(node.op, ast.Add) and isinstance(
                node.target, (ast.Name, ast.Subscript, ast.Attribute)) and \
                isinstance(node.value, ast.List) and len(
                    node.value.elts) == 1 and not isinstance(
                        node.value.elts[0], ast.Starred):
            call = ast.Call(
                func=ast.Attribute(value=_load(node.target), attr="append",
                                   ctx=ast.Load()),
                args=[node.value.elts[0]], keywords=[])
            new = ast.Expr(value=call)
            ast.copy_location(new, node)
            ast.fix_missing_locations(new)
            self.applied["K4"] += 1
            return new
        return node

    def visit_Expr(self, node):
        self.generic_visit(node)
        v = node.value
        # K14  np.f(a, b, out=x)  (statement)  ->  x = np.f(a, b, out=x)
        # (NumPy functions return their ``out`` array)
        if isinstance(v, ast.Call):
            root = v.func
            while isinstance(root, ast.Attribute):
                root = root.value
            outs = [k for k in v.keywords if k.arg == "out"
                    and isinstance(k.value, ast.Name)]
            if isinstance(root, ast.Name) and root.id in ("np", "numpy") \
                    and isinstance(v.func, ast.Attribute) and len(outs) == 1:
                new = ast.Assign(
                    targets=[ast.Name(id=outs[0].value.id, ctx=ast.Store())],
                    value=v)
                ast.copy_location(new, node)
                ast.fix_missing_locations(new)
                self.applied["K14"] = self.applied.get("K14", 0) + 1
                return new
        if isinstance(v, ast.Call) and isinstance(v.func, ast.Attribute) \
                and v.func.attr == "extend" and len(v.args) == 1 and \
                not v.keywords and isinstance(
                    v.func.value, (ast.Name, ast.Subscript, ast.Attribute)):
            arg = v.args[0]
            if isinstance(arg, ast.List) and len(arg.elts) == 1 and \
                    not isinstance(arg.elts[0], ast.Starred):
                v.func.attr = "append"
                v.args = [arg.elts[0]]
                self.applied["K4"] += 1
                return node
            new = ast.AugAssign(target=_store(v.func.value), op=ast.Add(),
                                value=arg)
            ast.copy_location(new, node)
            ast.fix_missing_locations(new)
            self.applied["K4"] += 1
            return new
        return node

    def _flatten_stars(self, node):
        # K16  (a, *(b, c), d)  ->  (a, b, c, d)
        if any(isinstance(e, ast.Starred) and isinstance(
                e.value, (ast.Tuple, ast.List)) and not any(
                    isinstance(x, ast.Starred) for x in e.value.elts)
                for e in node.elts):
            elts = []
            for e in node.elts:
                if isinstance(e, ast.Starred) and isinstance(
                        e.value, (ast.Tuple, ast.List)) and not any(
                            isinstance(x, ast.Starred)
                            for x in e.value.elts):
                    elts.extend(e.value.elts)
                else:
                    elts.append(e)
            node.elts = elts
            self.applied["K16"] = self.applied.get("K16", 0) + 1
        return node

    def visit_Tuple(self, node):
        self.generic_visit(node)
        return self._flatten_stars(node) if isinstance(
            node.ctx, ast.Load) else node

    def visit_List(self, node):
        self.generic_visit(node)
        return self._flatten_stars(node) if isinstance(
            node.ctx, ast.Load) else node

    def visit_ListComp(self, node):
        self.generic_visit(node)
        # K17  [E(v) for v in (a, b, c)]  ->  [E(a), E(b), E(c)]
        #      (a, b, c names / attribute chains / constants; v a name that
        #      E does not re-bind)
        if len(node.generators) == 1:
            g = node.generators[0]
            if not g.ifs and not g.is_async and isinstance(
                    g.target, ast.Name) and isinstance(
                        g.iter, (ast.Tuple, ast.List)) and 1 <= len(
                            g.iter.elts) <= 4 and all(
                    _plain(e) for e in g.iter.elts) and not any(
                    isinstance(x, (ast.Lambda, ast.ListComp, ast.SetComp,
                                   ast.DictComp, ast.GeneratorExp,
                                   ast.NamedExpr))
                    for x in ast.walk(node.elt)):
                var = g.target.id
                elts = []
                for e in g.iter.elts:
                    class _S(ast.NodeTransformer):
                        def visit_Name(self, n, e=e):
                            if n.id == var and isinstance(n.ctx, ast.Load):
                                return ast.copy_location(_copy(e), n)
                            return n
                    elts.append(_S().visit(_copy(node.elt)))
                new = ast.copy_location(
                    ast.List(elts=elts, ctx=ast.Load()), node)
                ast.fix_missing_locations(new)
                self.applied["K17"] = self.applied.get("K17", 0) + 1
                return new
        return node

    def visit_Call(self, node):
        self.generic_visit(node)
        if isinstance(node.func, ast.Name) and node.func.id == "enumerate":
            kws = [k for k in node.keywords if k.arg == "start"]
            if kws and isinstance(kws[0].value, ast.Constant) and \
                    kws[0].value.value == 0:
                node.keywords = [k for k in node.keywords
                                 if k.arg != "start"]
                self.applied["K5"] += 1
        # K15  map(f, X) -> (f(m) for m in X);  list(map(f, X)) -> [f(m) ...]
        if isinstance(node.func, ast.Name) and node.func.id in (
                "list", "tuple", "set") and len(node.args) == 1 and \
                not node.keywords and isinstance(
                    node.args[0], ast.GeneratorExp) and getattr(
                        node.args[0], "_k15", False) and \
                node.func.id == "list":
            g = node.args[0]
            new = ast.copy_location(
                ast.ListComp(elt=g.elt, generators=g.generators), node)
            return new
        if isinstance(node.func, ast.Name) and node.func.id == "map" and \
                len(node.args) == 2 and not node.keywords and isinstance(
                    node.args[0], (ast.Name, ast.Attribute)) and not any(
                        isinstance(a, ast.Starred) for a in node.args):
            var = f"_m{getattr(node, 'lineno', 0)}_" \
                  f"{getattr(node, 'col_offset', 0)}"
            elt = ast.Call(func=node.args[0],
                           args=[ast.Name(id=var, ctx=ast.Load())],
                           keywords=[])
            gen = ast.comprehension(
                target=ast.Name(id=var, ctx=ast.Store()),
                iter=node.args[1], ifs=[], is_async=0)
            new = ast.GeneratorExp(elt=elt, generators=[gen])
            ast.copy_location(new, node)
            ast.fix_missing_locations(new)
            new._k15 = True
            self.applied["K15"] = self.applied.get("K15", 0) + 1
            return new
        return node


def _plain(e):
    if isinstance(e, (ast.Name, ast.Constant)):
        return True
    return isinstance(e, ast.Attribute) and _plain(e.value)


def _stores(node):
    return {n.id for n in ast.walk(node) if isinstance(n, ast.Name)
            and isinstance(n.ctx, (ast.Store, ast.Del))}


def _copy(t):
    import copy
    return copy.deepcopy(t)


def _reads_own_defs(fn, name, loads):
    """Every given read of ``name`` sits in a loop body that assigns the
    name, at its top level, before the statement containing the read."""
    for ld in loads:
        ok = False
        for lp in ast.walk(fn):
            if not isinstance(lp, (ast.For, ast.While)):
                continue
            assigned = False
            for st in lp.body:
                if any(x is ld for x in ast.walk(st)):
                    ok = ok or assigned
                    break
                if isinstance(st, ast.Assign) and any(
                        isinstance(tg, ast.Name) and tg.id == name
                        for tg in st.targets):
                    assigned = True
        if not ok:
            return False
    return True


def _reiterable(e):
    if isinstance(e, (ast.Name, ast.Attribute, ast.Subscript, ast.Tuple,
                      ast.List, ast.Constant)):
        return True
    if isinstance(e, ast.Call) and not e.keywords:
        f = e.func
        if isinstance(f, ast.Name) and f.id in ("range", "enumerate", "zip",
                                                "sorted", "list", "len"):
            return all(_reiterable(a) for a in e.args)
        if isinstance(f, ast.Attribute) and f.attr in (
                "items", "keys", "values") and not e.args:
            return _reiterable(f.value)
    return False


_PURE_METHODS = {"lower", "upper", "strip", "lstrip", "rstrip", "get",
                 "startswith", "endswith", "casefold", "split", "items",
                 "keys", "values", "index", "count"}


def _pure_ext(e):
    for n in ast.walk(e):
        if isinstance(n, ast.Call):
            f = n.func
            if isinstance(f, ast.Name) and f.id in (
                    "set", "list", "dict", "tuple", "len", "str", "int",
                    "float", "frozenset", "range", "sorted", "min", "max",
                    "abs", "bool", "isinstance"):
                continue
            if isinstance(f, ast.Attribute) and f.attr in _PURE_METHODS:
                continue
            return False
        if isinstance(n, (ast.Await, ast.Yield, ast.YieldFrom,
                          ast.NamedExpr)):
            return False
    return True


def _pure(e):
    for n in ast.walk(e):
        if isinstance(n, ast.Call):
            f = n.func
            if not (isinstance(f, ast.Name) and f.id in (
                    "set", "list", "dict", "tuple", "len", "str", "int",
                    "float", "frozenset", "range")):
                return False
        if isinstance(n, (ast.Await, ast.Yield, ast.YieldFrom,
                          ast.NamedExpr)):
            return False
    return True


def _load(t):
    import copy
    n = copy.deepcopy(t)
    for x in ast.walk(n):
        if hasattr(x, "ctx"):
            x.ctx = ast.Load()
    return n


def _store(t):
    import copy
    n = copy.deepcopy(t)
    n.ctx = ast.Store()
    return n


def canonicalise(tree):
    c = Canon()
    c.generic_visit(tree)
    ast.fix_missing_locations(tree)
    return c.applied
