"""K6: inlining of helper functions the rules were not written against.

The rules name the repository's functions (``brew._predict``,
``confidence.assign_confidence`` ...).  Extracting a few statements of such a
function into a new helper - a module-level function, a method of the same
class or a nested closure - does not change behaviour and must not change a
verdict.  Before any rule runs, every call to a helper that is *unknown to
the reference* (its qualified name is not a key of refnames.json, i.e. it did
not exist in the tree the rules were written for) is replaced by the helper's
body, so that the rules see the code where it used to be.  A breaking change
hidden in a new helper is seen in place as well.

Inlined are helpers that
  * have no decorators, *args / **kwargs, yield, nested definitions,
    global / nonlocal statements and are not recursive;
  * return only at the end of their body (statement helpers), or consist of a
    single ``return EXPR`` (expression helpers), or have the shape
    ``if C: return A`` ... ``return B`` flattened to a conditional
    expression - anything else is left alone;
  * are called from the same module (by name, or as ``self.helper(...)`` from
    a method of the same class).

Call sites that are a whole statement (``helper(...)``, ``x = helper(...)``,
``return helper(...)``) receive the statements of the body; a call nested in
an expression is replaced only by an expression helper.  Arguments that are
names, constants, attribute chains or subscripts of those are substituted
for the parameters; any other argument is first bound to a fresh local.
Locals of the helper that collide with names of the caller are renamed.
Helpers whose every call was inlined and that are private (leading
underscore or nested) are removed from the module.

Generator helpers (a block of a loop extracted into ``def items(): ...
yield x``) are inlined where the whole stream is consumed on the spot:
``for T in g(..): BODY`` (no break / continue / else at that level),
``recv.update(g(..))`` / ``recv.extend(g(..))``, ``x = list(g(..))`` /
``set(g(..))`` and ``yield from g(..)``.  Each ``yield E`` of the helper
becomes ``T = E; BODY`` (respectively ``recv.add(E)``, ``recv.append(E)``,
``yield E``).  The helper must yield only in statement position, must not
return a value and must not read the receiver it feeds.
"""

from __future__ import annotations

import ast
import copy


def _qualnames(tree, modname):
    """[(qualname, def node, owner)] with owner = ('mod', None) |
    ('class', ClassDef) | ('func', FunctionDef)."""
    out = []

    def visit(body, prefix, owner):
        for st in body:
            if isinstance(st, (ast.FunctionDef, ast.AsyncFunctionDef)):
                q = f"{prefix}.{st.name}"
                out.append((q, st, owner))
                for n in ast.walk(st):
                    if n is not st and isinstance(
                            n, (ast.FunctionDef, ast.AsyncFunctionDef)):
                        # direct nesting only is handled by the recursion
                        pass
                visit_nested(st, q)
            elif isinstance(st, ast.ClassDef):
                visit(st.body, f"{prefix}.{st.name}", ("class", st))
            elif isinstance(st, (ast.If, ast.Try, ast.With)):
                for sub in ast.iter_child_nodes(st):
                    if isinstance(sub, ast.stmt):
                        visit([sub], prefix, owner)

    def visit_nested(fn, q):
        def rec(n):
            for ch in ast.iter_child_nodes(n):
                if isinstance(ch, (ast.FunctionDef, ast.AsyncFunctionDef)):
                    out.append((f"{q}.{ch.name}", ch, ("func", fn)))
                    visit_nested(ch, f"{q}.{ch.name}")
                elif isinstance(ch, (ast.Lambda, ast.ClassDef)):
                    continue
                else:
                    rec(ch)
        rec(fn)

    visit(tree.body, modname, ("mod", None))
    return out


def _simple(e):
    if isinstance(e, (ast.Name, ast.Constant)):
        return True
    if isinstance(e, ast.Attribute):
        return _simple(e.value)
    if isinstance(e, ast.Subscript):
        return _simple(e.value) and _simple(e.slice)
    if isinstance(e, ast.UnaryOp) and isinstance(e.operand, ast.Constant):
        return True
    if isinstance(e, ast.Tuple) and isinstance(e.ctx, ast.Load):
        # the packed surplus arguments of a *args helper
        return all(_simple(x) for x in e.elts)
    return False


def _strip_doc(body):
    if body and isinstance(body[0], ast.Expr) and isinstance(
            body[0].value, ast.Constant) and isinstance(
                body[0].value.value, str):
        return body[1:]
    return body


def _fold_early_returns(body):
    """Procedures only:  ``if C: ...; return`` followed by REST becomes
    ``if C: ... else: REST`` so that the body has no return in the middle."""
    if any(isinstance(x, ast.Return) and x.value is not None and not (
            isinstance(x.value, ast.Constant) and x.value.value is None)
            for st in body for x in ast.walk(st)):
        return body
    for i, st in enumerate(body):
        if isinstance(st, ast.If) and not st.orelse and st.body and \
                isinstance(st.body[-1], ast.Return) and not any(
                    isinstance(x, ast.Return) for s2 in st.body[:-1]
                    for x in ast.walk(s2)):
            rest = _fold_early_returns(body[i + 1:])
            if not rest:
                return body[:i] + [ast.If(test=st.test,
                                          body=st.body[:-1] or [ast.Pass()],
                                          orelse=[])]
            new = ast.If(test=st.test, body=st.body[:-1] or [ast.Pass()],
                         orelse=rest)
            ast.copy_location(new, st)
            ast.fix_missing_locations(new)
            return body[:i] + [new]
    if body and isinstance(body[-1], ast.Return):
        return body[:-1] or [ast.Pass()]
    return body


def _fold_value_returns(body, ret):
    """``if C: ...; return A`` followed by REST ending in ``return B``
    becomes  ``if C: ...; ret = A  else: REST'; ret = B``  - a body without
    returns that leaves the result in the variable ``ret``.  None when the
    returns sit anywhere else (loops, try, nested deeper)."""
    def assign(v):
        a = ast.Assign(targets=[ast.Name(id=ret, ctx=ast.Store())],
                       value=v if v is not None else ast.Constant(None))
        return a

    def has_ret(nodes):
        return any(isinstance(x, ast.Return) for n_ in nodes
                   for x in ast.walk(n_))

    def fold(stmts):
        if not stmts:
            return [assign(None)]
        for i, st in enumerate(stmts):
            if isinstance(st, ast.Return):
                if i != len(stmts) - 1:
                    return None
                return stmts[:i] + [assign(st.value)]
            if isinstance(st, ast.If) and has_ret([st]):
                then = fold(st.body) if has_ret(st.body) else None
                if has_ret(st.body) and then is None:
                    return None
                if st.orelse and has_ret(st.orelse):
                    other = fold(st.orelse)
                    if other is None or stmts[i + 1:]:
                        # both arms return: nothing may follow
                        if other is None or (stmts[i + 1:] and has_ret(
                                st.body)):
                            return None
                    new = ast.If(test=st.test,
                                 body=then or st.body, orelse=other)
                    ast.copy_location(new, st)
                    return stmts[:i] + [new]
                if st.orelse:
                    return None
                rest = fold(stmts[i + 1:])
                if rest is None:
                    return None
                new = ast.If(test=st.test, body=then, orelse=rest)
                ast.copy_location(new, st)
                return stmts[:i] + [new]
            if has_ret([st]):
                return None     # return inside a loop / try / with
        return stmts + [assign(None)]

    out = fold(list(body))
    if out is not None:
        for x in out:
            ast.fix_missing_locations(x)
    return out


def _fold_tail_returns(body, ret):
    """Every ``return V`` in tail position (last statement of the body, of
    both arms of a final ``if``, of the body / handlers of a final ``try``
    without ``finally``, of a final ``with``) becomes ``ret = V``: nothing
    can run after it anyway.  None when a return sits anywhere else."""
    def has_ret(nodes):
        return any(isinstance(x, ast.Return) for n_ in nodes
                   for x in ast.walk(n_))

    def tail(stmts):
        if not stmts:
            return []
        if has_ret(stmts[:-1]):
            return None
        last = stmts[-1]
        head = list(stmts[:-1])
        if isinstance(last, ast.Return):
            a = ast.Assign(targets=[ast.Name(id=ret, ctx=ast.Store())],
                           value=last.value if last.value is not None
                           else ast.Constant(None))
            return head + [ast.copy_location(a, last)]
        if not has_ret([last]):
            return head + [last]
        if isinstance(last, ast.If):
            a, b = tail(last.body), tail(last.orelse)
            if a is None or b is None:
                return None
            new = ast.If(test=last.test, body=a, orelse=b)
        elif isinstance(last, (ast.With, ast.AsyncWith)):
            a = tail(last.body)
            if a is None:
                return None
            new = type(last)(items=last.items, body=a, type_comment=None)
        elif isinstance(last, ast.Try):
            if last.finalbody and has_ret(last.finalbody):
                return None
            if last.orelse:
                if has_ret(last.body):
                    return None
                b_, o_ = list(last.body), tail(last.orelse)
            else:
                b_, o_ = tail(last.body), []
            if b_ is None or o_ is None:
                return None
            hs = []
            for h in last.handlers:
                hb = tail(h.body)
                if hb is None:
                    return None
                hs.append(ast.ExceptHandler(type=h.type, name=h.name,
                                            body=hb))
            new = ast.Try(body=b_, handlers=hs, orelse=o_,
                          finalbody=last.finalbody)
        else:
            return None
        return head + [ast.copy_location(new, last)]

    res = tail(list(body))
    if res is None:
        return None
    res = [ast.Assign(targets=[ast.Name(id=ret, ctx=ast.Store())],
                      value=ast.Constant(None))] + res
    for x in res:
        ast.fix_missing_locations(x)
    return res


def _fold_returns_with_flag(body, ret, done):
    """Last resort for returns nested in ``with`` / ``if`` blocks (not in
    loops or try): ``return V`` becomes ``ret = V; done = True`` and
    everything that could run after it is put under ``if not done:``.  The
    ``with`` block still ends (its __exit__ runs) before anything behind it
    is skipped, as with the real return.  None when a return sits in a loop,
    a try or a nested definition."""
    def has_ret(nodes):
        return any(isinstance(x, ast.Return) for n_ in nodes
                   for x in ast.walk(n_))

    def not_done():
        return ast.UnaryOp(op=ast.Not(),
                           operand=ast.Name(id=done, ctx=ast.Load()))

    def fold(stmts):
        out = []
        for i, st in enumerate(stmts):
            if isinstance(st, ast.Return):
                out.append(ast.Assign(
                    targets=[ast.Name(id=ret, ctx=ast.Store())],
                    value=st.value if st.value is not None
                    else ast.Constant(None)))
                out.append(ast.Assign(
                    targets=[ast.Name(id=done, ctx=ast.Store())],
                    value=ast.Constant(True)))
                return out          # the rest of this block is dead
            if not has_ret([st]):
                out.append(st)
                continue
            if isinstance(st, (ast.With, ast.AsyncWith)):
                inner = fold(st.body)
                if inner is None:
                    return None
                new = type(st)(items=st.items, body=inner,
                               type_comment=None)
            elif isinstance(st, ast.If) and not st.orelse and len(
                    st.body) == 1 and isinstance(
                        st.body[0], ast.Return) and (
                    st.body[0].value is None or (isinstance(
                        st.body[0].value, ast.Constant)
                        and st.body[0].value.value is None)):
                # if C: return   ->   done = C   (done is false here, and
                # only its truth value is ever read)
                new = ast.Assign(
                    targets=[ast.Name(id=done, ctx=ast.Store())],
                    value=st.test)
            elif isinstance(st, ast.If):
                a = fold(st.body)
                b = fold(st.orelse) if st.orelse else []
                if a is None or b is None:
                    return None
                new = ast.If(test=st.test, body=a, orelse=b)
            else:
                return None         # loop / try / def
            ast.copy_location(new, st)
            out.append(new)
            rest = fold(stmts[i + 1:])
            if rest is None:
                return None
            if rest:
                g = ast.If(test=not_done(), body=rest, orelse=[])
                ast.copy_location(g, st)
                out.append(g)
            return out
        return out

    res = fold(list(body))
    if res is None:
        return None
    init = [ast.Assign(targets=[ast.Name(id=done, ctx=ast.Store())],
                       value=ast.Constant(False)),
            ast.Assign(targets=[ast.Name(id=ret, ctx=ast.Store())],
                       value=ast.Constant(None))]
    res = init + res
    for x in res:
        ast.fix_missing_locations(x)
    return res


class Helper:
    def __init__(self, q, node, owner):
        self.q = q
        self.node = node
        self.owner = owner
        self.name = node.name
        a = node.args
        self.params = [x.arg for x in a.posonlyargs + a.args] + [
            x.arg for x in a.kwonlyargs]
        pos = a.posonlyargs + a.args
        self.defaults = {}
        for arg, d in zip(pos[len(pos) - len(a.defaults):], a.defaults):
            self.defaults[arg.arg] = d
        for arg, d in zip(a.kwonlyargs, a.kw_defaults):
            if d is not None:
                self.defaults[arg.arg] = d
        self.vararg = a.vararg.arg if a.vararg is not None else None
        self.is_method = owner[0] == "class"
        self.static = False
        from .astutil import live
        self.body = _fold_early_returns(live(_strip_doc(node.body), node))
        self.expr = None       # expression helpers
        self.stmts = None      # statement helpers: (stmts, return expr|None)
        self.gen = False       # generator helper (inlined at consuming sites)
        self.ok = self._classify()
        self.inlined = 0
        self.left = 0

    def _classify(self):
        n = self.node
        a = n.args
        # a cache decorator does not change what a call returns (whether
        # the cache is harmless is MEMO's question, and the definition stays
        # in the module for it to look at)
        self.cached = False
        decos = []
        for d in n.decorator_list:
            name = ast.unparse(d.func if isinstance(d, ast.Call) else d)
            if name.rsplit(".", 1)[-1] in ("lru_cache", "cache"):
                self.cached = True
            elif name == "staticmethod" and self.is_method:
                # called as self.helper(...) without a self parameter: an
                # ordinary function that lives in the class
                self.is_method = False
                self.static = True
            else:
                decos.append(d)
        if decos or a.kwarg or isinstance(n, ast.AsyncFunctionDef):
            return False
        if a.vararg is not None and (a.kwonlyargs or any(
                isinstance(x, ast.Name) and x.id == a.vararg.arg
                and isinstance(x.ctx, (ast.Store, ast.Del))
                for x in ast.walk(n))):
            return False
        if not all(_simple(d) for d in self.defaults.values()):
            return False
        if any(isinstance(x, (ast.Yield, ast.YieldFrom))
               for x in ast.walk(n)):
            return self._classify_generator()
        for x in ast.walk(n):
            if x is n:
                continue
            if isinstance(x, (ast.Yield, ast.YieldFrom, ast.FunctionDef,
                              ast.AsyncFunctionDef, ast.ClassDef,
                              ast.Global, ast.Nonlocal, ast.Await)):
                return False
            if isinstance(x, ast.Call):
                f = x.func
                if isinstance(f, ast.Name) and f.id == n.name:
                    return False
                if isinstance(f, ast.Attribute) and f.attr == n.name and \
                        isinstance(f.value, ast.Name) and f.value.id in (
                            "self", "cls"):
                    return False
        if self.is_method and (not self.params or self.params[0] != "self"):
            return False
        body = self.body
        if not body:
            self.stmts = ([], None)
            return True
        rets = [x for st in body for x in ast.walk(st)
                if isinstance(x, ast.Return)]
        # expression helper:  return EXPR   |   if C: return A [else:]
        # return B
        e = self._as_expr(body)
        if e is not None:
            self.expr = e
        if not rets:
            self.stmts = (body, None)
            return True
        if len(rets) == 1 and body[-1] is rets[0]:
            self.stmts = (body[:-1], rets[0].value)
            return True
        folded = _fold_value_returns(body, f"__ret_{n.name}")
        if folded is not None:
            self.stmts = (folded, ast.Name(id=f"__ret_{n.name}",
                                           ctx=ast.Load()))
            return True
        if self.expr is None:
            folded = _fold_tail_returns(body, f"__ret_{n.name}")
            if folded is not None:
                self.stmts = (folded, ast.Name(id=f"__ret_{n.name}",
                                               ctx=ast.Load()))
                return True
            folded = _fold_returns_with_flag(
                body, f"__ret_{n.name}", f"__done_{n.name}")
            if folded is not None:
                self.stmts = (folded, ast.Name(id=f"__ret_{n.name}",
                                               ctx=ast.Load()))
                return True
        return self.expr is not None

    def _classify_generator(self):
        n = self.node
        stmt_yields = set()
        for x in ast.walk(n):
            if isinstance(x, ast.Expr) and isinstance(x.value, ast.Yield) \
                    and x.value.value is not None:
                stmt_yields.add(id(x.value))
        for x in ast.walk(n):
            if x is n:
                continue
            if isinstance(x, (ast.YieldFrom, ast.FunctionDef, ast.Lambda,
                              ast.AsyncFunctionDef, ast.ClassDef, ast.Global,
                              ast.Nonlocal, ast.Await, ast.Try, ast.With)):
                return False
            if isinstance(x, ast.Yield) and id(x) not in stmt_yields:
                return False
            if isinstance(x, ast.Call) and isinstance(x.func, ast.Name) and \
                    x.func.id == n.name:
                return False
        if self.is_method and (not self.params or self.params[0] != "self"):
            return False
        # returns: only bare ones, and those were folded into if/else ...
        self.gen_return_is_break = False
        if any(isinstance(x, ast.Return) for st in self.body
               for x in ast.walk(st)):
            # ... or the generator is one loop whose last statement yields:
            # a bare return inside it ends the stream, which for the
            # consumer is leaving that loop
            body = [b for b in self.body]
            if len(body) != 1 or not isinstance(body[0], ast.For) or \
                    body[0].orelse:
                return False
            lp = body[0]
            last = lp.body[-1] if lp.body else None
            if not (isinstance(last, ast.Expr) and isinstance(
                    last.value, ast.Yield)):
                return False
            n_y = sum(1 for x in ast.walk(lp) if isinstance(x, ast.Yield))
            if n_y != 1:
                return False

            def returns_ok(stmts, in_inner_loop):
                for st_ in stmts:
                    if isinstance(st_, ast.Return):
                        if in_inner_loop or not (
                                st_.value is None or (isinstance(
                                    st_.value, ast.Constant)
                                    and st_.value.value is None)):
                            return False
                    elif isinstance(st_, (ast.For, ast.While)):
                        if not returns_ok(st_.body + st_.orelse, True):
                            return False
                    elif isinstance(st_, ast.If):
                        if not returns_ok(st_.body + st_.orelse,
                                          in_inner_loop):
                            return False
                    elif any(isinstance(x, ast.Return)
                             for x in ast.walk(st_)):
                        return False
                return True
            if not returns_ok(lp.body, False):
                return False
            self.gen_return_is_break = True
        self.gen = True
        self.stmts = (self.body, None)
        return True

    def _as_expr(self, body):
        if len(body) == 1 and isinstance(body[0], ast.Return) and \
                body[0].value is not None:
            return body[0].value
        # t = EXPR; ...; return f(t)   ->   f(EXPR)   (temporaries used
        # once, or pure)
        if len(body) >= 2 and isinstance(body[-1], ast.Return) and \
                body[-1].value is not None and all(
                    isinstance(st, ast.Assign) and len(st.targets) == 1
                    and isinstance(st.targets[0], ast.Name)
                    for st in body[:-1]):
            from .canon import _pure_ext
            env = {}
            names = [st.targets[0].id for st in body[:-1]]
            if len(set(names)) == len(names) and not (
                    set(names) & set(self.params)):
                ok = True
                rest_all = [st.value for st in body[:-1]] + [body[-1].value]
                for i, st in enumerate(body[:-1]):
                    nm = st.targets[0].id
                    uses = sum(1 for r in rest_all[i + 1:]
                               for x in ast.walk(r)
                               if isinstance(x, ast.Name) and x.id == nm)
                    val = _SubstNames(env).visit(copy.deepcopy(st.value))
                    if uses > 1 and not _pure_ext(val):
                        ok = False
                        break
                    env[nm] = val
                if ok:
                    return _SubstNames(env).visit(
                        copy.deepcopy(body[-1].value))
        if len(body) >= 1 and isinstance(body[0], ast.If):
            st = body[0]
            if len(st.body) == 1 and isinstance(st.body[0], ast.Return) \
                    and st.body[0].value is not None:
                rest = st.orelse if st.orelse else body[1:]
                if st.orelse and body[1:]:
                    return None
                r = self._as_expr(rest)
                if r is not None:
                    return ast.IfExp(test=st.test, body=st.body[0].value,
                                     orelse=r)
        return None


class _SubstNames(ast.NodeTransformer):
    def __init__(self, env):
        self.env = env

    def visit_Name(self, node):
        if isinstance(node.ctx, ast.Load) and node.id in self.env:
            return copy.deepcopy(self.env[node.id])
        return node


class _Subst(ast.NodeTransformer):
    def __init__(self, mapping, rename):
        self.mapping = mapping    # param -> expr
        self.rename = rename      # local -> new name

    def visit_Name(self, node):
        if node.id in self.mapping and isinstance(node.ctx, ast.Load):
            return copy.deepcopy(self.mapping[node.id])
        if node.id in self.rename:
            node.id = self.rename[node.id]
        return node

    def visit_Lambda(self, node):
        bound = {a.arg for a in node.args.args + node.args.kwonlyargs}
        sub = _Subst({k: v for k, v in self.mapping.items()
                      if k not in bound},
                     {k: v for k, v in self.rename.items() if k not in bound})
        node.body = sub.visit(node.body)
        return node


def _loop_level_jumps(body):
    """break / continue statements that belong to the loop whose body this
    is (not to a nested loop)."""
    out = []

    def rec(stmts):
        for st in stmts:
            if isinstance(st, (ast.Break, ast.Continue)):
                out.append(st)
            elif isinstance(st, (ast.For, ast.While, ast.AsyncFor)):
                rec(st.orelse)
            elif isinstance(st, (ast.FunctionDef, ast.AsyncFunctionDef,
                                 ast.ClassDef)):
                continue
            else:
                for field in ("body", "orelse", "finalbody"):
                    sub = getattr(st, field, None)
                    if isinstance(sub, list):
                        rec(sub)
                if isinstance(st, ast.Try):
                    for hd in st.handlers:
                        rec(hd.body)
    rec(body)
    return out


def _stored_names(nodes):
    out = []
    for n in nodes:
        for x in ast.walk(n):
            if isinstance(x, ast.Name) and isinstance(
                    x.ctx, (ast.Store, ast.Del)) and x.id not in out:
                out.append(x.id)
            elif isinstance(x, ast.ExceptHandler) and x.name and \
                    x.name not in out:
                out.append(x.name)
    return out


def _comp_bound(nodes):
    out = set()
    for n in nodes:
        for x in ast.walk(n):
            if isinstance(x, ast.comprehension):
                for y in ast.walk(x.target):
                    if isinstance(y, ast.Name):
                        out.add(y.id)
    return out


def _all_names(node):
    return {x.id for x in ast.walk(node) if isinstance(x, ast.Name)}


def _module_bindings(tree):
    """names bound at module level -> what they are:
    ('def', node) | ('import', absolute dotted target) | ('other', node)"""
    out = {}
    for st in tree.body:
        if isinstance(st, (ast.FunctionDef, ast.AsyncFunctionDef,
                           ast.ClassDef)):
            out[st.name] = ("def", st)
        elif isinstance(st, ast.Assign):
            for t in st.targets:
                if isinstance(t, ast.Name):
                    out[t.id] = ("other", st)
        elif isinstance(st, ast.AnnAssign) and isinstance(
                st.target, ast.Name):
            out[st.target.id] = ("other", st)
    return out


def _abs(modname, is_pkg, level, name):
    if level == 0:
        return name or ""
    parts = modname.split(".")
    if not is_pkg:
        parts = parts[:-1]
    if level > 1:
        parts = parts[: len(parts) - (level - 1)]
    if name:
        parts = parts + name.split(".")
    return ".".join(parts)


def _imports(tree, modname, is_pkg):
    """local name -> absolute dotted target, for module-level imports"""
    out = {}
    for st in ast.walk(tree):
        if isinstance(st, ast.Import):
            for a in st.names:
                out[a.asname or a.name.split(".")[0]] = (
                    a.name if a.asname else a.name.split(".")[0])
        elif isinstance(st, ast.ImportFrom):
            base = _abs(modname, is_pkg, st.level, st.module)
            for a in st.names:
                out[a.asname or a.name] = f"{base}.{a.name}"
    return out


class Inliner:
    def __init__(self, tree, modname, known, foreign=None, is_pkg=False):
        self.tree = tree
        self.modname = modname
        self.foreign = foreign or {}    # abs module -> ForeignModule
        self.imports = _imports(tree, modname, is_pkg)
        self.bindings = _module_bindings(tree)
        self.added_imports = {}
        self.foreign_helpers = {}
        self.defs = _qualnames(tree, modname)
        self.helpers = {}
        for q, node, owner in self.defs:
            if q in known:
                continue
            h = Helper(q, node, owner)
            self.helpers[id(node)] = h
        # two definitions of one name in one scope (if/else variants): which
        # one a call means is a path question - leave those alone
        seen = {}
        for q, node, owner in self.defs:
            key = (owner[0], id(owner[1]), node.name)
            seen.setdefault(key, []).append(node)
        for nodes in seen.values():
            if len(nodes) > 1:
                for n in nodes:
                    if id(n) in self.helpers:
                        self.helpers[id(n)].ok = False
        self.applied = []
        self.counter = 0

    # ---- which helper does a call in ``fn`` (owner chain) refer to?
    def _resolve(self, call, scope_chain, cls):
        f = call.func
        if isinstance(f, ast.Name):
            # nested helpers of the enclosing functions first
            for fn in reversed(scope_chain):
                for h in self.helpers.values():
                    if h.owner[0] == "func" and h.owner[1] is fn and \
                            h.name == f.id:
                        return h
                # a local rebinding of the name hides module helpers
                if f.id in _stored_names(fn.body) or f.id in {
                        a.arg for a in fn.args.args + fn.args.kwonlyargs}:
                    return None
            for h in self.helpers.values():
                if h.owner[0] == "mod" and h.name == f.id:
                    return h
            return self._foreign(self.imports.get(f.id)) \
                if f.id not in self.bindings else None
        if isinstance(f, ast.Attribute) and isinstance(f.value, ast.Name) \
                and f.value.id in self.imports and \
                f.value.id not in self.bindings and not any(
                    f.value.id in _stored_names(fn.body)
                    for fn in scope_chain):
            # module.helper(...)
            return self._foreign(f"{self.imports[f.value.id]}.{f.attr}")
        if isinstance(f, ast.Attribute) and isinstance(f.value, ast.Name) \
                and f.value.id == "self" and cls is not None:
            for h in self.helpers.values():
                if h.owner[0] == "class" and h.owner[1] is cls and \
                        h.name == f.attr:
                    return h
        # ClassName.helper(...) for a static helper of a class of this
        # module (from a method or from a module-level function)
        if isinstance(f, ast.Attribute) and isinstance(f.value, ast.Name):
            for h in self.helpers.values():
                if h.owner[0] == "class" and getattr(h, "static", False) \
                        and h.owner[1].name == f.value.id and \
                        h.name == f.attr:
                    return h
        return None

    def _foreign(self, target):
        """Helper for a function of another module of the package that the
        reference does not know (``target``: absolute dotted name), when its
        body can be moved here: every global it uses is importable into
        this module under the same name."""
        if not target or "." not in target:
            return None
        if target in self.foreign_helpers:
            return self.foreign_helpers[target]
        mod, _, name = target.rpartition(".")
        fm = self.foreign.get(mod)
        if fm is None or name not in fm["helpers"]:
            return None
        node = copy.deepcopy(fm["helpers"][name])
        h = Helper(target, node, ("foreign", mod))
        need = {}
        if h.ok:
            import builtins as _b
            local = set(h.params) | set(_stored_names(node.body)) | \
                _comp_bound(node.body)
            for n in ast.walk(node):
                if isinstance(n, ast.Name) and isinstance(n.ctx, ast.Load) \
                        and n.id not in local and not hasattr(_b, n.id):
                    g = n.id
                    if g in fm["defs"]:
                        tgt = f"{mod}.{g}"
                    elif g in fm["imports"]:
                        tgt = fm["imports"][g]
                    else:
                        h.ok = False
                        break
                    have = self.imports.get(g)
                    if g in self.bindings or (have is not None
                                              and have != tgt):
                        # the name means something else here
                        h.ok = False
                        break
                    if have is None:
                        need[g] = tgt
        h.needs = need
        self.foreign_helpers[target] = h
        self.helpers[id(node)] = h
        return h

    def _bind(self, h, call):
        """param -> actual expr (None when the call does not fit)"""
        params = h.params[1:] if h.is_method else list(h.params)
        out = {}
        if len(call.args) == 1 and isinstance(call.args[0], ast.Starred) \
                and isinstance(call.args[0].value, ast.Name) and \
                not call.keywords and not h.defaults:
            # f(*seq): parameter i is seq[i] (seq must have exactly that
            # many elements, or the original call fails as well)
            seq = call.args[0].value
            out = {}
            for i, p in enumerate(params):
                out[p] = ast.Subscript(
                    value=ast.Name(id=seq.id, ctx=ast.Load()),
                    slice=ast.Constant(value=i), ctx=ast.Load())
            if h.is_method:
                out[h.params[0]] = ast.Name(id="self", ctx=ast.Load())
            return out
        if any(isinstance(a, ast.Starred) for a in call.args) or any(
                k.arg is None for k in call.keywords):
            return None
        if len(call.args) > len(params) and h.vararg is None:
            return None
        for p, a in zip(params, call.args):
            out[p] = a
        if h.vararg is not None:
            # def f(x, *rest): the surplus positional arguments as a tuple
            out[h.vararg] = ast.Tuple(
                elts=list(call.args[len(params):]), ctx=ast.Load())
        for k in call.keywords:
            if k.arg not in params or k.arg in out:
                return None
            out[k.arg] = k.value
        for p in params:
            if p not in out:
                if p not in h.defaults:
                    return None
                out[p] = h.defaults[p]
        if h.is_method:
            out[h.params[0]] = ast.Name(id="self", ctx=ast.Load())
        return out

    def _instantiate(self, h, call, caller, assign_target=None):
        """(prelude stmts, body stmts, return expr | None) or None"""
        binding = self._bind(h, call)
        if binding is None:
            return None
        stmts, ret = h.stmts if h.stmts is not None else ([], h.expr)
        body_nodes = list(stmts) + ([ret] if ret is not None else [])
        stored = set(_stored_names(body_nodes))
        # x = helper(x, ...) where the helper re-binds its parameter and
        # returns it: the parameter IS x (no copy is needed, and the rules
        # keep seeing the updates on x)
        same_var = set()
        if assign_target is not None and isinstance(ret, ast.Name):
            for p_, a_ in binding.items():
                if p_ == ret.id and isinstance(a_, ast.Name) and \
                        a_.id == assign_target and p_ in stored:
                    same_var.add(p_)
        caller_names = _all_names(caller) | {
            a.arg for a in caller.args.args + caller.args.kwonlyargs}
        prelude = []
        mapping = {}
        rename = {}
        for p, a in binding.items():
            if p in same_var:
                rename[p] = a.id
                continue
            if _simple(a) and p not in stored:
                mapping[p] = a
            else:
                self.counter += 1
                fresh = p if p not in caller_names else f"{p}__{h.name}"
                while fresh in caller_names and fresh != p:
                    fresh += "_"
                asg = ast.Assign(
                    targets=[ast.Name(id=fresh, ctx=ast.Store())],
                    value=copy.deepcopy(a))
                ast.copy_location(asg, call)
                prelude.append(asg)
                rename[p] = fresh
                caller_names.add(fresh)
        for loc in stored | _comp_bound(body_nodes):
            if loc in binding:
                continue
            if loc in caller_names and not loc.endswith(f"__{h.name}"):
                # deterministic: every inlined copy of the helper shares the
                # renamed local, as the copies shared it before extraction
                rename[loc] = f"{loc}__{h.name}"
        sub = _Subst(mapping, rename)
        new_body = []
        for s in stmts:
            s2 = sub.visit(copy.deepcopy(s))
            for x in ast.walk(s2):
                if hasattr(x, "lineno"):
                    x.lineno = call.lineno
                    x.end_lineno = getattr(call, "end_lineno", call.lineno)
            new_body.append(s2)
        new_ret = None
        if ret is not None:
            new_ret = sub.visit(copy.deepcopy(ret))
            for x in ast.walk(new_ret):
                if hasattr(x, "lineno"):
                    x.lineno = call.lineno
                    x.end_lineno = getattr(call, "end_lineno", call.lineno)
        return prelude, new_body, new_ret

    def _instantiate_expr(self, h, call, caller):
        if h.expr is None:
            return None
        binding = self._bind(h, call)
        if binding is None:
            return None
        uses = {}
        for x in ast.walk(h.expr):
            if isinstance(x, ast.Name):
                uses[x.id] = uses.get(x.id, 0) + 1
        for p, a in binding.items():
            if not _simple(a) and uses.get(p, 0) > 1:
                return None
        caller_names = _all_names(caller)
        rename = {}
        for loc in _comp_bound([h.expr]):
            if loc in caller_names and loc not in binding:
                rename[loc] = f"{loc}__{h.name}"
        e = _Subst(dict(binding), rename).visit(copy.deepcopy(h.expr))
        for x in ast.walk(e):
            if hasattr(x, "lineno"):
                x.lineno = call.lineno
                x.end_lineno = getattr(call, "end_lineno", call.lineno)
        return e

    # ---- rewriting one function body
    def _rewrite_block(self, body, chain, cls):
        caller = chain[-1]
        out = []
        for st in body:
            # recurse into compound statements first
            for field in ("body", "orelse", "finalbody"):
                sub = getattr(st, field, None)
                if isinstance(sub, list) and sub and isinstance(
                        sub[0], ast.stmt) and not isinstance(
                            st, (ast.FunctionDef, ast.AsyncFunctionDef,
                                 ast.ClassDef)):
                    setattr(st, field, self._rewrite_block(sub, chain, cls))
            if isinstance(st, ast.Try):
                for hd in st.handlers:
                    hd.body = self._rewrite_block(hd.body, chain, cls)
            if isinstance(st, ast.Match) if hasattr(ast, "Match") else False:
                for c in st.cases:
                    c.body = self._rewrite_block(c.body, chain, cls)
            g = self._generator_site(st, chain, cls)
            if g is not None:
                out.extend(g)
                continue
            hoisted = self._hoist_nested(st, chain, cls)
            if hoisted is not None:
                out.extend(self._rewrite_block(hoisted, chain, cls)
                           if self._depth_ok() else hoisted)
                continue
            call = None
            kind = None
            if isinstance(st, ast.Expr) and isinstance(st.value, ast.Call):
                call, kind = st.value, "expr"
            elif isinstance(st, (ast.Assign, ast.AnnAssign)) and isinstance(
                    st.value, ast.Call):
                call, kind = st.value, "assign"
            elif isinstance(st, ast.Return) and isinstance(
                    st.value, ast.Call):
                call, kind = st.value, "return"
            done = False
            if call is not None:
                h = self._resolve(call, chain, cls)
                if h is not None and h.ok and h.stmts is not None and \
                        not h.gen and h.node is not caller:
                    tgt = None
                    if kind == "assign" and isinstance(
                            st, ast.Assign) and len(st.targets) == 1 and \
                            isinstance(st.targets[0], ast.Name):
                        tgt = st.targets[0].id
                    inst = self._instantiate(h, call, caller,
                                             assign_target=tgt)
                    if inst is not None:
                        prelude, nb, ret = inst
                        # arguments of the call may contain helper calls
                        new = list(prelude) + nb
                        if kind == "expr":
                            if ret is not None and not isinstance(
                                    ret, ast.Constant):
                                e = ast.Expr(value=ret)
                                ast.copy_location(e, st)
                                new.append(e)
                        elif kind == "assign":
                            st.value = ret if ret is not None else \
                                ast.Constant(value=None)
                            if not (tgt is not None and isinstance(
                                    ret, ast.Name) and ret.id == tgt):
                                new.append(st)      # (not  x = x)
                        else:
                            st.value = ret
                            new.append(st)
                        if not new:
                            p = ast.Pass()
                            ast.copy_location(p, st)
                            new = [p]
                        h.inlined += 1
                        self._note_imports(h)
                        self.applied.append((h.q, getattr(
                            caller, "name", "?"), call.lineno))
                        # the inlined statements may call helpers again
                        out.extend(self._rewrite_block(new, chain, cls)
                                   if self._depth_ok() else new)
                        done = True
            if not done:
                self._rewrite_exprs(st, chain, cls)
                out.append(st)
        return out

    def _note_imports(self, h):
        for g, tgt in getattr(h, "needs", {}).items():
            self.added_imports[g] = tgt
            self.imports[g] = tgt

    # ---- statement helpers called inside an expression
    def _hoist_nested(self, st, chain, cls):
        """``x = f(helper(a))``  ->  ``t = helper(a); x = f(t)`` when the
        helper is a statement helper (cannot be substituted as an
        expression) and nothing with an effect is evaluated before it in the
        statement.  Returns the two statements, else None."""
        if not isinstance(st, (ast.Assign, ast.AugAssign, ast.AnnAssign,
                               ast.Expr, ast.Return)) or \
                getattr(st, "value", None) is None:
            return None
        caller = chain[-1]
        root = st.value
        if isinstance(root, ast.Call):
            h0 = self._resolve(root, chain, cls)
            if h0 is not None and h0.ok and h0.stmts is not None:
                return None       # handled as a whole-statement call
        parents = {}
        for n in ast.walk(root):
            for c in ast.iter_child_nodes(n):
                parents[id(c)] = n
        cands = []
        for n in ast.walk(root):
            if isinstance(n, ast.Call):
                h = self._resolve(n, chain, cls)
                if h is not None and h.ok and not h.gen and \
                        h.stmts is not None and h.expr is None and \
                        h.node is not caller:
                    cands.append((n, h))
        if len(cands) != 1:
            return None
        call, h = cands[0]
        if self._bind(h, call) is None:
            return None
        anc = set()
        cur = call
        while id(cur) in parents:
            par = parents[id(cur)]
            if isinstance(par, (ast.Lambda, ast.ListComp, ast.SetComp,
                                ast.DictComp, ast.GeneratorExp, ast.IfExp,
                                ast.NamedExpr, ast.Await, ast.Yield,
                                ast.YieldFrom)):
                return None
            if isinstance(par, ast.BoolOp) and par.values[0] is not cur:
                return None
            anc.add(id(par))
            cur = par
        inside_call = {id(x) for x in ast.walk(call)}
        for n in ast.walk(root):
            if isinstance(n, (ast.Call, ast.Yield, ast.YieldFrom, ast.Await,
                              ast.NamedExpr)) and id(n) not in anc and \
                    id(n) not in inside_call:
                return None
        if isinstance(st, ast.AugAssign) and not isinstance(
                st.target, ast.Name):
            return None
        names = _all_names(caller)
        tmp = f"__{h.name.lstrip('_')}_value"
        while tmp in names:
            tmp += "_"
        asg = ast.Assign(targets=[ast.Name(id=tmp, ctx=ast.Store())],
                         value=call)
        ast.copy_location(asg, st)

        class R(ast.NodeTransformer):
            def visit_Call(self, node):
                if node is call:
                    return ast.copy_location(
                        ast.Name(id=tmp, ctx=ast.Load()), node)
                return self.generic_visit(node)
        st.value = R().visit(st.value)
        ast.fix_missing_locations(asg)
        ast.fix_missing_locations(st)
        return [asg, st]

    # ---- generator helpers
    def _gen_helper(self, e, chain, cls):
        if not isinstance(e, ast.Call):
            return None
        h = self._resolve(e, chain, cls)
        if h is not None and h.ok and h.gen and h.node is not chain[-1]:
            return h
        return None

    def _generator_site(self, st, chain, cls):
        """Replacement statements for a statement that consumes the whole
        stream of a generator helper, else None."""
        caller = chain[-1]
        call = None
        emit = None     # yield value expr -> [stmts]
        pre, post = [], []

        def loc(n):
            return ast.copy_location(n, st)

        def mentions(nodes, name):
            return any(isinstance(x, ast.Name) and x.id == name
                       for nd in nodes for x in ast.walk(nd))

        if isinstance(st, ast.For) and not st.orelse and \
                self._gen_helper(st.iter, chain, cls):
            lvl = _loop_level_jumps(st.body)
            if lvl:
                return None
            if any(isinstance(x, (ast.Yield, ast.YieldFrom, ast.Return))
                   for b in st.body for x in ast.walk(b)) and False:
                return None
            call = st.iter
            body, target = st.body, st.target

            def emit(v):
                a = loc(ast.Assign(targets=[copy.deepcopy(target)], value=v))
                return [a] + [copy.deepcopy(b) for b in body]
        elif isinstance(st, ast.Expr) and isinstance(st.value, ast.Call) \
                and isinstance(st.value.func, ast.Attribute) \
                and st.value.func.attr in ("update", "extend") \
                and len(st.value.args) == 1 and not st.value.keywords \
                and _simple(st.value.func.value) \
                and self._gen_helper(st.value.args[0], chain, cls):
            call = st.value.args[0]
            recv = st.value.func.value
            meth = "add" if st.value.func.attr == "update" else "append"

            def emit(v):
                return [loc(ast.Expr(value=ast.Call(
                    func=ast.Attribute(value=copy.deepcopy(recv), attr=meth,
                                       ctx=ast.Load()),
                    args=[v], keywords=[])))]
        elif isinstance(st, ast.Expr) and isinstance(
                st.value, ast.YieldFrom) and self._gen_helper(
                    st.value.value, chain, cls):
            call = st.value.value

            def emit(v):
                return [loc(ast.Expr(value=ast.Yield(value=v)))]
        elif isinstance(st, ast.Assign) and len(st.targets) == 1 and \
                isinstance(st.targets[0], ast.Name) and isinstance(
                    st.value, ast.Call) and isinstance(
                        st.value.func, ast.Name) and st.value.func.id in (
                            "list", "set") and len(st.value.args) == 1 \
                and not st.value.keywords and self._gen_helper(
                    st.value.args[0], chain, cls):
            call = st.value.args[0]
            nm = st.targets[0].id
            if mentions([call], nm):
                return None
            kind = st.value.func.id
            meth = "append" if kind == "list" else "add"
            pre = [loc(ast.Assign(
                targets=[ast.Name(id=nm, ctx=ast.Store())],
                value=(ast.List(elts=[], ctx=ast.Load()) if kind == "list"
                       else ast.Call(func=ast.Name(id="set", ctx=ast.Load()),
                                     args=[], keywords=[]))))]

            def emit(v):
                return [loc(ast.Expr(value=ast.Call(
                    func=ast.Attribute(value=ast.Name(id=nm, ctx=ast.Load()),
                                       attr=meth, ctx=ast.Load()),
                    args=[v], keywords=[])))]
        if call is None:
            return None
        h = self._gen_helper(call, chain, cls)
        n_y = sum(1 for x in ast.walk(h.node) if isinstance(x, ast.Yield))
        if isinstance(st, ast.For) and n_y > 1 and len(st.body) > 6:
            return None
        inst = self._instantiate(h, call, caller)
        if inst is None:
            return None
        prelude, nb, _ret = inst

        ret_break = getattr(h, "gen_return_is_break", False)

        class Y(ast.NodeTransformer):
            def visit_Expr(self, node):
                if isinstance(node.value, ast.Yield):
                    return emit(node.value.value)
                return node

            def visit_Return(self, node):
                if ret_break:
                    return ast.copy_location(ast.Break(), node)
                return node

            def visit_FunctionDef(self, node):
                return node
        new = []
        for b in nb:
            r = Y().visit(b)
            new.extend(r if isinstance(r, list) else [r])
        # the helper body must not touch the receiver it feeds (the stream
        # was lazy: interleaving would differ) - conservative name test
        if isinstance(st, ast.Expr) and isinstance(st.value, ast.Call):
            root = st.value.func.value
            while isinstance(root, (ast.Attribute, ast.Subscript)):
                root = root.value
            if isinstance(root, ast.Name) and root.id != "self" and \
                    mentions(h.node.body, root.id) and root.id not in \
                    h.params:
                return None
        h.inlined += 1
        self.applied.append((h.q, getattr(caller, "name", "?"), st.lineno))
        res = pre + list(prelude) + new + post
        for x in res:
            ast.fix_missing_locations(x)
        return self._rewrite_block(res, chain, cls) if self._depth_ok() \
            else res

    _depth = 0

    def _depth_ok(self):
        self._depth += 1
        return self._depth < 200

    def _rewrite_exprs(self, st, chain, cls):
        """Replace calls of expression helpers nested in the expressions of
        one statement (not descending into nested statement lists, which
        were handled already, nor into nested definitions)."""
        caller = chain[-1]
        me = self

        class T(ast.NodeTransformer):
            def visit_Call(self, node):
                self.generic_visit(node)
                h = me._resolve(node, chain, cls)
                if h is not None and h.ok and not h.gen and \
                        h.node is not caller:
                    e = me._instantiate_expr(h, node, caller)
                    if e is not None:
                        h.inlined += 1
                        me.applied.append((h.q, getattr(
                            caller, "name", "?"), node.lineno))
                        return e
                    h.left += 1
                return node

            def visit_FunctionDef(self, node):
                return node

            visit_AsyncFunctionDef = visit_FunctionDef
            visit_ClassDef = visit_FunctionDef

            def _as_lambda(self, v):
                """key=_helper  ->  key=lambda x: <body of _helper>"""
                if not (isinstance(v, ast.Name) and isinstance(
                        v.ctx, ast.Load)):
                    return v
                fake = ast.Call(func=v, args=[], keywords=[])
                h = me._resolve(fake, chain, cls)
                if h is None or not h.ok or h.gen or h.expr is None or \
                        h.defaults or h.is_method or h.node is caller:
                    return v
                lam = ast.Lambda(
                    args=ast.arguments(
                        posonlyargs=[], args=[ast.arg(arg=p_) for p_ in
                                              h.params],
                        kwonlyargs=[], kw_defaults=[], defaults=[]),
                    body=copy.deepcopy(h.expr))
                ast.copy_location(lam, v)
                ast.fix_missing_locations(lam)
                h.inlined += 1
                me.applied.append((h.q, getattr(caller, "name", "?"),
                                   v.lineno))
                return lam

            def visit_Call(self, node):  # noqa: F811
                self.generic_visit(node)
                node.args = [self._as_lambda(a) for a in node.args]
                for k in node.keywords:
                    k.value = self._as_lambda(k.value)
                h = me._resolve(node, chain, cls)
                if h is not None and h.ok and not h.gen and \
                        h.node is not caller:
                    e = me._instantiate_expr(h, node, caller)
                    if e is not None:
                        h.inlined += 1
                        me._note_imports(h)
                        me.applied.append((h.q, getattr(
                            caller, "name", "?"), node.lineno))
                        return e
                    h.left += 1
                return node

        t = T()
        for field, val in ast.iter_fields(st):
            if field in ("body", "orelse", "finalbody", "handlers", "cases"):
                continue
            if isinstance(val, ast.AST):
                setattr(st, field, t.visit(val))
            elif isinstance(val, list):
                setattr(st, field, [t.visit(v) if isinstance(v, ast.AST)
                                    else v for v in val])

    def run(self):
        if not any(h.ok for h in self.helpers.values()) and not any(
                fm["helpers"] for fm in self.foreign.values()):
            return []
        # callers: every function of the module, innermost handled with its
        # chain of enclosing functions
        def visit(body, chain, cls):
            for st in body:
                if isinstance(st, (ast.FunctionDef, ast.AsyncFunctionDef)):
                    ch = chain + [st]
                    visit(st.body, ch, cls)
                    st.body = self._rewrite_block(st.body, ch, cls)
                elif isinstance(st, ast.ClassDef):
                    visit(st.body, [], st)
                else:
                    for field in ("body", "orelse", "finalbody"):
                        sub = getattr(st, field, None)
                        if isinstance(sub, list) and sub and isinstance(
                                sub[0], ast.stmt):
                            visit(sub, chain, cls)
                    if isinstance(st, ast.Try):
                        for hd in st.handlers:
                            visit(hd.body, chain, cls)

        # two rounds: helpers calling helpers
        for _ in range(3):
            before = len(self.applied)
            visit(self.tree.body, [], None)
            if len(self.applied) == before:
                break
        self._remove_dead()
        # globals of inlined foreign helpers become imports of this module
        new = []
        for g, tgt in sorted(self.added_imports.items()):
            mod, _, name = tgt.rpartition(".")
            if mod:
                new.append(ast.ImportFrom(
                    module=mod, names=[ast.alias(
                        name=name, asname=None if name == g else g)],
                    level=0))
            else:
                new.append(ast.Import(names=[ast.alias(
                    name=tgt, asname=None if tgt == g else g)]))
        if new:
            i = 0
            while i < len(self.tree.body) and (
                    (isinstance(self.tree.body[i], ast.Expr) and isinstance(
                        self.tree.body[i].value, ast.Constant))
                    or (isinstance(self.tree.body[i], ast.ImportFrom)
                        and self.tree.body[i].module == "__future__")):
                i += 1
            self.tree.body[i:i] = new
        ast.fix_missing_locations(self.tree)
        return self.applied

    def _remaining_refs(self, h):
        """Is the helper's name still mentioned anywhere outside its own
        definition?"""
        for n in ast.walk(self.tree):
            if n is h.node:
                continue
            if isinstance(n, ast.Name) and n.id == h.name and not any(
                    n is x for x in ast.walk(h.node)):
                return True
            if isinstance(n, ast.Attribute) and n.attr == h.name and not any(
                    n is x for x in ast.walk(h.node)):
                return True
            if isinstance(n, ast.Constant) and n.value == h.name:
                return True     # __all__ and friends
        return False

    def _remove_dead(self):
        for h in self.helpers.values():
            if not h.inlined or h.owner[0] == "foreign":
                continue
            private = h.name.startswith("_") or h.owner[0] == "func"
            if not private or self._remaining_refs(h) or getattr(
                    h, "cached", False):
                continue
            parent_body = None
            if h.owner[0] == "mod":
                holders = [self.tree]
            else:
                holders = [h.owner[1]]
            for holder in holders:
                for n in ast.walk(holder):
                    for field in ("body", "orelse", "finalbody"):
                        lst = getattr(n, field, None)
                        if isinstance(lst, list) and any(
                                x is h.node for x in lst):
                            parent_body = lst
            if parent_body is not None:
                parent_body[:] = [x for x in parent_body if x is not h.node]
                if not parent_body:
                    parent_body.append(ast.Pass())
                h.removed = True


def inline_unknown_helpers(tree, modname, known, foreign=None,
                           is_pkg=False):
    """Inline in place; returns [(helper qualname, caller, line)]."""
    return Inliner(tree, modname, known, foreign=foreign,
                   is_pkg=is_pkg).run()


def foreign_table(sources, known):
    """{module name: {'helpers': {name: FunctionDef}, 'defs': set of
    module-level names, 'imports': {local: absolute target}}} for every
    module of the package, from (module name, is_pkg, parsed tree) triples:
    the module-level functions the reference does not know are candidates
    for being inlined into *other* modules."""
    out = {}
    for modname, is_pkg, tree in sources:
        helpers = {}
        for st in tree.body:
            if isinstance(st, ast.FunctionDef) and \
                    f"{modname}.{st.name}" not in known:
                helpers[st.name] = st
        out[modname] = {"helpers": helpers,
                        "defs": set(_module_bindings(tree)),
                        "imports": _imports(tree, modname, is_pkg)}
    return out


def inline_nested_closures(fnode):
    """For a scratch copy of one function (e.g. a specialised variant in
    which a flag picked one of two nested definitions): inline the calls to
    its own nested helpers, known to the reference or not.  Returns the
    function node (modified in place)."""
    mod = ast.Module(body=[fnode], type_ignores=[])
    inl = Inliner(mod, "_", set())
    for k, h in list(inl.helpers.items()):
        if h.owner[0] != "func":
            del inl.helpers[k]
    inl.run()
    return mod.body[0]
