"""Path variants of a function: one copy per combination of outcomes of the
``if`` statements that bind names or return (those at the top level of the
body and nested directly in each other - ifs inside loops, try or with
blocks are left alone).  In a variant each such ``if`` is replaced by the
evaluation of its test followed by the chosen arm, so reaching definitions
and terms computed on the variant are *correlated*: the labels, count and
direction returned on one path are seen together instead of as independent
phi nodes.  Spelling of the branch (swapped arms, negated test, elif chain
versus nested else, early return) does not matter.
"""

from __future__ import annotations

import ast
import copy


def _binds(st):
    """Does the if bind, store, mutate (a call statement) or return?"""
    for n in ast.walk(st):
        if isinstance(n, (ast.Name, ast.Subscript, ast.Attribute)) and \
                isinstance(n.ctx, (ast.Store, ast.Del)):
            return True
        if isinstance(n, ast.Return):
            return True
        if isinstance(n, ast.Expr) and isinstance(n.value, ast.Call) and \
                not ast.unparse(n.value.func).startswith(("LOGGER.",
                                                          "logging.")):
            return True
    return False


def _alts(stmts):
    """[(choices, terminated)]: ``terminated`` when the path has run into a
    return / raise / continue / break, so later statements do not count."""
    res = [([], False)]
    for st in stmts:
        if isinstance(st, ast.If) and _binds(st):
            a = [([(st, True)] + c, t) for c, t in _alts(st.body)] + \
                [([(st, False)] + c, t) for c, t in _alts(st.orelse)]
            new = []
            for r, done in res:
                if done:
                    new.append((r, True))
                else:
                    new.extend((r + x, t) for x, t in a)
            res = new
            if len(res) > 256:
                raise OverflowError("too many path variants")
        if isinstance(st, (ast.Return, ast.Raise, ast.Continue, ast.Break)):
            res = [(r, True) for r, _d in res]
            break
    return res


def _boolean_locals(fnode):
    """local names every assignment of which is a comparison, a negation, a
    boolean combination of those or a bool literal (so a truthiness test on
    the name tells its exact value)"""
    vals = {}
    for n in ast.walk(fnode):
        if isinstance(n, ast.Assign):
            for tg in n.targets:
                if isinstance(tg, ast.Name):
                    vals.setdefault(tg.id, []).append(n.value)
                elif isinstance(tg, (ast.Tuple, ast.List)):
                    for e in tg.elts:
                        if isinstance(e, ast.Name):
                            vals.setdefault(e.id, []).append(None)
        elif isinstance(n, (ast.AugAssign, ast.AnnAssign)) and isinstance(
                n.target, ast.Name):
            vals.setdefault(n.target.id, []).append(None)
        elif isinstance(n, (ast.For, ast.comprehension)):
            for e in ast.walk(n.target):
                if isinstance(e, ast.Name):
                    vals.setdefault(e.id, []).append(None)
    params = {a.arg for a in fnode.args.args + fnode.args.kwonlyargs} \
        if hasattr(fnode, "args") else set()

    def boolean(v):
        if v is None:
            return False
        if isinstance(v, ast.Compare):
            return all(isinstance(o, (ast.Lt, ast.LtE, ast.Gt, ast.GtE,
                                      ast.Eq, ast.NotEq, ast.Is, ast.IsNot,
                                      ast.In, ast.NotIn)) for o in v.ops) \
                and len(v.ops) == 1 and not _maybe_array(v)
        if isinstance(v, ast.UnaryOp) and isinstance(v.op, ast.Not):
            return True
        if isinstance(v, ast.Constant):
            return isinstance(v.value, bool)
        if isinstance(v, ast.BoolOp):
            return all(boolean(x) for x in v.values)
        return False
    return {k for k, vs in vals.items()
            if k not in params and vs and all(boolean(v) for v in vs)}


def _is_boolean_expr(v):
    if v is None:
        return False
    if isinstance(v, ast.Compare):
        return len(v.ops) == 1 and not _maybe_array(v)
    if isinstance(v, ast.UnaryOp) and isinstance(v.op, ast.Not):
        return True
    if isinstance(v, ast.Constant):
        return isinstance(v.value, bool)
    if isinstance(v, ast.BoolOp):
        return all(_is_boolean_expr(x) for x in v.values)
    return False


def _maybe_array(cmp):
    """a comparison whose operands could be arrays (element-wise result):
    conservative - subscripts, attribute calls and arithmetic on anything
    that is not a plain name / constant / .sum() style reduction"""
    for side in [cmp.left] + list(cmp.comparators):
        if isinstance(side, (ast.Name, ast.Constant)):
            continue
        return True
    return False


class _Pick(ast.NodeTransformer):
    def __init__(self, choice, bool_names=frozenset()):
        self.choice = choice
        self.conds = []
        self.bool_names = bool_names
        self.last = {}      # name -> value of its latest plain assignment
                            # on the path being built (None: unknown)

    def visit_Assign(self, node):
        for tg in node.targets:
            if isinstance(tg, ast.Name):
                self.last[tg.id] = node.value
            else:
                for e in ast.walk(tg):
                    if isinstance(e, ast.Name) and isinstance(
                            e.ctx, ast.Store):
                        self.last[e.id] = None
        return node

    def visit_AugAssign(self, node):
        if isinstance(node.target, ast.Name):
            self.last[node.target.id] = None
        return node

    def visit_For(self, node):
        for e in ast.walk(getattr(node, "target", None) or ast.Pass()):
            if isinstance(e, ast.Name):
                self.last[e.id] = None
        # names stored in the body are unknown afterwards (and inside)
        for n in ast.walk(node):
            if isinstance(n, ast.Name) and isinstance(n.ctx, ast.Store):
                self.last[n.id] = None
        self.generic_visit(node)
        return node

    visit_While = visit_For

    def visit_If(self, node):
        tag = getattr(node, "_pv_tag", None)
        if tag not in self.choice:
            return node
        outcome = self.choice[tag]
        ev = ast.Expr(value=node.test)
        ast.copy_location(ev, node)
        self.conds.append((node.test, outcome))
        arm = node.body if outcome else node.orelse
        out = [ev]
        # branch refinement: inside the arm of  if flag: / if not flag:
        # a boolean-valued local flag has the value the test found
        t, val = node.test, outcome
        while isinstance(t, ast.UnaryOp) and isinstance(t.op, ast.Not):
            t, val = t.operand, not val
        if isinstance(t, ast.Name) and (
                t.id in self.bool_names
                or _is_boolean_expr(self.last.get(t.id))):
            asg = ast.Assign(targets=[ast.Name(id=t.id, ctx=ast.Store())],
                             value=ast.Constant(value=bool(val)))
            ast.copy_location(asg, node)
            ast.fix_missing_locations(asg)
            out.append(asg)
        for s in arm:
            r = self.visit(s)
            out.extend(r if isinstance(r, list) else [r])
        return out

    def visit_FunctionDef(self, node):
        if getattr(node, "_pv_root", False):
            self.generic_visit(node)
        return node

    visit_AsyncFunctionDef = visit_FunctionDef

    def visit_Lambda(self, node):
        return node


class Variant:
    def __init__(self, fnode, conds):
        self.fnode = fnode
        self.conds = conds      # [(test expr inside fnode, outcome)]


def path_variants(fnode, within=None):
    """List of Variant objects; [Variant(fnode, [])] when nothing splits.
    With ``within`` (a loop / with statement of fnode) the ifs of that
    statement's body are split instead of those of the function body."""
    tagged = []
    for i, st in enumerate(n for n in ast.walk(fnode)
                           if isinstance(n, ast.If)):
        st._pv_tag = i
        tagged.append(st)
    fnode._pv_root = True
    try:
        out = []
        for choice, _done in _alts(fnode.body if within is None
                                   else within.body):
            ch = {st._pv_tag: o for st, o in choice}
            cp = copy.deepcopy(fnode)
            p = _Pick(ch, _boolean_locals(fnode))
            cp = p.visit(cp)
            # unreachable tail after a return / raise stays; DefUse handles it
            ast.fix_missing_locations(cp)
            out.append(Variant(cp, p.conds))
        return out
    finally:
        for st in tagged:
            del st._pv_tag
        del fnode._pv_root


class Case:
    """One path of a callee: conditions and returned term, both in the
    callee's parameter space, plus the def-use / term objects of that path
    (to resolve loop-carried variables)."""

    def __init__(self, conds, term, du, T, fnode):
        self.conds = conds
        self.term = term
        self.du = du
        self.T = T
        self.fnode = fnode


def return_cases(prog, func, phi_vars=True):
    from .defuse import DefUse, Terms
    out = []
    for v in path_variants(func.node):
        du = DefUse(prog, func, fnode=v.fnode)
        T = Terms(du, phi_vars=phi_vars)
        conds = []
        for test, outcome in v.conds:
            t = T.of(test)
            while t[0] == "un" and t[1] == "not":
                t, outcome = t[2], not outcome
            conds.append((t, outcome))
        for _r, t in T.returns():
            out.append(Case(conds, t, du, T, v.fnode))
    return out


def var_leaves(du, T, t, _seen=None):
    """Alternatives a term may denote: phi alternatives, and for a
    loop-carried ('var', name, uids) the terms of its (non-mutation)
    definitions, recursively."""
    seen = _seen if _seen is not None else set()
    if t[0] == "phi":
        out = []
        for x in t[1]:
            out.extend(var_leaves(du, T, x, seen))
        return out
    if t[0] == "var":
        out = []
        for d in du.defs:
            if d.name == t[1] and d.uid in t[2] and d.uid not in seen and \
                    d.kind not in ("mut", "store", "augstore", "delitem"):
                seen.add(d.uid)
                out.extend(var_leaves(du, T, T.of_def(d), seen))
        return out
    return [t]
