"""Program model: loader, symbols, call resolution.

Pure stdlib.  Nothing in here imports or executes code of the analysed
repository; everything is derived from ``ast.parse`` of the working tree.
"""

from __future__ import annotations

import ast
import os
from pathlib import Path

REPO = Path(os.environ.get("MOKAPOT_REPO", "/repo"))
PKG = "mokapot"


_REF = None


class AnalysisError(Exception):
    """The analysis cannot decide (anchor missing, idiom not recognised...).

    Always exit code 2, never a VIOLATION and never a silent pass.
    """


class Module:
    def __init__(self, name: str, path: Path, src: str, foreign=None):
        self.name = name
        self.path = path
        self.src = src
        self.lines = src.splitlines()
        self.tree = ast.parse(src, filename=str(path))
        self.renamed = []
        self.canon = {}
        self.inlined = []
        global _REF
        if _REF is None and not (os.environ.get("MOKAPOT_NO_REFNAMES")
                                 and os.environ.get("MOKAPOT_NO_INLINE")):
            from .refnames import load_ref
            _REF = load_ref()
        if not os.environ.get("MOKAPOT_NO_INLINE") and _REF:
            from .inline import inline_unknown_helpers
            self.inlined = inline_unknown_helpers(
                self.tree, name, _REF, foreign=foreign,
                is_pkg=path.name == "__init__.py")
        if not os.environ.get("MOKAPOT_NO_CANON"):
            from .canon import canonicalise
            self.canon = canonicalise(self.tree)
        if not os.environ.get("MOKAPOT_NO_REFNAMES"):
            from .refnames import normalise_module
            self.renamed = normalise_module(self.tree, name, _REF)
        self.imports: dict[str, str] = {}
        self.assigns: dict[str, ast.AST] = {}
        self.is_pkg = path.name == "__init__.py"

    @property
    def relpath(self) -> str:
        try:
            return str(self.path.relative_to(REPO))
        except ValueError:
            return str(self.path)


class Func:
    def __init__(self, qual, node, module, cls=None, parent=None):
        self.qual = qual
        self.node = node
        self.module = module
        self.cls = cls  # Class or None
        self.parent = parent  # enclosing Func or None
        self.nested: dict[str, "Func"] = {}

    @property
    def name(self):
        return self.qual.rsplit(".", 1)[-1]

    @property
    def params(self) -> list[str]:
        a = self.node.args
        names = [x.arg for x in a.posonlyargs + a.args]
        if a.vararg:
            names.append("*" + a.vararg.arg)
        names += [x.arg for x in a.kwonlyargs]
        if a.kwarg:
            names.append("**" + a.kwarg.arg)
        return names

    def defaults(self) -> dict[str, ast.AST]:
        a = self.node.args
        pos = a.posonlyargs + a.args
        out = {}
        for arg, d in zip(pos[len(pos) - len(a.defaults):], a.defaults):
            out[arg.arg] = d
        for arg, d in zip(a.kwonlyargs, a.kw_defaults):
            if d is not None:
                out[arg.arg] = d
        return out

    @property
    def decorators(self) -> list[str]:
        if isinstance(self.node, ast.Lambda):
            return []
        return [ast.unparse(d) for d in self.node.decorator_list]

    def loc(self, node=None) -> str:
        n = node if node is not None else self.node
        return f"{self.module.relpath}:{getattr(n, 'lineno', '?')}"

    def __repr__(self):
        return f"<Func {self.qual}>"


class Class:
    def __init__(self, qual, node, module):
        self.qual = qual
        self.node = node
        self.module = module
        self.methods: dict[str, Func] = {}
        self.bases: list[str] = []  # resolved qualified (repo) or raw text

    @property
    def name(self):
        return self.qual.rsplit(".", 1)[-1]


class Program:
    def __init__(self, root: Path | None = None):
        self.root = Path(root) if root else REPO
        self.modules: dict[str, Module] = {}
        self.funcs: dict[str, Func] = {}
        self.classes: dict[str, Class] = {}
        self.stats = {
            "modules": 0,
            "functions": 0,
            "lambdas": 0,
            "classes": 0,
            "call_sites": 0,
            "calls_internal": 0,
            "calls_external": 0,
            "calls_cha": 0,
            "calls_unresolved": 0,
            "loc": 0,
        }
        self._load()

    # ------------------------------------------------------------------ load
    def _load(self):
        pkgdir = self.root / PKG
        if not pkgdir.is_dir():
            raise AnalysisError(f"package directory {pkgdir} not found")
        files = []
        for path in sorted(pkgdir.rglob("*.py")):
            rel = path.relative_to(self.root).with_suffix("")
            parts = list(rel.parts)
            if parts[-1] == "__init__":
                parts = parts[:-1]
            files.append((".".join(parts), path))
        # helpers that moved to another module of the package are inlined
        # across modules: first pass collects the candidates
        foreign = None
        if not os.environ.get("MOKAPOT_NO_INLINE"):
            try:
                from .inline import foreign_table
                from .refnames import load_ref
                srcs = []
                for name, path in files:
                    srcs.append((name, path.name == "__init__.py",
                                 ast.parse(path.read_text())))
                foreign = foreign_table(srcs, load_ref() or {})
            except SyntaxError:
                foreign = None
        for name, path in files:
            try:
                src = path.read_text()
                mod = Module(name, path, src, foreign=foreign)
            except SyntaxError as e:
                raise AnalysisError(f"cannot parse {path}: {e}")
            self.modules[name] = mod
            self.stats["loc"] += len(mod.lines)
        self.stats["modules"] = len(self.modules)
        self.stats["functions_alpha_normalised"] = sum(
            len(m.renamed) for m in self.modules.values())
        self.stats["helper_calls_inlined"] = sum(
            len(m.inlined) for m in self.modules.values())
        tot = {}
        for m in self.modules.values():
            for k, v in m.canon.items():
                tot[k] = tot.get(k, 0) + v
        self.stats["canonicalisations"] = tot
        for mod in self.modules.values():
            self._index_imports(mod)
        for mod in self.modules.values():
            self._index_defs(mod)
        for cls in self.classes.values():
            cls.bases = [
                self._resolve_base(cls, b) for b in cls.node.bases
            ]
        self.stats["functions"] = sum(
            1 for f in self.funcs.values()
            if not isinstance(f.node, ast.Lambda)
        )
        self.stats["lambdas"] = sum(
            1 for f in self.funcs.values() if isinstance(f.node, ast.Lambda)
        )
        self.stats["classes"] = len(self.classes)

    def _abs_module(self, mod: Module, level: int, name: str | None) -> str:
        if level == 0:
            return name or ""
        parts = mod.name.split(".")
        if not mod.is_pkg:
            parts = parts[:-1]
        if level > 1:
            parts = parts[: len(parts) - (level - 1)]
        if name:
            parts = parts + name.split(".")
        return ".".join(parts)

    def _index_imports(self, mod: Module):
        for node in ast.walk(mod.tree):
            if isinstance(node, ast.Import):
                for a in node.names:
                    local = a.asname or a.name.split(".")[0]
                    target = a.name if a.asname else a.name.split(".")[0]
                    mod.imports.setdefault(local, target)
            elif isinstance(node, ast.ImportFrom):
                base = self._abs_module(mod, node.level, node.module)
                for a in node.names:
                    local = a.asname or a.name
                    mod.imports.setdefault(local, f"{base}.{a.name}")

    def _index_defs(self, mod: Module):
        def visit_body(body, prefix, cls=None, parent=None):
            for st in body:
                if isinstance(st, (ast.FunctionDef, ast.AsyncFunctionDef)):
                    q = f"{prefix}.{st.name}"
                    f = Func(q, st, mod, cls=cls, parent=parent)
                    self.funcs[q] = f
                    if cls is not None and parent is None:
                        cls.methods[st.name] = f
                    if parent is not None:
                        parent.nested[st.name] = f
                    visit_nested(st, q, cls, f)
                elif isinstance(st, ast.ClassDef):
                    q = f"{prefix}.{st.name}"
                    c = Class(q, st, mod)
                    self.classes[q] = c
                    visit_body(st.body, q, cls=c, parent=None)
                elif isinstance(st, (ast.If, ast.Try, ast.With)):
                    # definitions under a conditional at module level
                    for sub in ast.iter_child_nodes(st):
                        if isinstance(sub, ast.stmt):
                            visit_body([sub], prefix, cls, parent)
                    for h in getattr(st, "handlers", []):
                        visit_body(h.body, prefix, cls, parent)

        def visit_nested(fnode, q, cls, f):
            # nested function definitions anywhere inside the body
            for node in ast.walk(fnode):
                if node is fnode:
                    continue
                if isinstance(node, (ast.FunctionDef, ast.AsyncFunctionDef)):
                    # only direct nesting level: check that the closest
                    # enclosing function is fnode
                    if _enclosing_func(fnode, node) is fnode:
                        nq = f"{q}.{node.name}"
                        nf = Func(nq, node, mod, cls=cls, parent=f)
                        self.funcs[nq] = nf
                        f.nested[node.name] = nf
                        visit_nested(node, nq, cls, nf)

        visit_body(mod.tree.body, mod.name)
        # module-level assignments (registries, constants)
        for st in mod.tree.body:
            if isinstance(st, ast.Assign):
                for t in st.targets:
                    if isinstance(t, ast.Name):
                        mod.assigns[t.id] = st.value
            elif isinstance(st, ast.AnnAssign) and st.value is not None:
                if isinstance(st.target, ast.Name):
                    mod.assigns[st.target.id] = st.value
        # registry lambdas:  NAME = {"key": lambda ...}
        for name, val in mod.assigns.items():
            if isinstance(val, ast.Dict):
                for k, v in zip(val.keys, val.values):
                    if isinstance(v, ast.Lambda) and isinstance(
                        k, ast.Constant
                    ):
                        q = f"{mod.name}.{name}[{k.value!r}]"
                        self.funcs[q] = Func(q, v, mod)

    def _resolve_base(self, cls: Class, b: ast.AST) -> str:
        txt = ast.unparse(b)
        if isinstance(b, ast.Name):
            t = self.resolve_global(cls.module, b.id)
            if t:
                return t
        return txt

    # -------------------------------------------------------------- lookups
    def func(self, qual: str) -> Func:
        if not qual.startswith(PKG + "."):
            qual = f"{PKG}.{qual}"
        f = self.funcs.get(qual)
        if f is None:
            raise AnalysisError(f"anchor function {qual} not found")
        return f

    def has_func(self, qual: str) -> bool:
        if not qual.startswith(PKG + "."):
            qual = f"{PKG}.{qual}"
        return qual in self.funcs

    def cls(self, qual: str) -> Class:
        if not qual.startswith(PKG + "."):
            qual = f"{PKG}.{qual}"
        c = self.classes.get(qual)
        if c is None:
            raise AnalysisError(f"anchor class {qual} not found")
        return c

    def module(self, name: str) -> Module:
        if not name.startswith(PKG):
            name = f"{PKG}.{name}"
        m = self.modules.get(name)
        if m is None:
            raise AnalysisError(f"anchor module {name} not found")
        return m

    def resolve_global(self, mod: Module, name: str) -> str | None:
        """Qualified name a module-level identifier refers to."""
        q = f"{mod.name}.{name}"
        if q in self.funcs or q in self.classes:
            return q
        if name in mod.assigns:
            return q
        if name in mod.imports:
            return self.canonical(mod.imports[name])
        return None

    def canonical(self, dotted: str, _depth=0) -> str:
        """Follow re-exports inside the repo (``mokapot.brew`` etc.)."""
        if _depth > 5:
            return dotted
        if dotted in self.funcs or dotted in self.classes:
            return dotted
        if dotted in self.modules:
            return dotted
        if "." in dotted:
            head, last = dotted.rsplit(".", 1)
            m = self.modules.get(head)
            if m is not None:
                if last in m.imports:
                    return self.canonical(m.imports[last], _depth + 1)
                if last in m.assigns:
                    return dotted
        return dotted

    def is_internal(self, q: str) -> bool:
        return q.startswith(PKG + ".") or q == PKG

    def mro_method(self, cls: Class, name: str, _seen=None) -> Func | None:
        _seen = _seen or set()
        if cls.qual in _seen:
            return None
        _seen.add(cls.qual)
        if name in cls.methods:
            return cls.methods[name]
        for b in cls.bases:
            bc = self.classes.get(b)
            if bc is not None:
                m = self.mro_method(bc, name, _seen)
                if m is not None:
                    return m
        return None

    def subclasses(self, qual: str) -> list[Class]:
        out = []
        for c in self.classes.values():
            seen = set()
            stack = list(c.bases)
            while stack:
                b = stack.pop()
                if b in seen:
                    continue
                seen.add(b)
                if b == qual:
                    out.append(c)
                    break
                bc = self.classes.get(b)
                if bc:
                    stack.extend(bc.bases)
        return out

    def methods_named(self, name: str) -> list[Func]:
        return [
            c.methods[name] for c in self.classes.values()
            if name in c.methods
        ]

    # ----------------------------------------------------- name resolution
    def resolve_name(self, func: Func | None, mod: Module, name: str):
        """('func'|'class'|'module'|'global'|'ext', qualified) or None."""
        f = func
        while f is not None:
            if name in f.nested:
                return ("func", f.nested[name].qual)
            f = f.parent
        q = self.resolve_global(mod, name)
        if q is None:
            return None
        if q in self.funcs:
            return ("func", q)
        if q in self.classes:
            return ("class", q)
        if q in self.modules:
            return ("module", q)
        if self.is_internal(q):
            return ("global", q)
        return ("ext", q)

    def dotted(self, func: Func | None, mod: Module, expr: ast.AST):
        """Resolve an attribute chain rooted at an imported name.

        Returns a dotted qualified string (e.g. ``numpy.argsort``,
        ``mokapot.utils.create_chunks``) or None when the root is a local
        value.
        """
        parts = []
        e = expr
        while isinstance(e, ast.Attribute):
            parts.append(e.attr)
            e = e.value
        if not isinstance(e, ast.Name):
            return None
        r = self.resolve_name(func, mod, e.id)
        if r is None:
            return None
        kind, q = r
        if kind in ("func", "class") and not parts:
            return q
        if kind in ("module", "ext", "class", "global", "func"):
            full = ".".join([q] + list(reversed(parts)))
            return self.canonical(full)
        return None

    # ------------------------------------------------------ call resolution
    def resolve_call(self, func: Func | None, mod: Module, call: ast.Call,
                     local_names: set[str] | None = None):
        """Resolve the callee of ``call``.

        Returns (kind, targets) with kind in
          'internal' : targets = [qualified repo functions] (a class resolves
                       to its __init__ when defined, else the class name)
          'external' : targets = [dotted external name]
          'cha'      : targets = repo methods with that name (receiver is a
                       local value)
          'method'   : targets = ['.name'] – method on a local value with no
                       repo implementation
          'unresolved'
        ``local_names`` are names bound locally in the function (they shadow
        module-level names).
        """
        fn = call.func
        # delayed(f)(args)
        if isinstance(fn, ast.Call):
            inner = self.dotted(func, mod, fn.func)
            if inner in ("joblib.delayed",) and fn.args:
                fake = ast.Call(func=fn.args[0], args=call.args,
                                keywords=call.keywords)
                ast.copy_location(fake, call)
                return self.resolve_call(func, mod, fake, local_names)
            return ("unresolved", [])
        # super().method(...)
        if isinstance(fn, ast.Attribute) and isinstance(fn.value, ast.Call) \
                and isinstance(fn.value.func, ast.Name) and \
                fn.value.func.id == "super" and func is not None:
            owner = func
            while owner is not None and owner.cls is None:
                owner = owner.parent
            if owner is not None and owner.cls is not None:
                for b in owner.cls.bases:
                    bc = self.classes.get(b)
                    if bc is not None:
                        m = self.mro_method(bc, fn.attr)
                        if m is not None:
                            return ("internal", [m.qual])
                return ("method", ["." + fn.attr])
        root = fn
        while isinstance(root, ast.Attribute):
            root = root.value
        if isinstance(root, ast.Name):
            shadow = local_names is not None and root.id in local_names
            if root.id == "self" and isinstance(fn, ast.Attribute) and \
                    isinstance(fn.value, ast.Name) and func is not None:
                owner = func
                while owner is not None and owner.cls is None:
                    owner = owner.parent
                if owner is not None and owner.cls is not None:
                    m = self.mro_method(owner.cls, fn.attr)
                    if m is not None:
                        # include overriding subclasses (virtual dispatch)
                        tg = [m.qual]
                        for sc in self.subclasses(owner.cls.qual):
                            if fn.attr in sc.methods:
                                tg.append(sc.methods[fn.attr].qual)
                        return ("internal", tg)
            if not shadow or isinstance(fn, ast.Name) and func is not None \
                    and self._nested_lookup(func, root.id):
                d = self.dotted(func, mod, fn)
                if d is not None:
                    if d in self.funcs:
                        return ("internal", [d])
                    if d in self.classes:
                        init = self.mro_method(self.classes[d], "__init__")
                        return ("internal", [init.qual if init else d])
                    # Class.staticmethod
                    if "." in d:
                        head, last = d.rsplit(".", 1)
                        if head in self.classes:
                            m = self.mro_method(self.classes[head], last)
                            if m is not None:
                                return ("internal", [m.qual])
                    if self.is_internal(d):
                        # module-level value: registry called directly, or
                        # a method of a module-level object (LOGGER.info)
                        if isinstance(fn, ast.Attribute):
                            return ("method", ["." + fn.attr])
                        return ("unresolved", [d])
                    return ("external", [d])
            if isinstance(fn, ast.Name) and not shadow:
                import builtins
                if hasattr(builtins, fn.id):
                    return ("external", ["builtins." + fn.id])
        if isinstance(fn, ast.Attribute):
            cands = self.methods_named(fn.attr)
            if cands:
                return ("cha", [c.qual for c in cands])
            return ("method", ["." + fn.attr])
        return ("unresolved", [])

    def _nested_lookup(self, func: Func, name: str) -> bool:
        f = func
        while f is not None:
            if name in f.nested:
                return True
            f = f.parent
        return False

    # -------------------------------------------------------- arg binding
    @staticmethod
    def bind(callee: Func, call: ast.Call, skip_self: bool | None = None):
        """Map formal parameter names to actual argument expressions."""
        a = callee.node.args
        pos = [x.arg for x in a.posonlyargs + a.args]
        if skip_self is None:
            skip_self = (
                callee.cls is not None and callee.parent is None and pos
                and pos[0] in ("self", "cls")
                and "staticmethod" not in callee.decorators
            )
        if skip_self:
            pos = pos[1:]
        out: dict[str, ast.AST] = {}
        for i, arg in enumerate(call.args):
            if isinstance(arg, ast.Starred):
                break
            if i < len(pos):
                out[pos[i]] = arg
        for kw in call.keywords:
            if kw.arg is not None:
                out[kw.arg] = kw.value
        return out

    # ----------------------------------------------------------- call graph
    def call_sites(self, func: Func):
        """Yield (call node, kind, targets) for every call in ``func``'s own
        body (nested functions excluded – they are Funcs of their own;
        lambdas and comprehensions included)."""
        locs = local_bindings(func.node)
        for node in walk_own(func.node):
            if isinstance(node, ast.Call):
                kind, tg = self.resolve_call(func, func.module, node, locs)
                yield node, kind, tg

    def build_callgraph(self):
        self.callgraph: dict[str, set[str]] = {}
        self.callsites: dict[str, list] = {}
        st = self.stats
        for f in self.funcs.values():
            edges = set()
            sites = []
            for node, kind, tg in self.call_sites(f):
                st["call_sites"] += 1
                if kind == "internal":
                    st["calls_internal"] += 1
                    edges.update(tg)
                elif kind == "external":
                    st["calls_external"] += 1
                elif kind == "cha":
                    st["calls_cha"] += 1
                    edges.update(tg)
                elif kind == "method":
                    st["calls_external"] += 1
                else:
                    st["calls_unresolved"] += 1
                sites.append((node, kind, tg))
            # function references passed as values (callbacks, delayed(f))
            for node in walk_own(f.node):
                if isinstance(node, ast.Name) and isinstance(
                    node.ctx, ast.Load
                ):
                    r = self.resolve_name(f, f.module, node.id)
                    if r and r[0] == "func":
                        edges.add(r[1])
                    elif r and r[0] == "class":
                        c = self.classes[r[1]]
                        init = self.mro_method(c, "__init__")
                        if init:
                            edges.add(init.qual)
                    elif r and r[0] == "global":
                        # registry dict: edges to its lambdas
                        for q in self.funcs:
                            if q.startswith(r[1] + "["):
                                edges.add(q)
                elif isinstance(node, ast.Attribute):
                    d = self.dotted(f, f.module, node)
                    if d and d in self.funcs:
                        edges.add(d)
                    elif d and self.is_internal(d):
                        for q in self.funcs:
                            if q.startswith(d + "["):
                                edges.add(q)
            # nested functions are reachable from their parent
            for nf in f.nested.values():
                edges.add(nf.qual)
            self.callgraph[f.qual] = edges
            self.callsites[f.qual] = sites
        return self.callgraph

    def reachable(self, roots: list[str]) -> set[str]:
        if not hasattr(self, "callgraph"):
            self.build_callgraph()
        seen = set()
        stack = [r if r.startswith(PKG) else f"{PKG}.{r}" for r in roots]
        while stack:
            q = stack.pop()
            if q in seen:
                continue
            seen.add(q)
            stack.extend(self.callgraph.get(q, ()))
        return seen

    def callers_of(self, qual: str):
        """[(caller Func, call node)] over internal+cha resolution."""
        if not hasattr(self, "callgraph"):
            self.build_callgraph()
        if not qual.startswith(PKG):
            qual = f"{PKG}.{qual}"
        out = []
        for fq, sites in self.callsites.items():
            for node, kind, tg in sites:
                if kind in ("internal", "cha") and qual in tg:
                    out.append((self.funcs[fq], node, kind))
        return out


# ---------------------------------------------------------------- helpers
def _enclosing_func(root, target):
    """Closest enclosing function node of ``target`` inside ``root``."""
    best = None

    def rec(node, cur):
        nonlocal best
        for ch in ast.iter_child_nodes(node):
            if ch is target:
                best = cur
                return True
            nxt = cur
            if isinstance(ch, (ast.FunctionDef, ast.AsyncFunctionDef)):
                nxt = ch
            if rec(ch, nxt):
                return True
        return False

    rec(root, root)
    return best


def walk_own(fnode):
    """ast.walk restricted to the function's own body: nested function and
    class definitions are not entered (lambdas and comprehensions are)."""
    stack = list(ast.iter_child_nodes(fnode))
    while stack:
        n = stack.pop()
        yield n
        if isinstance(n, (ast.FunctionDef, ast.AsyncFunctionDef,
                          ast.ClassDef)):
            # decorators / defaults belong to the enclosing scope
            for d in n.decorator_list:
                stack.append(d)
            continue
        stack.extend(ast.iter_child_nodes(n))


def local_bindings(fnode) -> set[str]:
    """Names bound in the function's own scope (params, assignments, loop
    targets, with/except targets, imports, nested defs)."""
    out = set()
    if isinstance(fnode, (ast.FunctionDef, ast.AsyncFunctionDef, ast.Lambda)):
        a = fnode.args
        for x in a.posonlyargs + a.args + a.kwonlyargs:
            out.add(x.arg)
        if a.vararg:
            out.add(a.vararg.arg)
        if a.kwarg:
            out.add(a.kwarg.arg)
    for n in walk_own(fnode):
        if isinstance(n, ast.Name) and isinstance(n.ctx, (ast.Store, ast.Del)):
            out.add(n.id)
        elif isinstance(n, (ast.FunctionDef, ast.AsyncFunctionDef,
                            ast.ClassDef)):
            out.add(n.name)
        elif isinstance(n, (ast.Import, ast.ImportFrom)):
            for a in n.names:
                out.add((a.asname or a.name).split(".")[0])
        elif isinstance(n, ast.ExceptHandler) and n.name:
            out.add(n.name)
    # comprehension variables are not function locals, but they shadow too;
    # Store-context names inside comprehensions were added above, which is
    # the conservative choice for shadowing.
    return out


def norm_src(node: ast.AST) -> str:
    """Normalised source text of a node (position independent)."""
    try:
        return ast.unparse(node)
    except Exception:  # pragma: no cover
        return ast.dump(node)


def const_value(node, default=None):
    if isinstance(node, ast.Constant):
        return node.value
    if isinstance(node, ast.UnaryOp) and isinstance(node.op, ast.USub) and \
            isinstance(node.operand, ast.Constant):
        return -node.operand.value
    return default


def callee_is(prog, func, call, *names):
    """Is the callee of ``call`` (a Call node inside ``func``) one of
    ``names``?  The callee is resolved through the module's imports and
    aliases to its canonical dotted name (``pd.concat`` / ``pandas.concat``
    / ``from pandas import concat`` are all ``pandas.concat``); a name
    matches when it equals the canonical name or is a dotted suffix of it.
    Local variables that shadow the name do not match."""
    fn = call.func
    try:
        dn = prog.dotted(func, func.module, fn)
    except Exception:  # noqa: BLE001
        dn = None
    if dn is None:
        if isinstance(fn, ast.Name):
            dn = fn.id
        elif isinstance(fn, ast.Attribute):
            try:
                dn = ast.unparse(fn)
            except Exception:  # noqa: BLE001
                return False
        else:
            return False
    for nm in names:
        short = nm[len("builtins."):] if nm.startswith("builtins.") else nm
        for cand in (nm, short):
            if dn == cand or dn.endswith("." + cand) or \
                    dn == "builtins." + cand:
                return True
    return False


def delayed_task_of(prog, func, call, *names):
    """Is ``call`` a joblib task ``delayed(f)(...)`` whose ``f`` resolves to
    one of ``names``?  (``delayed`` and ``f`` through any import style; K9
    has already replaced ``t = delayed(f); t(...)`` by this form.)"""
    fn = call.func
    if not isinstance(fn, ast.Call) or not fn.args:
        return False
    try:
        inner = prog.dotted(func, func.module, fn.func)
    except Exception:  # noqa: BLE001
        inner = None
    if inner != "joblib.delayed":
        return False
    fake = ast.Call(func=fn.args[0], args=[], keywords=[])
    ast.copy_location(fake, call)
    return callee_is(prog, func, fake, *names)


def registry_entries(prog, modname, regname):
    """{key: Func} of a module-level dictionary display that maps constant
    keys to functions - lambdas written in place, or names of functions of
    the package (a lambda that was given a name is the same entry)."""
    mod = prog.module(modname)
    node = mod.assigns.get(regname)
    if not isinstance(node, ast.Dict):
        raise AnalysisError(f"{modname}.{regname} is not a dict display")
    out = {}
    for k, v in zip(node.keys, node.values):
        if not isinstance(k, ast.Constant):
            raise AnalysisError(f"{regname}: a key is not a constant")
        f = None
        if isinstance(v, ast.Lambda):
            f = prog.funcs.get(f"{mod.name}.{regname}[{k.value!r}]")
        elif isinstance(v, (ast.Name, ast.Attribute)):
            try:
                dn = prog.dotted(None, mod, v)
            except Exception:  # noqa: BLE001
                dn = None
            f = prog.funcs.get(dn) if dn else None
        if f is None:
            raise AnalysisError(
                f"{regname}[{k.value!r}]: the entry is neither a lambda nor "
                "a function of the package")
        out[k.value] = f
    return out
