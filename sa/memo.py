"""MEMO: state that survives a call (caches, mutable defaults).

Generic rule used by every property: inside the functions a property is
anchored in (and everything they reach) a value may only be remembered
across calls if remembering it cannot change a later call's result.

Four carriers of cross-call state are recognised, each with the condition
under which it is *harmful* (only then a finding is reported):

* a **mutable default argument** - harmful when the function changes the
  default object in place (a container update event rooted in the parameter,
  through any alias) or lets it escape (returned, yielded, stored into an
  attribute / container, handed to another call).  A mutable default that is
  only read is not state.
* a **cache decorator** (lru_cache, cache, memoize ...) - the key is the
  whole argument list, so it is harmful only when the function is not a
  function of its arguments (draws from a random generator, reads mutable
  module state or attributes of ``self``, reads files / directories /
  the clock), or when a caller changes the returned object in place (the
  cached object is shared).
* a **module-level container written from inside a function** (a hand-made
  cache or registry) - harmful as soon as it is written: the key of a
  hand-made cache need not cover the inputs, and its content outlives the
  call.  Aliases (``tab = TABLE; tab[k] = v``, ``cols = COLUMNS; cols +=
  extra``) are followed through the value terms.
* a **class-level container written from a method** (``cache = {}`` in the
  class body, ``self.cache[k] = v`` in a method, no per-instance
  re-binding): the same, shared by all instances.
"""

from __future__ import annotations

import ast

from .cfg import CFG
from .core import walk_own
from .defuse import DefUse, Terms, walk_term
from .events import container_events

_CTORS = ("dict", "list", "set", "defaultdict", "OrderedDict",
          "collections.defaultdict", "collections.OrderedDict", "deque",
          "collections.deque", "Counter", "collections.Counter")
_INPLACE_AUG = (ast.Add, ast.BitOr, ast.BitAnd, ast.Sub, ast.BitXor,
                ast.Mult)


def _is_mutable_display(d):
    return isinstance(d, (ast.Dict, ast.List, ast.Set, ast.ListComp,
                          ast.DictComp, ast.SetComp)) or (
        isinstance(d, ast.Call) and ast.unparse(d.func) in _CTORS)


_STATEFUL_CTORS = ("default_rng", "RandomState", "Random", "Generator",
                   "SeedSequence", "count", "cycle", "iter")


def _is_stateful_object(d):
    """a default that is an object with hidden, advancing state: a random
    generator, an iterator"""
    if not isinstance(d, ast.Call):
        return False
    name = ast.unparse(d.func).rsplit(".", 1)[-1]
    return name in _STATEFUL_CTORS


def mutable_defaults(func):
    """[(param, default node)] for defaults that are mutable displays or
    stateful objects (created once, when the function is defined)."""
    out = []
    if isinstance(func.node, ast.Lambda):
        return out
    for name, d in func.defaults().items():
        if _is_mutable_display(d) or _is_stateful_object(d):
            out.append((name, d))
    return out


def cache_decorators(func):
    if isinstance(func.node, ast.Lambda):
        return []
    return [d for d in func.decorators
            if "lru_cache" in d or d.endswith("cache") or "memoize" in d]


def _roots(t):
    """Leaf objects a container term may be (through stores, mutations,
    subscripts, phis and conditional expressions)."""
    out = []
    seen = set()

    def rec(x):
        if not isinstance(x, tuple) or not x or id(x) in seen:
            return
        seen.add(id(x))
        k = x[0]
        if k in ("mutsub", "mut", "store", "augstore", "setattr", "sub",
                 "attr", "delitem") and len(x) > 1 and isinstance(
                     x[1], tuple):
            rec(x[1])
        elif k == "phi":
            for a in x[1]:
                rec(a)
        elif k == "ifexp":
            rec(x[2])
            rec(x[3])
        elif k == "var":
            out.append(x)
        else:
            out.append(x)
    rec(t)
    return out


def _analysis(prog, func):
    du = DefUse(prog, func)
    T = Terms(du)
    cfg = CFG(func.node)
    return du, T, cfg


def _update_events(func, T, cfg):
    """container events plus in-place augmented assignments to a name."""
    evs = [(e.recv, e.node, e.kind) for e in container_events(
        func.node, T, cfg)]
    for n in walk_own(func.node):
        if isinstance(n, ast.AugAssign) and isinstance(
                n.target, ast.Name) and isinstance(n.op, _INPLACE_AUG):
            try:
                evs.append((T.of(n.target), n, "aug"))
            except Exception:
                pass
    return evs


def _mutable_globals(mod):
    return {n for n, v in mod.assigns.items() if _is_mutable_display(v)}


def module_state_writes(prog, func):
    """In-place changes of module-level mutable objects from inside
    ``func`` (directly or through a local alias): [(global name, node)]."""
    out = []
    if isinstance(func.node, ast.Lambda):
        return out
    # any module of the package may own the object (imported constants)
    owners = {}
    for m in prog.modules.values():
        for g in _mutable_globals(m):
            owners[f"{m.name}.{g}"] = g
    if not owners:
        return out
    try:
        _du, T, cfg = _analysis(prog, func)
    except Exception:
        return out
    local = {p.lstrip("*") for p in func.params}
    for n in walk_own(func.node):
        if isinstance(n, ast.Name) and isinstance(n.ctx, ast.Store):
            local.add(n.id)
    own = _mutable_globals(func.module)
    for recv, node, _kind in _update_events(func, T, cfg):
        for r in _roots(recv):
            if r[0] == "name" and r[1] in owners:
                out.append((owners[r[1]], node))
            elif r[0] in ("rec", "var", "free") and isinstance(
                    r[1], str) and r[1] in own and r[1] not in local:
                # loop-carried view of the module object itself
                out.append((r[1], node))
    return out


def _class_level_mutables(cls):
    """names bound in the class body to a mutable display and not re-bound
    per instance (``self.name = ...`` in a method): one object shared by
    every instance of the class, for the life of the process"""
    if cls is None:
        return set()
    shared = set()
    for st in cls.node.body:
        tg = None
        if isinstance(st, ast.Assign) and len(st.targets) == 1:
            tg, val = st.targets[0], st.value
        elif isinstance(st, ast.AnnAssign) and st.value is not None:
            tg, val = st.target, st.value
        if isinstance(tg, ast.Name) and _is_mutable_display(val):
            shared.add(tg.id)
    if not shared:
        return shared
    for m in cls.methods.values():
        for n in ast.walk(m.node):
            if isinstance(n, (ast.Assign, ast.AnnAssign)):
                tgs = n.targets if isinstance(n, ast.Assign) else [n.target]
                for t in tgs:
                    for x in (t.elts if isinstance(
                            t, (ast.Tuple, ast.List)) else [t]):
                        if isinstance(x, ast.Attribute) and isinstance(
                                x.value, ast.Name) and x.value.id == "self":
                            shared.discard(x.attr)
    return shared


def class_state_writes(prog, func):
    """In-place changes of a class-level mutable object from a method
    (through ``self.X``, ``cls.X``, ``type(self).X`` or ``ClassName.X``):
    [(attribute, node)]."""
    out = []
    if isinstance(func.node, ast.Lambda) or func.cls is None:
        return out
    shared = _class_level_mutables(func.cls)
    if not shared:
        return out
    try:
        _du, T, cfg = _analysis(prog, func)
    except Exception:
        return out
    def spine_attrs(t, acc, seen):
        if not isinstance(t, tuple) or not t or id(t) in seen:
            return
        seen.add(id(t))
        if t[0] == "attr":
            acc.append(t[2])
        if t[0] in ("mutsub", "mut", "store", "augstore", "sub", "attr",
                    "delitem") and len(t) > 1:
            spine_attrs(t[1], acc, seen)
        elif t[0] == "phi":
            for a in t[1]:
                spine_attrs(a, acc, seen)
        elif t[0] == "ifexp":
            spine_attrs(t[2], acc, seen)
            spine_attrs(t[3], acc, seen)

    for recv, node, _kind in _update_events(func, T, cfg):
        acc = []
        spine_attrs(recv, acc, set())
        for a in acc:
            if a in shared:
                out.append((a, node))
                break
    return out


def argument_state_writes(prog, func):
    """In-place updates of a container that hangs off an *argument* object
    (``arg.attr[k] = v``, ``m = arg.attr; m[k] = v``, ``arg.attr.append``):
    [(param, attribute, node)].  The object outlives the call, so what one
    call leaves there is seen by the next call that gets the same object."""
    out = []
    if isinstance(func.node, ast.Lambda):
        return out
    params = {p_.lstrip("*") for p_ in func.params} - {"self", "cls"}
    if not params:
        return out
    if not any(isinstance(n, ast.Attribute) and isinstance(
            n.value, ast.Name) and n.value.id in params
            for n in walk_own(func.node)):
        return out
    try:
        _du, T, cfg = _analysis(prog, func)
    except Exception:
        return out
    def find(t, seen):
        if not isinstance(t, tuple) or not t or id(t) in seen or \
                len(seen) > 200:
            return None
        seen.add(id(t))
        if t[0] == "attr" and isinstance(t[1], tuple) and \
                t[1][:1] == ("param",) and t[1][1] in params:
            return (t[1][1], t[2])
        if t[0] in ("mutsub", "mut", "store", "augstore", "sub", "attr",
                    "delitem") and len(t) > 1:
            return find(t[1], seen)
        if t[0] == "phi":
            for a in t[1]:
                r = find(a, seen)
                if r:
                    return r
        if t[0] == "ifexp":
            return find(t[2], seen) or find(t[3], seen)
        return None

    for recv, node, _kind in _update_events(func, T, cfg):
        r = find(recv, set())
        if r:
            out.append((r[0], r[1], node))
    return out


def default_is_state(prog, func, pname):
    """Why the mutable default of ``pname`` is cross-call state, or None."""
    try:
        du, T, cfg = _analysis(prog, func)
    except Exception:
        return "function not analysable"
    P = ("param", pname)

    def is_p(t):
        return any(r == P for r in _roots(t))
    d0 = func.defaults().get(pname)
    if d0 is not None and _is_stateful_object(d0):
        # every use advances (or may advance) the shared object: handing it
        # to a call, drawing from it
        for n in walk_own(func.node):
            if isinstance(n, ast.Name) and n.id == pname and isinstance(
                    n.ctx, ast.Load):
                return ("it is used (line "
                        f"{getattr(n, 'lineno', '?')}): each call continues "
                        "where the previous one stopped")
        return None
    for recv, node, kind in _update_events(func, T, cfg):
        if is_p(recv):
            return (f"it is changed in place (line "
                    f"{getattr(node, 'lineno', '?')}, {kind})")
    for n in walk_own(func.node):
        if isinstance(n, (ast.Return, ast.Yield)) and n.value is not None:
            if is_p(T.of(n.value)):
                return "it is handed out to the caller"
        if isinstance(n, ast.Assign):
            for tg in n.targets:
                if isinstance(tg, (ast.Attribute, ast.Subscript)) and is_p(
                        T.of(n.value)):
                    return "it is stored in a longer-lived object"
    return None


_IO_CALLS = ("builtins.open", "io.open", "gzip.open", "os.listdir",
             "os.scandir", "os.stat", "os.path.exists", "os.path.getsize",
             "os.path.getmtime", "os.path.isfile", "glob.glob", "glob.iglob",
             "sqlite3.connect", "pyarrow.parquet.read_table",
             "pyarrow.parquet.ParquetFile", "pyarrow.parquet.read_schema",
             "pyarrow.parquet.read_metadata", "lxml.etree.iterparse",
             "lxml.etree.parse", "os.environ.get", "os.getenv",
             "time.time", "datetime.datetime.now")
_IO_METHODS = ("read_text", "read_bytes", "glob", "rglob", "iterdir",
               "exists", "is_file", "is_dir", "stat", "readline",
               "readlines", "get_column_names", "get_column_types",
               "read_data", "get_chunked_data_iterator", "iter_batches")


def _reads_outside_world(t):
    """description of the external state a call term reads, or None"""
    if t[0] == "call":
        q = t[1]
        if q in _IO_CALLS:
            return f"external state ({q})"
        if q.startswith("pandas.read_") or q.startswith("numpy.load") or \
                q in ("numpy.loadtxt", "numpy.genfromtxt"):
            return f"a file ({q})"
        if q.endswith("TabularDataReader.from_path"):
            return f"a file ({q.rsplit('.', 2)[-2]})"
    if t[0] == "mcall" and t[2] in _IO_METHODS:
        return f"external state (.{t[2]}())"
    return None


def cache_is_harmful(prog, func):
    """Why caching the results of ``func`` can change a later result, or
    None when the function is a function of its (hashable) arguments and no
    caller changes what it returns."""
    try:
        du, T, cfg = _analysis(prog, func)
    except Exception:
        return "function not analysable"
    mglob = {f"{m.name}.{g}" for m in prog.modules.values()
             for g in _mutable_globals(m)}
    for n in walk_own(func.node):
        if isinstance(n, ast.Call):
            t = T.of(n)
            io = _reads_outside_world(t)
            if io:
                return (f"it reads {io}: what is read can change between "
                        "two calls with the same arguments (a file replaced "
                        "at the same path), the cached answer cannot")
            if t[0] == "call" and (t[1].startswith("numpy.random")
                                   or t[1].startswith("random.")):
                return "it draws from a global random generator"
            if t[0] == "mcall" and t[2] in (
                    "permutation", "shuffle", "choice", "integers", "random",
                    "normal", "uniform", "sample", "randint", "rand",
                    "standard_normal", "spawn"):
                return (f"it draws from a random generator ({t[2]}): a "
                        "cached call no longer advances the generator")
        if isinstance(n, ast.Name) and isinstance(n.ctx, ast.Load):
            t = T.of(n)
            if t[0] == "name" and t[1] in mglob:
                return f"it reads the mutable module object {t[1]}"
        if isinstance(n, ast.Attribute) and isinstance(
                n.value, ast.Name) and n.value.id == "self" and isinstance(
                    n.ctx, ast.Load) and func.cls is not None:
            return (f"it reads self.{n.attr}, which is not part of the "
                    "cache key's value")
    # callers that change the returned object
    for caller, _call, _kind in prog.callers_of(func.qual):
        if isinstance(caller.node, ast.Lambda):
            continue
        try:
            _d, cT, ccfg = _analysis(prog, caller)
        except Exception:
            continue
        for recv, node, kind in _update_events(caller, cT, ccfg):
            for r in _roots(recv):
                if r[0] in ("call", "mcall") and any(
                        isinstance(x, tuple) and x and x[0] == "call"
                        and x[1] == func.qual for x in walk_term(r)):
                    return (f"{caller.qual} changes the returned object in "
                            f"place (line {getattr(node, 'lineno', '?')}): "
                            "the change is seen by every later call")
    return None


def might_carry_state(prog, func):
    """Cheap pre-filter: can ``func`` be one of the three carriers at all?
    (a mutable default, a cache decorator, or a mention of the name of a
    module-level mutable object of its own module)"""
    if isinstance(func.node, ast.Lambda):
        return False
    if mutable_defaults(func) or cache_decorators(func):
        return True
    if func.cls is not None and _class_level_mutables(func.cls):
        return True
    ps_ = {p_.lstrip("*") for p_ in func.params} - {"self", "cls"}
    if ps_ and any(isinstance(n, ast.Attribute) and isinstance(
            n.value, ast.Name) and n.value.id in ps_ and isinstance(
                n.ctx, ast.Load) for n in walk_own(func.node)) and any(
            isinstance(n, (ast.Subscript, ast.AugAssign, ast.Call))
            for n in walk_own(func.node)):
        return True
    own = _mutable_globals(func.module)
    if not own:
        return False
    return any(isinstance(n, ast.Name) and n.id in own
               for n in walk_own(func.node))


def check_no_cross_call_state(ctx, rule, funcs, what):
    """Report every harmful carrier of cross-call state in ``funcs``."""
    prog = ctx.prog
    # cached helpers the reference tree does not know are inlined at their
    # call sites (no call edge is left): their caches are judged with the
    # functions of the modules they live in
    try:
        from .refnames import load_ref
        ref = load_ref() or {}
    except Exception:  # noqa: BLE001
        ref = {}
    mods = {f.module.name for f in funcs if not isinstance(
        f.node, ast.Lambda)}
    have = {f.qual for f in funcs}
    funcs = list(funcs)
    for q, fn in sorted(prog.funcs.items()):
        if q not in have and q not in ref and not isinstance(
                fn.node, ast.Lambda) and fn.module.name in mods and \
                cache_decorators(fn):
            funcs.append(fn)
    n = 0
    for f in funcs:
        if isinstance(f.node, ast.Lambda):
            continue
        n += 1
        for name, d in mutable_defaults(f):
            why = default_is_state(prog, f, name)
            if why:
                ctx.fail(rule, f, f"mutable default {name}={ast.unparse(d)}",
                         f"parameter '{name}' has a mutable default that is "
                         f"shared by every call and {why}: state left by "
                         f"one {what} leaks into the next", node=d)
        for d in cache_decorators(f):
            why = cache_is_harmful(prog, f)
            if why:
                ctx.fail(rule, f, f"@{d}",
                         f"results of {f.name} are cached across calls "
                         f"(@{d}) although {why}", node=f.node)
        for p_, a_, node in argument_state_writes(prog, f):
            ctx.fail(rule, f, f"state kept on argument {p_}.{a_}",
                     f"{f.name} updates '{p_}.{a_}' in place: the object "
                     f"is the caller's and outlives the call, so a later "
                     f"{what} that is handed the same object starts from "
                     "what this one left there", node=node)
        for a_, node in class_state_writes(prog, f):
            ctx.fail(rule, f, f"class-level cache {a_}",
                     f"{f.name} stores into '{a_}', an object created once "
                     "in the class body and shared by every instance: a "
                     f"later {what} in the same process (another file, "
                     "another dataset) sees values computed for this one",
                     node=node)
        for g, node in module_state_writes(prog, f):
            ctx.fail(rule, f, f"module-level cache {g}",
                     f"{f.name} stores into the module-level object '{g}': "
                     f"a later {what} in the same process sees values "
                     "computed for other arguments", node=node)
    ctx.ok(rule, funcs[0] if funcs else "mokapot",
           f"no cross-call state in {n} functions of this {what}")
