"""MEMO: state that survives a call (caches, mutable defaults).

Generic rule used by several properties: inside the functions a property
is anchored in (and everything they reach) a value may only be remembered
across calls if the memo key covers every input of the cached computation
and the cached object is never mutated by its consumers.
"""

from __future__ import annotations

import ast

from .core import walk_own


def mutable_defaults(func):
    """[(param, default node)] for defaults that are mutable displays."""
    out = []
    if isinstance(func.node, ast.Lambda):
        return out
    for name, d in func.defaults().items():
        if isinstance(d, (ast.Dict, ast.List, ast.Set)) or (
                isinstance(d, ast.Call) and ast.unparse(d.func) in (
                    "dict", "list", "set", "defaultdict", "OrderedDict",
                    "collections.defaultdict")):
            out.append((name, d))
    return out


def cache_decorators(func):
    if isinstance(func.node, ast.Lambda):
        return []
    return [d for d in func.decorators
            if "lru_cache" in d or d.endswith("cache") or "memoize" in d]


def module_state_writes(prog, func):
    """Stores into module-level mutable objects from inside ``func``:
    [(global name, node)]."""
    out = []
    mod = func.module
    mutable_globals = {
        n for n, v in mod.assigns.items()
        if isinstance(v, (ast.Dict, ast.List, ast.Set)) or (
            isinstance(v, ast.Call) and ast.unparse(v.func) in (
                "dict", "list", "set", "defaultdict",
                "collections.defaultdict", "OrderedDict"))
    }
    if not mutable_globals or isinstance(func.node, ast.Lambda):
        return out
    local = set()
    for n in walk_own(func.node):
        if isinstance(n, ast.Name) and isinstance(n.ctx, ast.Store):
            local.add(n.id)
    local |= {p.lstrip("*") for p in func.params}
    for n in walk_own(func.node):
        tgt = None
        if isinstance(n, (ast.Assign, ast.AugAssign)):
            ts = n.targets if isinstance(n, ast.Assign) else [n.target]
            for t in ts:
                if isinstance(t, ast.Subscript) and isinstance(
                        t.value, ast.Name):
                    tgt = t.value.id
        elif isinstance(n, ast.Call) and isinstance(n.func, ast.Attribute) \
                and n.func.attr in ("append", "add", "update", "setdefault",
                                    "extend", "pop", "clear") and isinstance(
                                        n.func.value, ast.Name):
            tgt = n.func.value.id
        if tgt and tgt in mutable_globals and tgt not in local:
            out.append((tgt, n))
    return out


def check_no_cross_call_state(ctx, rule, funcs, what):
    """Fail for every mutable default, cache decorator or module-level cache
    write in ``funcs`` (list of Func)."""
    prog = ctx.prog
    n = 0
    for f in funcs:
        n += 1
        for name, d in mutable_defaults(f):
            # only a problem when the body mutates or reads it as state
            ctx.fail(rule, f, f"mutable default {name}={ast.unparse(d)}",
                     f"parameter '{name}' has a mutable default that is "
                     "shared by every call: state left by one "
                     f"{what} leaks into the next", node=d)
        for d in cache_decorators(f):
            ctx.fail(rule, f, f"@{d}",
                     f"results of {f.name} are cached across calls (@{d}): "
                     "the cached object is shared between callers, and the "
                     f"key may not cover everything the {what} depends on",
                     node=f.node)
        for g, node in module_state_writes(prog, f):
            ctx.fail(rule, f, f"module-level cache {g}",
                     f"{f.name} stores into the module-level object '{g}': "
                     f"a later {what} in the same process sees values "
                     "computed for other arguments", node=node)
    ctx.ok(rule, funcs[0] if funcs else "mokapot",
           f"no cross-call state in {n} functions of this {what}")
