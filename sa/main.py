"""CLI:  ./check <ID> [--tier quick|thorough] [--replay file]"""

from __future__ import annotations

import argparse
import importlib
import os
import sys

from .report import run_check


def main(argv=None):
    ap = argparse.ArgumentParser()
    ap.add_argument("prop")
    ap.add_argument("--tier", default=os.environ.get("VERIF_TIER", "quick"),
                    choices=["quick", "thorough"])
    ap.add_argument("--replay", default=None)
    args = ap.parse_args(argv)
    prop = args.prop.upper()
    seed = int(os.environ.get("VERIF_SEED", "0") or 0)
    try:
        mod = importlib.import_module(f"sa.rules.{prop.lower()}")
    except ModuleNotFoundError:
        print(f"ANALYSIS-ERROR property={prop}: no rule module")
        return 2

    def rule_fn(ctx):
        mod.run(ctx)
        if args.tier == "thorough":
            if hasattr(mod, "run_thorough"):
                mod.run_thorough(ctx)
            from . import thorough
            thorough.run(ctx)

    return run_check(prop, args.tier, seed, rule_fn, mod.EXPLANATION,
                     mod.TECHNIQUE, args.replay)


if __name__ == "__main__":
    sys.exit(main())
