"""Alpha-normalisation of function-local variable names.

Several structural rules are written in terms of the local variable names the
repository uses today (they are the readable way to say "the list that
receives the chunk paths").  A consistent renaming of a local variable does
not change behaviour and must not change any verdict.  Therefore, before the
rules run, every function's local names are normalised against a reference
naming (``refnames.json``, generated from the tree the rules were written
for): locals that are unknown to the reference are mapped, in order of first
binding, onto the reference names that are missing from the function - but
only when both lists have the same length; otherwise nothing is renamed and
the rules see the code as it is.  Never-read locals are ignored on both
sides.  Parameters, attributes, globals and keyword names are never touched.

    python3 -m sa.refnames --write     regenerate refnames.json from /repo
"""

from __future__ import annotations

import ast
import json
import sys
from pathlib import Path

REF = Path(__file__).resolve().parent / "refnames.json"


def _params(fn):
    a = fn.args
    ps = {x.arg for x in a.posonlyargs + a.args + a.kwonlyargs}
    if a.vararg:
        ps.add(a.vararg.arg)
    if a.kwarg:
        ps.add(a.kwarg.arg)
    return ps


def _own_nodes(fn):
    """Nodes of fn's own scope in source order (nested defs/lambdas are not
    entered; comprehensions are)."""
    out = []

    def rec(n):
        for ch in ast.iter_child_nodes(n):
            if isinstance(ch, (ast.FunctionDef, ast.AsyncFunctionDef,
                               ast.Lambda, ast.ClassDef)):
                continue
            out.append(ch)
            rec(ch)
    rec(fn)
    return out


def local_order(fn):
    """Local names (no params, no global/nonlocal) in order of first binding,
    never-read ones excluded."""
    ps = _params(fn)
    declared = set()
    for n in ast.walk(fn):
        if isinstance(n, (ast.Global, ast.Nonlocal)):
            declared.update(n.names)
    order = []
    for n in sorted((x for x in _own_nodes(fn) if isinstance(x, ast.Name)
                     and isinstance(x.ctx, (ast.Store, ast.Del))),
                    key=lambda x: (x.lineno, x.col_offset)):
        if n.id not in ps and n.id not in declared and n.id not in order:
            order.append(n.id)
    reads = {n.id for n in ast.walk(fn) if isinstance(n, ast.Name)
             and isinstance(n.ctx, ast.Load)}
    return [x for x in order if x in reads]


class _Apply(ast.NodeTransformer):
    def __init__(self, mapping):
        self.mapping = mapping
        self.mask = []

    def _masked(self, name):
        return any(name in m for m in self.mask)

    def visit_Name(self, node):
        if node.id in self.mapping and not self._masked(node.id):
            node.id = self.mapping[node.id]
        return node

    def _scoped(self, node, bound):
        self.mask.append(bound)
        self.generic_visit(node)
        self.mask.pop()
        return node

    def visit_Lambda(self, node):
        return self._scoped(node, {a.arg for a in node.args.args
                                   + node.args.kwonlyargs})

    def visit_FunctionDef(self, node):
        bound = _params(node) | {
            n.id for n in _own_nodes(node) if isinstance(n, ast.Name)
            and isinstance(n.ctx, ast.Store)}
        return self._scoped(node, bound)

    visit_AsyncFunctionDef = visit_FunctionDef


def normalise_module(tree, modname, ref):
    """Rename locals in place according to the reference; returns the list
    of (qualname, mapping) applied."""
    applied = []

    def visit(body, prefix):
        for st in body:
            if isinstance(st, (ast.FunctionDef, ast.AsyncFunctionDef)):
                q = f"{prefix}.{st.name}"
                want = ref.get(q)
                if want is not None:
                    have = local_order(st)
                    unknown = [x for x in have if x not in want]
                    missing = [x for x in want if x not in have]
                    if unknown and len(unknown) == len(missing):
                        mapping = dict(zip(unknown, missing))
                        ap = _Apply(mapping)
                        # apply to the function's own scope and closures
                        for ch in st.body:
                            ap.visit(ch)
                        applied.append((q, mapping))
                visit_nested(st, q)
            elif isinstance(st, ast.ClassDef):
                visit(st.body, f"{prefix}.{st.name}")
            elif isinstance(st, (ast.If, ast.Try, ast.With)):
                for sub in ast.iter_child_nodes(st):
                    if isinstance(sub, ast.stmt):
                        visit([sub], prefix)

    def visit_nested(fn, q):
        for n in ast.walk(fn):
            if n is not fn and isinstance(n, (ast.FunctionDef,
                                              ast.AsyncFunctionDef)):
                visit([n], q)

    visit(tree.body, modname)
    return applied


def load_ref():
    if REF.exists():
        return json.loads(REF.read_text())
    return {}


def generate(root):
    root = Path(root)
    out = {}
    for path in sorted((root / "mokapot").rglob("*.py")):
        rel = path.relative_to(root).with_suffix("")
        parts = list(rel.parts)
        if parts[-1] == "__init__":
            parts = parts[:-1]
        mod = ".".join(parts)
        tree = ast.parse(path.read_text())
        from .canon import canonicalise
        canonicalise(tree)

        def visit(body, prefix):
            for st in body:
                if isinstance(st, (ast.FunctionDef, ast.AsyncFunctionDef)):
                    q = f"{prefix}.{st.name}"
                    out[q] = local_order(st)
                    for n in ast.walk(st):
                        if n is not st and isinstance(
                                n, (ast.FunctionDef, ast.AsyncFunctionDef)):
                            visit([n], q)
                elif isinstance(st, ast.ClassDef):
                    visit(st.body, f"{prefix}.{st.name}")
                elif isinstance(st, (ast.If, ast.Try, ast.With)):
                    for sub in ast.iter_child_nodes(st):
                        if isinstance(sub, ast.stmt):
                            visit([sub], prefix)
        visit(tree.body, mod)
    return out


if __name__ == "__main__":
    if "--write" in sys.argv:
        from .core import REPO
        ref = generate(REPO)
        REF.write_text(json.dumps(ref, indent=0, sort_keys=True))
        print(f"wrote {len(ref)} functions to {REF}")
