"""Alpha-insensitive structural pattern matching on Python syntax trees.

A pattern is ordinary Python source.  Identifiers in the pattern that are not
resolvable as a *non-local* name of the analysed function (parameter, module
global / import, builtin) are **pattern variables**: they match any
function-local variable (or comprehension / lambda variable) of the analysed
code, consistently - the binding pattern-variable <-> actual name is a
bijection kept for the lifetime of the PM object, so several patterns
matched against one function agree on which variable plays which role.

    _ANY_            matches any expression
    _ANY1_, _ANY2_   match any expression, and equal sub-trees for the same
                     tag inside one PM

Everything else (attribute names, keyword names, constants, operators, call
shapes) must agree exactly.  Positions, layout, comments and quoting are
irrelevant.
"""

from __future__ import annotations

import ast
import builtins

from .core import Func, local_bindings


class PM:
    def __init__(self, prog, func: Func, extra_fixed=()):
        self.prog = prog
        self.func = func
        self.params = {p.lstrip("*") for p in func.params}
        self.locals = set(local_bindings(func.node)) - self.params
        # comprehension / lambda variables anywhere inside count as locals
        for n in ast.walk(func.node):
            if isinstance(n, ast.comprehension):
                for x in ast.walk(n.target):
                    if isinstance(x, ast.Name):
                        self.locals.add(x.id)
            elif isinstance(n, ast.Lambda):
                for a in n.args.args + n.args.kwonlyargs:
                    self.locals.add(a.arg)
            elif isinstance(n, (ast.FunctionDef, ast.AsyncFunctionDef)) \
                    and n is not func.node:
                for a in n.args.args + n.args.kwonlyargs:
                    self.locals.add(a.arg)
                for x in ast.walk(n):
                    if isinstance(x, ast.Name) and isinstance(
                            x.ctx, ast.Store):
                        self.locals.add(x.id)
        self.fixed = set(extra_fixed) | self.params
        self.bind: dict[str, str] = {}
        self.rbind: dict[str, str] = {}
        self.anys: dict[str, str] = {}
        self._pcache: dict[str, ast.AST] = {}

    # ------------------------------------------------------------ helpers
    def _is_fixed(self, name: str) -> bool:
        if name in self.fixed:
            return True
        if name in ("self", "cls"):
            return True
        if hasattr(builtins, name):
            return True
        mod = self.func.module
        if name in mod.imports or name in mod.assigns:
            return True
        if f"{mod.name}.{name}" in self.prog.funcs or \
                f"{mod.name}.{name}" in self.prog.classes:
            return True
        # nested function names of this function are fixed too
        f = self.func
        while f is not None:
            if name in f.nested:
                return True
            f = f.parent
        return False

    def _parse(self, src: str, mode: str):
        key = mode + ":" + src
        if key not in self._pcache:
            if mode == "expr":
                self._pcache[key] = ast.parse(src, mode="eval").body
            else:
                self._pcache[key] = ast.parse(src).body
        return self._pcache[key]

    def var(self, patname: str):
        """actual name bound to a pattern variable (or None)."""
        return self.bind.get(patname)

    # ------------------------------------------------------------- matching
    def _match(self, a, p, b, rb, anys) -> bool:
        """a: actual node, p: pattern node; b/rb/anys: trial bindings."""
        if isinstance(p, ast.Name) and p.id.startswith("_ANY"):
            if p.id == "_ANY_":
                return isinstance(a, ast.AST)
            dump = ast.dump(a)
            if p.id in anys:
                return anys[p.id] == dump
            anys[p.id] = dump
            return True
        if isinstance(p, ast.Name):
            if not isinstance(a, ast.Name):
                return False
            if self._is_fixed(p.id) and p.id not in self.locals:
                return a.id == p.id
            if self._is_fixed(p.id) and p.id in self.locals:
                # shadowed builtin / global used as a local in the code
                pass
            # pattern variable
            if a.id not in self.locals and a.id not in self.params:
                # actual name is a global: only equal names match
                return a.id == p.id
            if a.id in self.params and a.id not in self.locals:
                return a.id == p.id
            if p.id in b:
                return b[p.id] == a.id
            if a.id in rb:
                return rb[a.id] == p.id
            b[p.id] = a.id
            rb[a.id] = p.id
            return True
        if type(a) is not type(p):
            return False
        if isinstance(p, ast.Constant):
            return type(a.value) is type(p.value) and a.value == p.value
        for field in p._fields:
            if field in ("ctx", "type_comment", "kind"):
                continue
            pv = getattr(p, field, None)
            av = getattr(a, field, None)
            if isinstance(pv, list):
                if not isinstance(av, list) or len(av) != len(pv):
                    return False
                for x, y in zip(av, pv):
                    if isinstance(y, ast.AST):
                        if not self._match(x, y, b, rb, anys):
                            return False
                    elif x != y:
                        return False
            elif isinstance(pv, ast.AST):
                if not isinstance(av, ast.AST) or not self._match(
                        av, pv, b, rb, anys):
                    return False
            else:
                if pv != av:
                    return False
        return True

    def _try(self, a, p, commit=True) -> bool:
        b, rb, anys = dict(self.bind), dict(self.rbind), dict(self.anys)
        ok = self._match(a, p, b, rb, anys)
        if ok and commit:
            self.bind, self.rbind, self.anys = b, rb, anys
        return ok

    # --------------------------------------------------------------- API
    def eq(self, node, pattern: str, commit=True) -> bool:
        """Does expression/statement ``node`` match the pattern?"""
        if node is None:
            return False
        if isinstance(node, ast.stmt):
            ps = self._parse(pattern, "stmt")
            return len(ps) == 1 and self._try(node, ps[0], commit)
        return self._try(node, self._parse(pattern, "expr"), commit)

    def eq_any(self, node, patterns, commit=True) -> bool:
        return any(self.eq(node, p, commit) for p in patterns)

    def find_stmts(self, pattern: str, root=None, commit=True):
        """All statements under ``root`` (default: the function) matching
        the statement pattern; bindings of the first match are committed."""
        ps = self._parse(pattern, "stmt")
        assert len(ps) == 1
        out = []
        for n in ast.walk(root if root is not None else self.func.node):
            if isinstance(n, ast.stmt) and type(n) is type(ps[0]):
                if self._try(n, ps[0], commit=False):
                    out.append(n)
        if out and commit and len(out) == 1:
            self._try(out[0], ps[0], commit=True)
        return out

    def find_exprs(self, pattern: str, root=None):
        p = self._parse(pattern, "expr")
        out = []
        for n in ast.walk(root if root is not None else self.func.node):
            if isinstance(n, ast.expr) and type(n) is type(p):
                if self._try(n, p, commit=False):
                    out.append(n)
        return out

    def one_stmt(self, pattern: str, root=None):
        """The unique statement matching the pattern (bindings committed) or
        None."""
        r = self.find_stmts(pattern, root, commit=True)
        return r[0] if len(r) == 1 else None

    def body_eq(self, body, patterns, ignore_noops=True) -> bool:
        """A statement list equals the list of patterns (no-op statements
        such as 'x = None' of unused names, pass, docstrings ignored)."""
        stmts = [s for s in body if not self._is_noop(s)] if ignore_noops \
            else list(body)
        if len(stmts) != len(patterns):
            return False
        b, rb, anys = dict(self.bind), dict(self.rbind), dict(self.anys)
        for s, p in zip(stmts, patterns):
            ps = self._parse(p, "stmt")
            if len(ps) != 1 or not self._match(s, ps[0], b, rb, anys):
                return False
        self.bind, self.rbind, self.anys = b, rb, anys
        return True

    def _is_noop(self, s) -> bool:
        if isinstance(s, ast.Pass):
            return True
        if isinstance(s, ast.Expr) and isinstance(s.value, ast.Constant):
            return True
        if isinstance(s, ast.Assign) and len(s.targets) == 1 and isinstance(
                s.targets[0], ast.Name) and isinstance(
                    s.value, ast.Constant):
            # assignment of a constant to a name that is never read
            name = s.targets[0].id
            reads = [n for n in ast.walk(self.func.node)
                     if isinstance(n, ast.Name) and n.id == name
                     and isinstance(n.ctx, ast.Load)]
            return not reads
        if isinstance(s, ast.Expr) and isinstance(s.value, ast.Call):
            fn = ast.unparse(s.value.func)
            if fn.startswith("LOGGER.") or fn.startswith("logging."):
                return True
        return False

    def text(self, node) -> str:
        """unparse with bound actual names replaced by their pattern names
        (for messages and for comparisons written with today's names)."""
        class R(ast.NodeTransformer):
            def visit_Name(s, n):
                if n.id in self.rbind:
                    return ast.copy_location(
                        ast.Name(id=self.rbind[n.id], ctx=n.ctx), n)
                return n
        import copy
        return ast.unparse(R().visit(copy.deepcopy(node)))


def strip_noops(pm: PM, body):
    return [s for s in body if not pm._is_noop(s)]
