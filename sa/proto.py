"""Call-protocol helper: the calls of one function as terms, with the CFG
relations the lifecycle rules need (before / after / on every path).

Nothing here looks at source text: a call is identified by the *term* of the
callee and of its receiver (``self.writer.append_data(x)`` and
``w = self.writer; w.append_data(x)`` are the same call).
"""

from __future__ import annotations

import ast

from .cfg import CFG
from .core import walk_own
from .defuse import DefUse, Terms

SELF = ("param", "self")


class Calls:
    def __init__(self, prog, func, du=None, T=None, cfg=None):
        self.func = func
        self.du = du or DefUse(prog, func)
        self.T = T or Terms(self.du)
        self.cfg = cfg or CFG(func.node)
        self.items = []   # (term, call node)
        for n in walk_own(func.node):
            if isinstance(n, ast.Call):
                self.items.append((self.T.of(n), n))

    # ---- selection
    def where(self, pred):
        return [(t, n) for t, n in self.items if pred(t)]

    def mcalls(self, name, recv=None):
        """Method calls ``<recv>.name(...)``; recv=None accepts any."""
        return self.where(lambda t: t[0] == "mcall" and t[2] == name
                          and (recv is None or t[1] == recv))

    def calls(self, *qualnames):
        return self.where(lambda t: t[0] == "call" and t[1] in qualnames)

    # ---- CFG relations over sets of call items
    def _ids(self, items):
        return {self.cfg.node_of(n).id for _t, n in items}

    def on_every_path(self, items):
        """Every normal path entry -> exit executes one of the calls."""
        if not items:
            return False
        return self.cfg.every_path_passes(
            self.cfg.entry.id, self.cfg.exit.id, self._ids(items))

    def before(self, first, then):
        """Every path from the entry to each call in ``then`` executes one of
        ``first`` (statement granularity; within one statement the order of
        evaluation is the order of the source positions)."""
        if not first or not then:
            return False
        fi = self._ids(first)
        for _t, n in then:
            b = self.cfg.node_of(n).id
            if b in fi:
                if not any(_pos(m) < _pos(n) for _x, m in first
                           if self.cfg.node_of(m).id == b):
                    return False
                continue
            if not self.cfg.every_path_passes(self.cfg.entry.id, b, fi):
                return False
        return True

    def after(self, first, then):
        """Every normal path from each call in ``first`` to the exit executes
        one of ``then``."""
        if not first or not then:
            return False
        ti = self._ids(then)
        for _t, n in first:
            a = self.cfg.node_of(n).id
            if a in ti:
                if any(_pos(m) > _pos(n) for _x, m in then
                       if self.cfg.node_of(m).id == a):
                    continue
            if not self.cfg.every_path_passes(a, self.cfg.exit.id, ti):
                return False
        return True

    def in_finally_of_yield(self, items):
        """Each call sits in the ``finally`` of a try whose body yields."""
        for _t, n in items:
            tr = None
            cur = n
            while cur is not None:
                par = self.cfg.parent.get(id(cur))
                if isinstance(par, ast.Try) and any(
                        cur is s or _inside(cur, s) for s in par.finalbody):
                    tr = par
                    break
                cur = par
            if tr is None or not any(
                    isinstance(x, (ast.Yield, ast.YieldFrom))
                    for s in tr.body for x in ast.walk(s)):
                return False
        return bool(items)


def _pos(n):
    return (getattr(n, "lineno", 0), getattr(n, "col_offset", 0))


def _inside(node, root):
    return any(x is node for x in ast.walk(root))


def kwargs_of(t):
    """Keyword arguments of a call term as a dict (``**x`` under '**')."""
    kw = t[4] if t[0] == "mcall" else t[3]
    return dict(kw)


def args_of(t):
    return t[3] if t[0] == "mcall" else t[2]
