"""ALIGN: abstract interpretation of reconstructed value terms over a
row-alignment domain.

Every array value carries
  * a *row space*: a base ('In', group space, grid ...) followed by a word of
    operations  P(p) (indexed by permutation p), Pi(p) (by its inverse),
    R (reversed), M(m) (boolean-mask subset);
  * the *quantity* it holds (which input it is an element-wise image of);
  * monotonicity of its own values along the axis (INC / DEC / None) and a
    non-negativity bit.
Permutations created by ``argsort`` remember their key quantity and
direction, so that sortedness of a space can be read off its word.

The evaluator records *events* (cumsum, interp, misaligned operands, ...)
that the property rules inspect.  Anything it cannot interpret becomes
``Opaque``; an Opaque value that reaches a requirement is an AnalysisError in
the rule (never a silent pass).
"""

from __future__ import annotations

from .core import AnalysisError
from .defuse import show

NP = "numpy."


class AV:
    """abstract value"""
    kind = "opaque"


class Opaque(AV):
    kind = "opaque"

    def __init__(self, why=""):
        self.why = why

    def __repr__(self):
        return f"Opaque({self.why[:60]})"


class Scalar(AV):
    kind = "scalar"

    def __init__(self, const=None, has_const=False, positive=None):
        self.const = const
        self.has_const = has_const
        self.positive = positive

    def __repr__(self):
        return f"Scalar({self.const!r})" if self.has_const else "Scalar"


class Arr(AV):
    kind = "arr"

    def __init__(self, space, q=None, mono=None, nonneg=False, is_mask=False,
                 mkey=None, const=None, rank=False):
        self.space = norm_space(space)
        # running quantity of the row order (a cumulative sum is somewhere
        # in its history): equal keys do not imply equal values. Kept by
        # with_ and by arithmetic; constructors that do not know lose it
        # (towards "not known to be a running quantity")
        self.rank = rank
        self.q = q
        self.mono = mono
        self.nonneg = nonneg
        self.is_mask = is_mask
        self.mkey = mkey
        self.const = const  # constant fill value (ones_like...)

    def with_(self, **kw):
        d = dict(space=self.space, q=self.q, mono=self.mono,
                 nonneg=self.nonneg, is_mask=self.is_mask, mkey=self.mkey,
                 const=self.const, rank=self.rank)
        d.update(kw)
        return Arr(**d)

    def __repr__(self):
        return (f"Arr({fmt_space(self.space)}, q={self.q}, mono={self.mono}"
                f"{', mask' if self.is_mask else ''})")


class Perm(AV):
    kind = "perm"

    def __init__(self, pid, over, sortkey=None, direction=None, inverse=False,
                 special=None):
        self.pid = pid
        self.over = norm_space(over) if over is not None else None
        self.sortkey = sortkey
        self.direction = direction  # 'asc' | 'desc' | None
        self.inverse = inverse
        self.special = special  # 'identity' | 'reverse' | None

    def __repr__(self):
        return (f"Perm({self.pid}, {self.direction}, inv={self.inverse}, "
                f"{self.special})")


class TupleV(AV):
    kind = "tuple"

    def __init__(self, items):
        self.items = list(items)

    def __repr__(self):
        return f"TupleV({self.items})"


class ListV(AV):
    """homogeneous list of arrays (per-chunk pieces)"""
    kind = "list"

    def __init__(self, elem, origin=None):
        self.elem = elem
        self.origin = origin


# ------------------------------------------------------------------ spaces
def norm_space(space):
    base, ops = space
    out = []
    for op in ops:
        if out:
            top = out[-1]
            if op[0] == "R" and top[0] == "R":
                out.pop()
                continue
            if op[0] == "P" and top[0] == "Pi" and op[1] == top[1]:
                out.pop()
                continue
            if op[0] == "Pi" and top[0] == "P" and op[1] == top[1]:
                out.pop()
                continue
        out.append(op)
    return (base, tuple(out))


def fmt_space(space):
    base, ops = space
    s = str(base)
    for op in ops:
        if op[0] == "R":
            s += ".rev"
        elif op[0] == "P":
            s += f".perm[{op[1]}]"
        elif op[0] == "Pi":
            s += f".invperm[{op[1]}]"
        elif op[0] == "M":
            s += f".mask[{op[1]}]"
        else:
            s += f".{op}"
    return s


def same_space(a, b):
    return norm_space(a) == norm_space(b)


IN = ("In", ())
PERM_INFO: dict = {}  # pid -> (key string, direction)


class Events(list):
    def add(self, kind, **kw):
        self.append(dict(kind=kind, **kw))

    def of(self, kind):
        return [e for e in self if e["kind"] == kind]


ELEMENTWISE_UNARY = {
    NP + "array", NP + "asarray", NP + "abs", NP + "sqrt", NP + "log",
    NP + "log10", NP + "exp", NP + "ceil", NP + "floor", NP + "copy",
    NP + "logical_not", NP + "nan_to_num", NP + "float32", NP + "float64",
    NP + "squeeze", NP + "ravel", "builtins.float", NP + "isnan",
    NP + "round", NP + "around", NP + "rint", NP + "trunc", NP + "sign",
    NP + "square", NP + "negative", NP + "log2", NP + "log1p",
}
ELEMENTWISE_METHODS = {"astype", "copy", "flatten", "ravel", "round",
                       "to_numpy", "squeeze", "abs", "tolist", "reset_index"}
VALUE_ATTRS = {"values", "T", "array", "index"}
REDUCTIONS = {
    NP + "sum", NP + "min", NP + "max", NP + "median", NP + "mean",
    NP + "any", NP + "all", NP + "argmax", NP + "argmin", NP + "std",
    "builtins.len", "builtins.sum", "builtins.min", "builtins.max",
    "builtins.any", "builtins.all", NP + "array_equal", NP + "prod",
    NP + "issubdtype",
}
REDUCTION_METHODS = {"sum", "min", "max", "median", "mean", "any", "all",
                     "argmax", "argmin", "std", "idxmax", "item"}
ELEMENTWISE_BINARY = {
    NP + "divide", NP + "logical_and", NP + "logical_or", NP + "maximum",
    NP + "minimum", NP + "multiply", NP + "add", NP + "subtract",
    NP + "where", NP + "power", NP + "equal", NP + "greater", NP + "less",
}
LIKE = {NP + "ones_like": 1, NP + "zeros_like": 0, NP + "empty_like": None}
# one operation, two spellings (np.f(x, ...) / x.f(...))
_METHOD_FORMS = {"dot", "cumsum", "argsort", "nonzero", "astype"} | \
    ELEMENTWISE_METHODS | REDUCTION_METHODS
_FUNCTION_FORMS = {"clip", "flip", "cumsum", "argsort", "sqrt", "abs",
                   "round", "copy", "ravel", "squeeze", "negative", "square",
                   "sum", "min", "max", "mean", "any", "all", "argmax",
                   "argmin", "std", "prod", "median"}


class Align:
    def __init__(self, prog, env=None, sources=None, callee_summaries=None,
                 max_call_depth=4):
        self.prog = prog
        self.env = env or {}  # param name -> AV
        self.sources = sources or []  # [(predicate(term) -> AV|None)]
        self.summaries = callee_summaries or {}
        self.events = Events()
        self.rec_env: dict = {}
        self._memo: dict = {}
        self._fresh = 0
        self.max_call_depth = max_call_depth
        self._call_depth = 0
        self.keep = []  # keep terms alive for id()-memo

    # ------------------------------------------------------------- helpers
    def fresh(self, prefix):
        self._fresh += 1
        return f"{prefix}{self._fresh}"

    def issue(self, what, term, **kw):
        self.events.add("issue", what=what, term=show(term, 300), **kw)

    def ev(self, t):
        key = id(t)
        if key in self._memo:
            return self._memo[key]
        for src in self.sources:
            v = src(t)
            if v is not None:
                self._memo[key] = v
                self.keep.append(t)
                return v
        v = self._ev(t)
        self._memo[key] = v
        self.keep.append(t)
        return v

    # ------------------------------------------------------------ dispatch
    def _ev(self, t):
        k = t[0]
        if k == "param" or k == "lparam":
            if t[1] in self.env:
                return self.env[t[1]]
            return Opaque(f"parameter {t[1]} without abstract value")
        if k == "const":
            return Scalar(t[1], True)
        if k in ("name", "free"):
            return Opaque(f"name {t[1]}")
        if k == "phi":
            vals = [self.ev(x) for x in t[1]
                    if not (x[0] == "deleted")]
            return self._join(vals, t)
        if k == "rec":
            if t[1] in self.rec_env:
                return self.rec_env[t[1]]
            return Opaque(f"loop-carried {t[1]}")
        if k == "ifexp":
            tv = self._truth(t[1])
            if tv is True:
                return self.ev(t[2])
            if tv is False:
                return self.ev(t[3])
            return self._join([self.ev(t[2]), self.ev(t[3])], t)
        if k == "tuple" or k == "list":
            return TupleV([self.ev(x) for x in t[1]])
        if k == "item":
            base = self.ev(t[1])
            if isinstance(base, TupleV) and isinstance(t[2], int) and \
                    t[2] < len(base.items):
                return base.items[t[2]]
            return Opaque(f"item {t[2]} of {base!r}")
        if k == "attr":
            base = self.ev(t[1])
            if t[2] in VALUE_ATTRS and isinstance(base, (Arr, Perm)):
                return base
            if t[2] == "shape" and isinstance(base, Arr):
                return TupleV([Scalar(), Scalar()])
            if t[2] in ("dtype", "size", "ndim"):
                return Scalar()
            return Opaque(f"attribute .{t[2]} of {base!r}")
        if k == "un":
            v = self.ev(t[2])
            if isinstance(v, Arr):
                if t[1] == "-":
                    return v.with_(q=("neg", v.q),
                                   mono={"INC": "DEC", "DEC": "INC"}.get(
                                       v.mono), nonneg=False, const=None)
                if t[1] in ("~", "not"):
                    return v.with_(is_mask=True, mkey=("not", v.mkey or v.q),
                                   q=("not", v.q), mono=None, nonneg=True)
                return v
            if isinstance(v, Scalar):
                if v.has_const and t[1] == "-" and isinstance(
                        v.const, (int, float)):
                    return Scalar(-v.const, True)
                if v.has_const and t[1] == "not":
                    return Scalar(not v.const, True)
                return Scalar()
            return v
        if k == "bin":
            return self._binop(t, t[1], self.ev(t[2]), self.ev(t[3]))
        if k == "cmp":
            a, b = self.ev(t[2]), self.ev(t[3])
            arrs = [x for x in (a, b) if isinstance(x, Arr)]
            if arrs:
                self.events.add("arith", op=t[1], operands=[a, b],
                                term=show(t, 160))
            if len(arrs) == 2 and not same_space(a.space, b.space):
                self.issue("comparison of arrays from different row spaces: "
                           f"{fmt_space(a.space)} vs {fmt_space(b.space)}", t)
            if arrs:
                return Arr(arrs[0].space, q=("cmp", show(t, 120)),
                           is_mask=True, mkey=_strip_key(t), nonneg=True)
            if all(isinstance(x, Scalar) for x in (a, b)):
                return Scalar()
            return Opaque(f"comparison {show(t, 80)}")
        if k == "bool":
            vals = [self.ev(x) for x in t[2]]
            arrs = [x for x in vals if isinstance(x, Arr)]
            if arrs:
                return arrs[0].with_(q=("bool", show(t, 120)))
            return Scalar()
        if k == "sub":
            # result[i] of a tuple-valued expression is item i
            if t[2][0] == "const" and isinstance(t[2][1], int) and \
                    not isinstance(t[2][1], bool):
                base = self.ev(t[1])
                if isinstance(base, TupleV):
                    i = t[2][1]
                    if -len(base.items) <= i < len(base.items):
                        return base.items[i]
                    return Opaque(f"item {i} of {base!r}")
            return self._subscript(t)
        if k == "call":
            return self._call(t, t[1], list(t[2]), dict(t[3]))
        if k == "mcall":
            return self._mcall(t)
        if k == "store":
            prev = self.ev(t[1])
            idx = self.ev(t[2])
            val = self.ev(t[3])
            if isinstance(prev, Arr):
                if isinstance(idx, Arr) and idx.is_mask:
                    if not same_space(idx.space, prev.space):
                        self.issue(
                            "mask assignment with a mask from another row "
                            f"space: target {fmt_space(prev.space)}, mask "
                            f"{fmt_space(idx.space)}", t)
                    if isinstance(val, Arr):
                        want = norm_space((prev.space[0], prev.space[1] + (
                            ("M", idx.mkey),)))
                        if not same_space(val.space, want):
                            self.issue("masked assignment of a misaligned "
                                       "array", t)
                elif isinstance(idx, Perm):
                    # scatter  out[p] = v  (v in S.P(p)  ->  out in S)
                    if isinstance(val, Arr):
                        want = _apply_perm(prev.space, idx)
                        if not same_space(val.space, want):
                            self.issue("scatter assignment of a misaligned "
                                       "array", t)
                    self.events.add("scatter", value=val, perm=idx,
                                    term=show(t, 200))
                return prev.with_(mono=None, const=None)
            return prev
        if k == "mut":
            return self.ev(t[1])
        if k == "comp":
            return Opaque("comprehension")
        if k in ("elem", "zipelem", "idx", "key", "value"):
            return Opaque(f"{k} {show(t, 60)}")
        if k == "callv":
            return Opaque(f"indirect call {show(t, 60)}")
        if k == "unknown":
            return Opaque(t[1])
        return Opaque(k)

    def _truth(self, t):
        """Static truth of a test term where decidable (None otherwise)."""
        if t[0] == "cmp" and t[1] in ("is", "is not") and \
                t[3] == ("const", None):
            v = self.ev(t[2])
            if isinstance(v, Scalar) and v.has_const:
                r = v.const is None
            elif isinstance(v, (Arr, Perm, TupleV)):
                r = False
            else:
                return None
            return r if t[1] == "is" else (not r)
        if t[0] == "const":
            return bool(t[1])
        if t[0] == "un" and t[1] == "not":
            r = self._truth(t[2])
            return None if r is None else (not r)
        return None

    # --------------------------------------------------------------- joins
    def _join(self, vals, t):
        vals = [v for v in vals if v is not None]
        if not vals:
            return Opaque("empty phi")
        first = vals[0]
        for v in vals[1:]:
            if not self._same(first, v):
                arrs = [x for x in vals if isinstance(x, Arr)]
                if len(arrs) >= 2 and any(
                        not same_space(arrs[0].space, a.space)
                        for a in arrs[1:]):
                    self.issue(
                        "value reaches this point in different row spaces on "
                        "different paths: " + " / ".join(
                            sorted({fmt_space(a.space) for a in arrs})), t)
                    return arrs[0]
                # same space, different facts: weaken
                if len(arrs) == len(vals):
                    a0 = arrs[0]
                    mono = a0.mono if all(a.mono == a0.mono
                                          for a in arrs) else None
                    q = a0.q if all(a.q == a0.q for a in arrs) else (
                        "phi", show(t, 80))
                    return a0.with_(mono=mono, q=q, nonneg=all(
                        a.nonneg for a in arrs), const=None)
                if all(isinstance(x, Scalar) for x in vals):
                    return Scalar()
                if all(isinstance(x, Perm) for x in vals):
                    if all(x.special == "identity" or x.pid == first.pid
                           for x in vals):
                        pass
                    return Opaque("phi of different permutations")
                non_opaque = [x for x in vals if not isinstance(x, Opaque)]
                if len(non_opaque) == 1 and False:
                    return non_opaque[0]
                return Opaque("phi of different kinds: " +
                              ", ".join(repr(x)[:40] for x in vals))
        return first

    def _same(self, a, b):
        if type(a) is not type(b):
            return False
        if isinstance(a, Arr):
            return (same_space(a.space, b.space) and a.q == b.q
                    and a.mono == b.mono and a.is_mask == b.is_mask)
        if isinstance(a, Scalar):
            return a.has_const == b.has_const and a.const == b.const
        if isinstance(a, Perm):
            return (a.pid == b.pid and a.inverse == b.inverse
                    and a.special == b.special)
        if isinstance(a, TupleV):
            return len(a.items) == len(b.items) and all(
                self._same(x, y) for x, y in zip(a.items, b.items))
        return False

    # ----------------------------------------------------------- operators
    def _binop(self, t, op, a, b):
        if isinstance(a, Arr) or isinstance(b, Arr):
            self.events.add("arith", op=op, operands=[a, b],
                            term=show(t, 160))
        if isinstance(a, Arr) and isinstance(b, Arr):
            if not same_space(a.space, b.space):
                self.issue("element-wise operation on arrays from different "
                           f"row spaces: {fmt_space(a.space)} vs "
                           f"{fmt_space(b.space)}", t)
            mono = None
            if op == "+" and a.mono == b.mono:
                mono = a.mono
            nonneg = a.nonneg and b.nonneg and op in ("+", "*", "/")
            return Arr(a.space, q=("expr", show(t, 160)), mono=mono,
                       nonneg=nonneg, rank=a.rank or b.rank)
        if isinstance(a, Arr) or isinstance(b, Arr):
            arr, sc = (a, b) if isinstance(a, Arr) else (b, a)
            if isinstance(sc, (Opaque, TupleV)) and not isinstance(
                    sc, Scalar):
                if isinstance(sc, Opaque):
                    # scalar-like unknown (e.g. attribute of self)
                    sc = Scalar()
                else:
                    return Opaque(f"binary {op} with {sc!r}")
            mono = arr.mono
            nonneg = False
            arr_left = isinstance(a, Arr)
            if op in ("+",):
                nonneg = arr.nonneg and (sc.has_const and isinstance(
                    sc.const, (int, float)) and sc.const >= 0)
            elif op == "-":
                if not arr_left:
                    mono = {"INC": "DEC", "DEC": "INC"}.get(arr.mono)
            elif op in ("*", "/"):
                pos = sc.positive or (sc.has_const and isinstance(
                    sc.const, (int, float)) and sc.const > 0)
                if not pos:
                    if sc.has_const and isinstance(sc.const, (int, float)) \
                            and sc.const < 0:
                        mono = {"INC": "DEC", "DEC": "INC"}.get(arr.mono)
                    else:
                        # sign unknown: assume positive scale (recorded)
                        self.events.add("assume-positive-scale",
                                        term=show(t, 120))
                if op == "/" and not arr_left:
                    mono = {"INC": "DEC", "DEC": "INC"}.get(arr.mono)
                nonneg = arr.nonneg and bool(pos)
            elif op == "**":
                mono = None
                nonneg = (sc.has_const and sc.const == 2) or arr.nonneg
            else:
                mono = None
            return Arr(arr.space, q=("expr", show(t, 160)), mono=mono,
                       nonneg=nonneg, rank=arr.rank)
        if isinstance(a, Scalar) and isinstance(b, Scalar):
            if a.has_const and b.has_const:
                try:
                    import operator
                    f = {"+": operator.add, "-": operator.sub,
                         "*": operator.mul, "/": operator.truediv,
                         "//": operator.floordiv, "%": operator.mod,
                         "**": operator.pow}.get(op)
                    if f is not None:
                        return Scalar(f(a.const, b.const), True)
                except Exception:  # noqa: BLE001
                    pass
            return Scalar()
        if op == "@":
            # matrix @ vector keeps the vector's row space (square matrices)
            for x in (b, a):
                if isinstance(x, Arr):
                    return Arr(x.space, q=("expr", show(t, 120)))
        if isinstance(a, Scalar) or isinstance(b, Scalar):
            return Opaque(f"binary {op} on {a!r}, {b!r}")
        return Opaque(f"binary {op} on {a!r}, {b!r}")

    def _subscript(self, t):
        base = self.ev(t[1])
        idx_t = t[2]
        # x[i, :] -> row index is the first component
        if idx_t[0] == "tuple" and idx_t[1]:
            rest = idx_t[1][1:]
            if all(r[0] == "slice" and r[1:] == (("const", None),) * 3
                   for r in rest):
                idx_t = idx_t[1][0]
            elif idx_t[1][0][0] == "slice" and idx_t[1][0][1:] == (
                    ("const", None),) * 3:
                # x[:, j] column selection keeps the row space
                if isinstance(base, Arr):
                    return base.with_(q=("col", show(t, 80)), mono=None)
                return Opaque("column selection of non-array")
        if isinstance(base, TupleV):
            if idx_t[0] == "const" and isinstance(idx_t[1], int):
                i = idx_t[1]
                if -len(base.items) <= i < len(base.items):
                    return base.items[i]
            return Opaque("tuple subscript")
        if idx_t[0] == "slice":
            lo, hi, st = idx_t[1], idx_t[2], idx_t[3]
            if lo == ("const", None) and hi == ("const", None):
                if st == ("const", -1):
                    return self._flip(base)
                if st == ("const", None):
                    return base
            if isinstance(base, Arr) and isinstance(base.space[0], tuple) \
                    and base.space[0][0] == "edges" and not base.space[1] \
                    and st == ("const", None) and (lo, hi) in (
                        (("const", None), ("const", -1)),
                        (("const", 1), ("const", None))):
                # lower / upper edges of histogram bins: one value per bin
                return Arr((("hist", base.space[0][1]), ()), q=("edge",),
                           mono=base.mono)
            if isinstance(base, Arr):
                return Arr((("slice", show(t, 80)), ()), q=base.q,
                           mono=base.mono, nonneg=base.nonneg)
            return Opaque("slice of non-array")
        idx = self.ev(idx_t)
        if isinstance(base, Arr):
            if isinstance(idx, Perm):
                if idx.special == "identity":
                    return base
                if idx.special == "reverse":
                    return self._flip(base)
                if not idx.inverse and idx.over is not None and \
                        not same_space(idx.over, base.space):
                    self.issue(
                        "permutation applied to an array that is not in the "
                        "row space it was computed for: array "
                        f"{fmt_space(base.space)}, permutation over "
                        f"{fmt_space(idx.over)}", t)
                if idx.inverse:
                    ops = base.space[1]
                    if not (ops and ops[-1] == ("P", idx.pid)):
                        self.issue(
                            "inverse permutation applied to an array that "
                            "was not permuted by it: array "
                            f"{fmt_space(base.space)}", t)
                mono = None
                if idx.sortkey is not None and idx.sortkey == base.q and \
                        not idx.inverse:
                    mono = "INC" if idx.direction == "asc" else "DEC"
                elif idx.sortkey is not None and ("neg", idx.sortkey) == \
                        base.q and not idx.inverse:
                    mono = "DEC" if idx.direction == "asc" else "INC"
                return base.with_(space=_apply_perm(base.space, idx),
                                  mono=mono, const=None)
            if isinstance(idx, Arr) and idx.is_mask:
                if not same_space(idx.space, base.space):
                    self.issue(
                        "boolean mask from a different row space: array "
                        f"{fmt_space(base.space)}, mask "
                        f"{fmt_space(idx.space)}", t)
                return base.with_(space=(base.space[0], base.space[1] + (
                    ("M", idx.mkey),)))
            if isinstance(idx, Scalar):
                return Scalar()
            if isinstance(idx, Arr):
                # integer index array that is not a tracked permutation
                return Arr((("gather", show(t, 80)), ()), q=base.q)
            return Opaque(f"subscript by {idx!r}")
        if isinstance(base, Perm):
            if isinstance(idx, Perm) and idx.special == "identity":
                return base
            return Opaque("indexing a permutation")
        return Opaque(f"subscript of {base!r}")

    def _flip(self, v):
        if isinstance(v, Arr):
            return v.with_(space=(v.space[0], v.space[1] + (("R",),)),
                           mono={"INC": "DEC", "DEC": "INC"}.get(v.mono))
        if isinstance(v, Perm):
            if v.special == "identity":
                return Perm("rev", v.over, special="reverse")
            if v.special == "reverse":
                return Perm("id", v.over, special="identity")
            return Opaque("flip of a permutation")
        return Opaque(f"flip of {v!r}")

    # ---------------------------------------------------------------- calls
    def _arg(self, args, kwargs, i, name=None):
        if i is not None and i < len(args):
            return args[i]
        if name and name in kwargs:
            return kwargs[name]
        return None

    def _call(self, t, fname, args, kwargs):
        a0t = self._arg(args, kwargs, 0)
        if fname in ELEMENTWISE_UNARY:
            v = self.ev(a0t) if a0t is not None else Opaque("no arg")
            if isinstance(v, Arr) and fname not in (
                    NP + "array", NP + "asarray", NP + "copy",
                    NP + "float32", NP + "float64", NP + "squeeze",
                    NP + "ravel", "builtins.float"):
                mono = v.mono if fname in (
                    NP + "sqrt", NP + "log", NP + "log10", NP + "exp",
                    NP + "ceil", NP + "floor") else None
                return v.with_(q=("expr", show(t, 120)), mono=mono,
                               const=None)
            return v
        if fname in LIKE:
            v = self.ev(a0t)
            if isinstance(v, Arr):
                return Arr(v.space, q=("const", LIKE[fname]),
                           const=LIKE[fname], nonneg=True)
            return Opaque("like of non-array")
        if fname in (NP + "ones", NP + "zeros", NP + "empty", NP + "full"):
            # np.ones(len(x)) -> constant array over the space of x
            n = a0t
            sp = self._len_space(n)
            const = {NP + "ones": 1, NP + "zeros": 0}.get(fname)
            if sp is not None:
                return Arr(sp, q=("const", const), const=const, nonneg=True)
            return Arr((("fresh", show(t, 60)), ()), q=("const", const),
                       const=const)
        if fname in REDUCTIONS:
            for a in args:
                self.ev(a)
            return Scalar()
        if fname == NP + "clip":
            v = self.ev(a0t)
            lo = self.ev(args[1]) if len(args) > 1 else None
            hi = self.ev(args[2]) if len(args) > 2 else None
            self.events.add("clip", term=show(t, 160), lo=lo, hi=hi)
            if isinstance(v, Arr):
                nonneg = v.nonneg or (isinstance(lo, Scalar) and lo.has_const
                                      and isinstance(lo.const, (int, float))
                                      and lo.const >= 0)
                return v.with_(q=("clip", v.q), nonneg=nonneg)
            return v
        if fname in ELEMENTWISE_BINARY:
            vals = [self.ev(a) for a in args]
            for kw in ("out", "where"):
                if kw in kwargs:
                    vals.append(self.ev(kwargs[kw]))
            arrs = [v for v in vals if isinstance(v, Arr)]
            if not arrs:
                return Scalar() if all(isinstance(v, Scalar) for v in vals) \
                    else Opaque(f"{fname} of non-arrays")
            for a in arrs[1:]:
                if not same_space(a.space, arrs[0].space):
                    self.issue(
                        f"{fname.replace(NP, 'np.')} on arrays from "
                        f"different row spaces: {fmt_space(arrs[0].space)} "
                        f"vs {fmt_space(a.space)}", t)
            self.events.add("elementwise", fn=fname, term=show(t, 200),
                            operands=vals)
            return Arr(arrs[0].space, q=("expr", show(t, 160)),
                       nonneg=all(a.nonneg for a in arrs)
                       and fname in (NP + "divide", NP + "maximum",
                                     NP + "minimum", NP + "multiply",
                                     NP + "add", NP + "logical_and",
                                     NP + "logical_or"))
        if fname == NP + "argsort":
            return self._argsort(t, a0t)
        if fname == NP + "flip":
            return self._flip(self.ev(a0t))
        if fname == NP + "cumsum":
            return self._cumsum(t, self.ev(a0t))
        if fname == NP + "maximum.accumulate":
            v = self.ev(a0t)
            self.events.add("accumulate", which="max", operand=v,
                            term=show(t, 160))
            return v.with_(mono="INC", q=("acc", v.q)) if isinstance(
                v, Arr) else Opaque("accumulate of non-array")
        if fname == NP + "minimum.accumulate":
            v = self.ev(a0t)
            self.events.add("accumulate", which="min", operand=v,
                            term=show(t, 160))
            return v.with_(mono="DEC", q=("acc", v.q)) if isinstance(
                v, Arr) else Opaque("accumulate of non-array")
        if fname == NP + "unique":
            v = self.ev(a0t)
            if not isinstance(v, Arr):
                return Opaque("unique of non-array")
            gspace = (("G", fmt_space(v.space), _qstr(v.q)), ())
            vals = Arr(gspace, q=v.q, mono="INC")
            outs = [vals]
            self.events.add("unique", operand=v, term=show(t, 160))
            for kw in ("return_index", "return_inverse", "return_counts"):
                c = kwargs.get(kw)
                if c is not None and c == ("const", True):
                    outs.append(Arr(gspace, q=(kw, str(v.q)),
                                    nonneg=True))
            return TupleV(outs) if len(outs) > 1 else vals
        if fname == NP + "interp":
            return self._interp(t, args, kwargs)
        if fname in (NP + "hstack", NP + "concatenate"):
            v = self.ev(a0t)
            return Arr((("cat", show(a0t, 80)), ()), q=("cat",)) \
                if not isinstance(v, Arr) else v
        if fname == NP + "arange":
            if len(args) == 1:
                sp = self._len_space(args[0])
                return Perm("id", sp, special="identity")
            if len(args) >= 2 and args[0] == ("const", 1):
                # arange(1, len(x) + 1): ranks of x, however the end is
                # spelled (1 + len(x), len(x) - (-1) ...)
                from .tutil import lin as _lin
                d = _lin(args[1])
                if d.const == 1 and len(d.atoms) == 1 and \
                        next(iter(d.atoms.values())) == 1:
                    atom = next(iter(d.terms.values()), None) if \
                        d.terms else None
                    sp = self._len_space(atom) if atom is not None else None
                    if sp is not None:
                        return Arr(sp, q=("rank",), mono="INC", nonneg=True)
            return Arr((("range", show(t, 80)), ()), q=("range",),
                       mono="INC", nonneg=True)
        if fname == NP + "linspace":
            # ascending only when the end points are ordered by
            # construction: (min(x), max(x)) or increasing constants
            lo = args[0] if args else kwargs.get("start")
            hi = args[1] if len(args) > 1 else kwargs.get("stop")
            mono = None

            def red(x):
                c = x if x is None else (
                    (x[1].replace(NP, ""), x[2]) if x[0] == "call" else
                    (x[2], (x[1],) + tuple(x[3])) if x[0] == "mcall"
                    else None)
                return c

            rl, rh = red(lo), red(hi)
            if rl and rh and rl[0].split(".")[-1] == "min" and \
                    rh[0].split(".")[-1] == "max" and rl[1][:1] == rh[1][:1]:
                mono = "INC"
            elif lo is not None and hi is not None and lo[0] == "const" \
                    and hi[0] == "const" and isinstance(
                        lo[1], (int, float)) and isinstance(
                            hi[1], (int, float)) and lo[1] < hi[1]:
                mono = "INC"
            return Arr((("grid", show(t, 100)), ()), q=("grid",),
                       mono=mono)
        if fname == NP + "histogram":
            bins = kwargs.get("bins") or (args[1] if len(args) > 1 else None)
            gs = (("hist", show(bins, 80) if bins else "?"), ())
            self.ev(a0t)
            return TupleV([Arr(gs, q=("hist", show(a0t, 80)), nonneg=True),
                           Arr((("edges", gs[0][1]), ()), q=("edges",),
                               mono="INC")])
        if fname == NP + "histogram_bin_edges":
            return Arr((("edges", show(t, 80)), ()), q=("edges",),
                       mono="INC")
        if fname == "scipy.optimize.nnls":
            b = self.ev(args[1]) if len(args) > 1 else Opaque("nnls b")
            sp = b.space if isinstance(b, Arr) else (("nnls",), ())
            self.events.add("nnls", term=show(t, 160),
                            kwargs=sorted(kwargs))
            return TupleV([Arr(sp, q=("nnls",), nonneg=True), Scalar()])
        if fname in (NP + "tril", NP + "diag", NP + "sqrt"):
            v = self.ev(a0t)
            if fname == NP + "diag" and isinstance(v, Arr):
                return Arr(v.space, q=("diag", v.q))
            return Opaque("matrix")
        if fname == NP + "mean":
            return Scalar()
        if fname == "builtins.list" or fname == "builtins.tuple":
            return self.ev(a0t) if a0t is not None else Opaque("list()")
        if fname == "builtins.range":
            return Opaque("range")
        # repo callee ------------------------------------------------------
        if fname in self.summaries:
            return self.summaries[fname](self, t, args, kwargs)
        if fname.startswith("mokapot."):
            return self._interp_callee(t, fname, args, kwargs)
        # np.f(x, ...) spelled as a function where the rules above know the
        # method x.f(...): same operation
        if fname in (NP + "matmul", NP + "dot") and len(args) == 2:
            return self._mcall(("mcall", args[0], "dot", (args[1],), ()))
        if fname.startswith(NP) and args and not getattr(
                self, "_xdispatch", False):
            meth = fname[len(NP):]
            if meth in _METHOD_FORMS:
                self._xdispatch = True
                try:
                    return self._mcall(("mcall", args[0], meth,
                                        tuple(args[1:]),
                                        tuple(sorted(kwargs.items()))))
                finally:
                    self._xdispatch = False
        return Opaque(f"call {fname}")

    def _len_space(self, n):
        """Row space denoted by a length expression len(x) / x.shape[0]."""
        if n is None:
            return None
        if n[0] == "call" and n[1] == "builtins.len" and n[2]:
            v = self.ev(n[2][0])
            if isinstance(v, Arr):
                if any(op[0] == "M" for op in v.space[1]):
                    return v.space
                return (v.space[0], ())
        if n[0] == "sub" and n[1][0] == "attr" and n[1][2] == "shape":
            v = self.ev(n[1][1])
            if isinstance(v, Arr):
                return (v.space[0], tuple(
                    op for op in v.space[1] if op[0] == "M"))
        return None

    def _argsort(self, t, a0t):
        v = self.ev(a0t)
        if isinstance(v, Perm):
            if v.special == "identity":
                return v
            return Perm(v.pid, v.over, v.sortkey, v.direction,
                        inverse=not v.inverse, special=v.special)
        if isinstance(v, Arr):
            q = v.q
            direction = "asc"
            if isinstance(q, tuple) and q and q[0] == "neg":
                q = q[1]
                direction = "desc"
            self.events.add("argsort", key=q, direction=direction,
                            over=v.space, term=show(t, 160))
            return make_sort_perm(q, direction, v.space)
        return Opaque(f"argsort of {v!r}")

    def _cumsum(self, t, v):
        self.events.add("cumsum", operand=v, term=show(t, 200))
        if isinstance(v, Arr):
            return v.with_(q=("cumsum", v.q), rank=True,
                           mono="INC" if v.nonneg or v.is_mask else None,
                           nonneg=v.nonneg or v.is_mask, is_mask=False,
                           const=None)
        return Opaque("cumsum of non-array")

    def _interp(self, t, args, kwargs):
        q = self.ev(args[0]) if args else Opaque("interp x")
        xp = self.ev(args[1]) if len(args) > 1 else Opaque("interp xp")
        fp = self.ev(args[2]) if len(args) > 2 else Opaque("interp fp")
        self.events.add("interp", x=q, xp=xp, fp=fp, term=show(t, 240))
        if isinstance(q, Arr):
            mono_fn = None
            if isinstance(fp, Arr):
                mono_fn = fp.mono
            return Arr(q.space, q=("interp", q.q, mono_fn),
                       nonneg=isinstance(fp, Arr) and fp.nonneg)
        return Opaque("interp of non-array")

    def _mcall(self, t):
        base_t, meth, args, kwargs = t[1], t[2], list(t[3]), dict(t[4])
        # declared summaries for methods on parameters (psms._update_labels)
        key = "." + meth
        if key in self.summaries:
            r = self.summaries[key](self, t, base_t, args, kwargs)
            if r is not None:
                return r
        # np.maximum.accumulate spelled through attribute on a name
        if base_t[0] == "name":
            full = f"{base_t[1]}.{meth}"
            return self._call(t, full, args, kwargs)
        base = self.ev(base_t)
        if meth == "astype" and args and args[0] in (
                ("free", "bool"), ("name", "builtins.bool"),
                ("name", "numpy.bool_")) and isinstance(base, Arr):
            return base.with_(is_mask=True, mkey=_strip_key(t))
        if meth in ELEMENTWISE_METHODS:
            if isinstance(base, Arr) and meth in ("round", "abs"):
                return base.with_(q=("expr", show(t, 100)))
            return base
        if meth in REDUCTION_METHODS:
            return Scalar()
        if meth == "cumsum":
            return self._cumsum(t, base)
        if meth == "argsort":
            return self._argsort(t, base_t)
        if meth in ("dot",):
            v = self.ev(args[0]) if args else None
            if isinstance(v, Arr):
                if isinstance(base, Arr) and not same_space(
                        base.space, v.space):
                    self.issue(
                        "diagonal weights and the vector they multiply are "
                        f"in different row spaces: {fmt_space(base.space)} "
                        f"vs {fmt_space(v.space)}", t)
                return Arr(v.space, q=("expr", show(t, 100)))
            return Opaque("dot")
        if meth == "nonzero":
            return TupleV([Opaque("nonzero indices")])
        if meth == "permutation":
            v = self.ev(args[0]) if args else None
            if isinstance(v, Perm) and v.special == "identity":
                pid = self.fresh("rand")
                self.events.add("random-permutation", over=v.over,
                                term=show(t, 120))
                return Perm(pid, v.over)
            return Opaque("permutation of non-arange")
        if meth == "pdf" and args:
            v = self.ev(args[0])
            if isinstance(v, Arr):
                return Arr(v.space, q=("pdf", show(base_t, 60)),
                           nonneg=True)
        if meth in ("fit_transform", "transform", "decision_function",
                    "predict", "predict_proba") and args:
            v = self.ev(args[0])
            if isinstance(v, Arr):
                return Arr(v.space, q=("model", meth, show(base_t, 60)))
        if meth == "sum" or meth == "mean":
            return Scalar()
        # x.f(...) where the rules above know the function np.f(x, ...)
        if meth in _FUNCTION_FORMS and not getattr(
                self, "_xdispatch", False):
            self._xdispatch = True
            try:
                return self._call(t, NP + meth, [base_t] + args, kwargs)
            finally:
                self._xdispatch = False
        return Opaque(f"method .{meth} on {base!r}")

    # ------------------------------------------------ callee interpretation
    def _interp_callee(self, t, fname, args, kwargs):
        from .defuse import DefUse, Terms, specialise, is_never_reassigned
        prog = self.prog
        f = prog.funcs.get(fname)
        if f is None:
            return Opaque(f"unknown repo callee {fname}")
        if self._call_depth >= self.max_call_depth:
            return Opaque(f"call depth exceeded at {fname}")
        params = [p for p in f.params if not p.startswith("*")]
        if f.cls is not None and params and params[0] in ("self", "cls"):
            params = params[1:]
        bound_t = {}
        for i, a in enumerate(args):
            if i < len(params):
                bound_t[params[i]] = a
        for k, v in kwargs.items():
            bound_t[k] = v
        env = {}
        flags = {}
        for p in params:
            if p in bound_t:
                v = self.ev(bound_t[p])
            elif p in f.defaults():
                from .core import const_value
                d = f.defaults()[p]
                import ast as _ast
                if isinstance(d, _ast.Constant):
                    v = Scalar(d.value, True)
                else:
                    v = Scalar()
            else:
                v = Opaque(f"unbound parameter {p}")
            env[p] = v
            if isinstance(v, Scalar) and v.has_const and (
                    isinstance(v.const, bool) or v.const is None):
                flags[p] = v.const
            elif isinstance(v, (Arr, Perm, TupleV)):
                flags[p] = NOT_NONE
        fnode = specialise(f.node, flags) if flags else f.node
        du = DefUse(prog, f, fnode)
        terms = Terms(du)
        sub = Align(prog, env, self.sources, self.summaries,
                    self.max_call_depth)
        sub._call_depth = self._call_depth + 1
        sub.events = self.events
        rets = [sub.ev(rt) for _n, rt in terms.returns()]
        self.keep.append((du, terms, sub))
        self.events.add("callee", name=fname, flags=dict(flags),
                        returns=[repr(r) for r in rets])
        if not rets:
            return Opaque(f"{fname} returns nothing")
        return sub._join(rets, t) if len(rets) > 1 else rets[0]


def make_sort_perm(q, direction, over):
    pid = f"argsort({'-' if direction == 'desc' else ''}{_qstr(q)})" \
          f"@{fmt_space(over)}"
    PERM_INFO[pid] = (_qstr(q), direction)
    return Perm(pid, over, sortkey=q, direction=direction)


class NotNone:
    """flag value for 'parameter is bound to a non-None value'"""

    def __repr__(self):
        return "<not None>"


NOT_NONE = NotNone()


def _apply_perm(space, p: Perm):
    base, ops = space
    if p.special == "identity":
        return space
    if p.special == "reverse":
        return norm_space((base, ops + (("R",),)))
    op = ("Pi", p.pid) if p.inverse else ("P", p.pid)
    return norm_space((base, ops + (op,)))


def _qstr(q):
    if isinstance(q, tuple):
        if q and q[0] == "param":
            return q[1]
        return "(" + ",".join(_qstr(x) for x in q) + ")"
    return str(q)


def _strip_key(t):
    """Canonical key of a mask term: element-wise conversions removed."""
    while True:
        if t[0] == "call" and t[1] in (NP + "array", NP + "asarray") and t[2]:
            t = t[2][0]
            continue
        if t[0] == "mcall" and t[2] in ("astype", "copy", "to_numpy") :
            t = t[1]
            continue
        if t[0] == "attr" and t[2] == "values":
            t = t[1]
            continue
        break
    return show(t, 300)


def sorted_dir(space):
    """(sort key, 'asc'|'desc') the rows of ``space`` are known to be
    arranged by, or None.  Read off the last sort permutation in the word,
    toggled by every reversal after it; masks keep the arrangement."""
    base, ops = space
    last = None
    for i, op in enumerate(ops):
        if op[0] == "P" and op[1] in PERM_INFO:
            last = i
        elif op[0] in ("P", "Pi"):
            last = None
    if last is None:
        if isinstance(base, tuple) and base and base[0] == "G":
            # groups of np.unique: ascending by the grouped quantity
            key, d = base[2], "asc"
            for op in ops:
                if op[0] == "R":
                    d = "desc" if d == "asc" else "asc"
                elif op[0] != "M":
                    return None
            return (key, d)
        return None
    key, d = PERM_INFO[ops[last][1]]
    for op in ops[last + 1:]:
        if op[0] == "R":
            d = "desc" if d == "asc" else "asc"
        elif op[0] == "M":
            continue
        else:
            return None
    return (key, d)


def require_known(v, what):
    if isinstance(v, Opaque):
        raise AnalysisError(f"{what}: value not interpretable ({v.why})")
    return v
