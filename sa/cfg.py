"""Statement-level control-flow graph for the statement kinds the repository
uses, with the path queries the rules need.

Exceptional flow: an explicit ``raise`` goes to the enclosing handlers (or
the RAISE exit); every statement inside a ``try`` body may also jump to each
of its handlers / its ``finally``.  Implicit exceptions outside ``try`` blocks
are not modelled (rules talk about *normal* paths plus explicit raises).
"""

from __future__ import annotations

import ast


class Node:
    __slots__ = ("id", "kind", "stmt", "succ", "pred", "label")

    def __init__(self, id, kind, stmt=None, label=""):
        self.id = id
        self.kind = kind  # entry exit raise stmt test iter with handler
        self.stmt = stmt
        self.succ: set[int] = set()
        self.pred: set[int] = set()
        self.label = label

    def __repr__(self):
        ln = getattr(self.stmt, "lineno", "")
        return f"<{self.id}:{self.kind}@{ln}>"


class CFG:
    def __init__(self, fnode):
        self.fnode = fnode
        self.nodes: list[Node] = []
        self.entry = self._new("entry")
        self.exit = self._new("exit")
        self.raise_exit = self._new("raise")
        self.branches: dict[int, tuple] = {}  # id(If/While) -> (then, else)
        self.exc_edges: set = set()   # (node, handler/raise) may-raise edges
        self.of_stmt: dict[int, Node] = {}  # id(ast stmt) -> header node
        self.parent: dict[int, ast.AST] = {}
        self._index_parents(fnode)
        body = fnode.body if not isinstance(fnode, ast.Lambda) else []
        ctx = _Ctx(raise_targets=[self.raise_exit.id], return_target=self.exit.id)
        out = self._seq(body, {self.entry.id}, ctx)
        for n in out:
            self._edge(n, self.exit.id)

    # ------------------------------------------------------------ building
    def _new(self, kind, stmt=None, label=""):
        n = Node(len(self.nodes), kind, stmt, label)
        self.nodes.append(n)
        return n

    def _edge(self, a: int, b: int):
        self.nodes[a].succ.add(b)
        self.nodes[b].pred.add(a)

    def _index_parents(self, root):
        for node in ast.walk(root):
            for ch in ast.iter_child_nodes(node):
                self.parent[id(ch)] = node

    def _stmt_node(self, kind, stmt, preds):
        n = self._new(kind, stmt)
        self.of_stmt.setdefault(id(stmt), n)
        for p in preds:
            self._edge(p, n.id)
        return n

    def _seq(self, stmts, preds: set[int], ctx: "_Ctx") -> set[int]:
        cur = set(preds)
        for st in stmts:
            if not cur:
                # unreachable code still gets nodes (so anchors resolve)
                pass
            cur = self._stmt(st, cur, ctx)
        return cur

    def _may_raise_edges(self, node_id: int, ctx: "_Ctx"):
        if ctx.in_try:
            for t in ctx.raise_targets:
                self._edge(node_id, t)
                self.exc_edges.add((node_id, t))

    def _stmt(self, st, preds: set[int], ctx: "_Ctx") -> set[int]:
        if isinstance(st, ast.If):
            t = self._stmt_node("test", st, preds)
            self._may_raise_edges(t.id, ctx)
            bt = self._new("then", st)
            bf = self._new("else", st)
            self._edge(t.id, bt.id)
            self._edge(t.id, bf.id)
            self.branches[id(st)] = (bt.id, bf.id)
            a = self._seq(st.body, {bt.id}, ctx)
            b = self._seq(st.orelse, {bf.id}, ctx) if st.orelse else {bf.id}
            return a | b
        if isinstance(st, (ast.For, ast.AsyncFor)):
            h = self._stmt_node("iter", st, preds)
            self._may_raise_edges(h.id, ctx)
            lctx = ctx.loop(h.id)
            body_out = self._seq(st.body, {h.id}, lctx)
            for n in body_out:
                self._edge(n, h.id)
            for n in lctx.continues:
                self._edge(n, h.id)
            out = self._seq(st.orelse, {h.id}, ctx) if st.orelse else {h.id}
            return out | lctx.breaks
        if isinstance(st, ast.While):
            h = self._stmt_node("test", st, preds)
            self._may_raise_edges(h.id, ctx)
            lctx = ctx.loop(h.id)
            bt = self._new("then", st)
            self._edge(h.id, bt.id)
            self.branches[id(st)] = (bt.id, None)
            body_out = self._seq(st.body, {bt.id}, lctx)
            for n in body_out:
                self._edge(n, h.id)
            for n in lctx.continues:
                self._edge(n, h.id)
            infinite = isinstance(st.test, ast.Constant) and bool(st.test.value)
            out = set() if infinite else {h.id}
            if st.orelse and not infinite:
                out = self._seq(st.orelse, {h.id}, ctx)
            return out | lctx.breaks
        if isinstance(st, (ast.With, ast.AsyncWith)):
            h = self._stmt_node("with", st, preds)
            self._may_raise_edges(h.id, ctx)
            return self._seq(st.body, {h.id}, ctx)
        if isinstance(st, ast.Try):
            return self._try(st, preds, ctx)
        if isinstance(st, ast.Return):
            n = self._stmt_node("stmt", st, preds)
            self._may_raise_edges(n.id, ctx)
            self._edge(n.id, ctx.return_target)
            return set()
        if isinstance(st, ast.Raise):
            n = self._stmt_node("stmt", st, preds)
            for t in ctx.raise_targets:
                self._edge(n.id, t)
            return set()
        if isinstance(st, ast.Break):
            n = self._stmt_node("stmt", st, preds)
            if ctx.breaks is not None:
                if ctx.break_via is not None:
                    self._edge(n.id, ctx.break_via)
                    ctx.pending_breaks.add(True)
                else:
                    ctx.breaks.add(n.id)
            return set()
        if isinstance(st, ast.Continue):
            n = self._stmt_node("stmt", st, preds)
            if ctx.continues is not None:
                ctx.continues.add(n.id)
            return set()
        # simple statement (Assign, Expr, AugAssign, Delete, Assert, Import,
        # FunctionDef, ClassDef, Pass, Global, Nonlocal, AnnAssign)
        n = self._stmt_node("stmt", st, preds)
        self._may_raise_edges(n.id, ctx)
        if isinstance(st, ast.Assert):
            for t in ctx.raise_targets:
                self._edge(n.id, t)
        return {n.id}

    def _try(self, st: ast.Try, preds, ctx):
        # finally block (modelled once; exits to both the normal
        # continuation and the outer raise / return targets)
        has_final = bool(st.finalbody)
        fin_entry = None
        if has_final:
            fin_entry = self._new("finally", st, "finally")
            for p in ():
                pass
        # handler entries
        handler_nodes = []
        for h in st.handlers:
            hn = self._new("handler", h)
            self.of_stmt.setdefault(id(h), hn)
            handler_nodes.append(hn)
        catches_all = any(
            h.type is None
            or (isinstance(h.type, ast.Name)
                and h.type.id in ("Exception", "BaseException"))
            for h in st.handlers
        )
        raise_targets = [hn.id for hn in handler_nodes]
        if not catches_all:
            raise_targets += (
                [fin_entry.id] if has_final else list(ctx.raise_targets)
            )
        bctx = ctx.child(
            raise_targets=raise_targets,
            in_try=True,
            return_target=fin_entry.id if has_final else ctx.return_target,
        )
        body_out = self._seq(st.body, preds, bctx)
        # the first statement of the body may not have executed at all
        for p in preds:
            pass
        else_out = body_out
        if st.orelse:
            octx = ctx.child(
                raise_targets=(
                    [fin_entry.id] if has_final else list(ctx.raise_targets)
                ),
                in_try=has_final or ctx.in_try,
                return_target=fin_entry.id if has_final else ctx.return_target,
            )
            else_out = self._seq(st.orelse, body_out, octx)
        outs = set(else_out)
        for h, hn in zip(st.handlers, handler_nodes):
            hctx = ctx.child(
                raise_targets=(
                    [fin_entry.id] if has_final else list(ctx.raise_targets)
                ),
                in_try=has_final or ctx.in_try,
                return_target=fin_entry.id if has_final else ctx.return_target,
            )
            outs |= self._seq(h.body, {hn.id}, hctx)
        if not has_final:
            # propagate loop control collected in child contexts
            return outs
        for n in outs:
            self._edge(n, fin_entry.id)
        fctx = ctx
        fin_out = self._seq(st.finalbody, {fin_entry.id}, fctx)
        # after finally: normal continuation, or re-raise / return
        for n in fin_out:
            for t in ctx.raise_targets:
                self._edge(n, t)
            self._edge(n, ctx.return_target)
        return fin_out

    # -------------------------------------------------------------- queries
    def node_of(self, stmt) -> Node:
        n = self.of_stmt.get(id(stmt))
        if n is None:
            # expression inside a statement: climb to the statement
            cur = stmt
            while cur is not None and id(cur) not in self.of_stmt:
                cur = self.parent.get(id(cur))
            if cur is None:
                raise KeyError("node not in CFG")
            n = self.of_stmt[id(cur)]
        return n

    def stmt_of(self, node):
        """Smallest enclosing statement of an AST node."""
        cur = node
        while cur is not None and not isinstance(cur, ast.stmt):
            cur = self.parent.get(id(cur))
        return cur

    def reachable_after(self, src: int, avoid=frozenset()) -> set[int]:
        """Nodes reachable once ``src`` has COMPLETED normally (its own
        may-raise edges are not followed; those of later nodes are)."""
        seen = set()
        work = [b for b in self.nodes[src].succ
                if (src, b) not in self.exc_edges and b not in avoid]
        while work:
            n = work.pop()
            if n in seen or n in avoid:
                continue
            seen.add(n)
            work.extend(self.nodes[n].succ)
        return seen

    def reachable_normally(self, src: int, avoid=frozenset()) -> set[int]:
        """Nodes reachable from ``src`` without any may-raise edge."""
        seen = set()
        work = [b for b in self.nodes[src].succ
                if (src, b) not in self.exc_edges and b not in avoid]
        while work:
            n = work.pop()
            if n in seen or n in avoid:
                continue
            seen.add(n)
            work.extend(b for b in self.nodes[n].succ
                        if (n, b) not in self.exc_edges)
        return seen

    def reachable_from(self, src: int, avoid=frozenset()) -> set[int]:
        seen = set()
        stack = [src]
        while stack:
            n = stack.pop()
            if n in seen or (n in avoid and n != src):
                continue
            seen.add(n)
            stack.extend(self.nodes[n].succ)
        return seen

    def every_path_passes(self, src: int, dst: int, through: set[int]) -> bool:
        """True iff every path src->dst visits a node in ``through``
        (src and dst themselves do not count)."""
        avoid = set(through) - {src}
        seen = set()
        stack = list(self.nodes[src].succ)
        while stack:
            n = stack.pop()
            if n in seen:
                continue
            if n == dst:
                return False
            if n in avoid:
                continue
            seen.add(n)
            stack.extend(self.nodes[n].succ)
        return True

    def witness_path(self, src: int, dst: int, avoid: set[int]):
        """One path src->dst avoiding ``avoid`` (list of node ids) or None."""
        prev = {src: None}
        queue = [src]
        while queue:
            n = queue.pop(0)
            for s in sorted(self.nodes[n].succ):
                if s in prev or (s in avoid and s != dst):
                    continue
                prev[s] = n
                if s == dst:
                    path = [s]
                    while prev[path[-1]] is not None:
                        path.append(prev[path[-1]])
                    return list(reversed(path))
                queue.append(s)
        return None

    def visited_under(self, start: int, decide, stop=frozenset()):
        """Node ids visited from ``start`` (inclusive) when every ``if`` /
        ``while`` test is resolved by ``decide(test expr)`` -> True / False
        (None: follow both branches).  May-raise edges are not followed;
        nodes in ``stop`` are recorded but not left.  This is the set of
        statements executed, under one valuation of the tests, in straight
        structured code - the exact counterpart of necessary_conditions at
        join points."""
        seen = set()
        work = [start]
        while work:
            n = work.pop()
            if n in seen:
                continue
            seen.add(n)
            if n in stop:
                continue
            node = self.nodes[n]
            st = node.stmt
            succ = [b for b in node.succ if (n, b) not in self.exc_edges]
            if node.kind == "test" and isinstance(st, (ast.If, ast.While)) \
                    and id(st) in self.branches:
                bt, bf = self.branches[id(st)]
                v = decide(st.test)
                if v is True:
                    succ = [b for b in succ if b == bt]
                elif v is False:
                    succ = [b for b in succ if b != bt]
            work.extend(succ)
        return seen

    def trace_under(self, start: int, decide, stop=frozenset(), limit=400):
        """The ordered list of node ids executed from ``start`` when every
        test is decided by ``decide`` (see visited_under); None as soon as a
        test is undecided or the path forks for another reason (loops are
        not entered twice: a node seen before ends the trace)."""
        out, seen = [], set()
        n = start
        while n is not None and len(out) < limit:
            if n in seen:
                break
            seen.add(n)
            out.append(n)
            if n in stop:
                break
            node = self.nodes[n]
            st = node.stmt
            succ = [b for b in node.succ if (n, b) not in self.exc_edges]
            if node.kind == "test" and isinstance(st, (ast.If, ast.While)) \
                    and id(st) in self.branches:
                bt, _bf = self.branches[id(st)]
                v = decide(st.test)
                if v is None:
                    return None
                succ = [b for b in succ if (b == bt) == bool(v)]
            elif node.kind == "iter":
                # a for loop: take the body once, then leave
                body = [b for b in succ if self.nodes[b].stmt is not None
                        and b != n and b not in seen]
                inner = [b for b in body
                         if self.parent.get(id(self.nodes[b].stmt)) is st]
                succ = inner[:1] or [b for b in succ if b not in seen][:1]
            if len(succ) > 1:
                return None
            n = succ[0] if succ else None
        return out

    def dominates(self, a: int, b: int) -> bool:
        if a == b:
            return True
        return self.every_path_passes(self.entry.id, b, {a}) and \
            b in self.reachable_from(self.entry.id)

    def necessary_conditions(self, node):
        """[(test expr, outcome)] that hold on *every* path from the entry to
        ``node`` (semantic guards: early return / continue / raise styles and
        nested ifs are all covered)."""
        nid = self.node_of(node).id
        out = []
        reach = self.reachable_from(self.entry.id)
        if nid not in reach:
            return out
        for st in ast.walk(self.fnode):
            br = self.branches.get(id(st))
            if br is None:
                continue
            bt, bf = br
            for b, outcome in ((bt, True), (bf, False)):
                if b is None or b == nid:
                    continue
                # conditions decided *before* the node in the same pass of
                # the enclosing loop body: drop the branch node and see
                # whether the node can still be reached
                if nid not in self.reachable_from(self.entry.id, avoid={b}):
                    out.append((st.test, outcome))
        return out

    def conditions(self, node):
        """Canonical strings of the necessary conditions of ``node``."""
        res = []
        for test, outcome in self.necessary_conditions(node):
            res.extend(cond_strings(test, outcome))
        return sorted(set(res))

    def describe_path(self, path):
        out = []
        for i in path:
            n = self.nodes[i]
            if n.stmt is not None:
                out.append(f"{n.kind}@{getattr(n.stmt, 'lineno', '?')}")
            else:
                out.append(n.kind)
        return " -> ".join(out)

    # ------------------------------------------------------ syntactic helpers
    def enclosing(self, node, types):
        cur = self.parent.get(id(node))
        while cur is not None:
            if isinstance(cur, types):
                return cur
            cur = self.parent.get(id(cur))
        return None

    def enclosing_all(self, node, types):
        out = []
        cur = self.parent.get(id(node))
        while cur is not None:
            if isinstance(cur, types):
                out.append(cur)
            cur = self.parent.get(id(cur))
        return out

    def in_finally(self, node) -> bool:
        cur = node
        par = self.parent.get(id(cur))
        while par is not None:
            if isinstance(par, ast.Try) and any(
                cur is s for s in par.finalbody
            ):
                return True
            cur, par = par, self.parent.get(id(par))
        return False

    def branch_of(self, node, ifnode: ast.If):
        """'body' / 'orelse' / None: which arm of ``ifnode`` contains node."""
        cur = node
        par = self.parent.get(id(cur))
        while par is not None:
            if par is ifnode:
                if any(cur is s for s in ifnode.body):
                    return "body"
                if any(cur is s for s in ifnode.orelse):
                    return "orelse"
                return None
            cur, par = par, self.parent.get(id(par))
        return None

    def guards(self, node):
        """[(test expr, polarity)] of the if/while tests that control
        ``node`` syntactically (innermost first)."""
        out = []
        cur = node
        par = self.parent.get(id(cur))
        while par is not None and par is not self.fnode:
            if isinstance(par, ast.If):
                if any(cur is s for s in par.body):
                    out.append((par.test, True))
                elif any(cur is s for s in par.orelse):
                    out.append((par.test, False))
            elif isinstance(par, ast.While):
                if any(cur is s for s in par.body):
                    out.append((par.test, True))
            elif isinstance(par, ast.IfExp):
                if cur is par.body:
                    out.append((par.test, True))
                elif cur is par.orelse:
                    out.append((par.test, False))
            cur, par = par, self.parent.get(id(par))
        return out


class _Ctx:
    def __init__(self, raise_targets, return_target, in_try=False,
                 breaks=None, continues=None):
        self.raise_targets = raise_targets
        self.return_target = return_target
        self.in_try = in_try
        self.breaks = breaks
        self.continues = continues
        self.break_via = None
        self.pending_breaks = set()

    def loop(self, header):
        c = _Ctx(self.raise_targets, self.return_target, self.in_try,
                 breaks=set(), continues=set())
        return c

    def child(self, raise_targets, in_try, return_target):
        c = _Ctx(raise_targets, return_target, in_try,
                 breaks=self.breaks, continues=self.continues)
        return c


_NEG = {ast.Lt: ast.GtE, ast.LtE: ast.Gt, ast.Gt: ast.LtE, ast.GtE: ast.Lt,
        ast.Eq: ast.NotEq, ast.NotEq: ast.Eq, ast.In: ast.NotIn,
        ast.NotIn: ast.In, ast.Is: ast.IsNot, ast.IsNot: ast.Is}
_SWAP = {ast.Gt: ast.Lt, ast.GtE: ast.LtE}
_SYM = {ast.Lt: "<", ast.LtE: "<=", ast.Eq: "==", ast.NotEq: "!=",
        ast.In: "in", ast.NotIn: "not in", ast.Is: "is",
        ast.IsNot: "is not", ast.Gt: ">", ast.GtE: ">="}


def cond_strings(test, outcome=True):
    """Canonical condition strings implied by ``test`` having ``outcome``:
    negations pushed inwards, > / >= rewritten as < / <=, operands of
    symmetric comparisons ordered, conjunctions split."""
    while isinstance(test, ast.UnaryOp) and isinstance(test.op, ast.Not):
        test = test.operand
        outcome = not outcome
    if isinstance(test, ast.BoolOp):
        conj = isinstance(test.op, ast.And)
        if conj == outcome:
            # (a and b) true  /  (a or b) false: every part has ``outcome``
            out = []
            for v in test.values:
                out.extend(cond_strings(v, outcome))
            return out
        parts = sorted(s for v in test.values
                       for s in ["(" + " & ".join(cond_strings(v, outcome))
                                 + ")"])
        return ["any(" + ", ".join(parts) + ")"]
    if isinstance(test, ast.Compare) and len(test.ops) == 1:
        op = type(test.ops[0])
        left, right = ast.unparse(test.left), ast.unparse(
            test.comparators[0])
        if not outcome:
            op = _NEG[op]
        if op in _SWAP:
            op = _SWAP[op]
            left, right = right, left
        if op in (ast.Eq, ast.NotEq) and right < left:
            left, right = right, left
        # a length is never negative: len(x) != 0, len(x) > 0 and len(x) >= 1
        # are one condition (0 < len(x)); so are == 0, <= 0 and < 1
        for a, b in ((left, right), (right, left)):
            if a.startswith("len(") and a.endswith(")") and \
                    a.count("(") == a.count(")"):
                if (op is ast.NotEq and b == "0") or (
                        op is ast.LtE and (b, a) == (left, right)
                        and b == "1") :
                    return [f"0 < {a}"]
                if (op is ast.Eq and b == "0") or (
                        op is ast.LtE and (a, b) == (left, right)
                        and b == "0") or (
                        op is ast.Lt and (a, b) == (left, right)
                        and b == "1"):
                    return [f"{a} <= 0"]
        return [f"{left} {_SYM[op]} {right}"]
    if isinstance(test, ast.Call) and isinstance(test.func, ast.Name) and \
            test.func.id == "len" and len(test.args) == 1 and \
            not test.keywords:
        txt = ast.unparse(test)
        return [f"0 < {txt}" if outcome else f"{txt} <= 0"]
    txt = ast.unparse(test)
    return [txt if outcome else f"not {txt}"]
