"""C06 - PEPs are probabilities, monotone in score, aligned with their PSM."""

from __future__ import annotations

import ast
import json
import subprocess

from ..align import (IN, Align, Arr, Opaque, Scalar, TupleV, fmt_space,
                     make_sort_perm, same_space)
from ..core import AnalysisError, const_value
from ..defuse import DefUse, Terms, show, specialise
from ..tutil import np_call, strip_conv

EXPLANATION = (
    "Static analysis of every function registered in peps.PEP_ALGORITHM and "
    "qvalues.QVALUE_ALGORITHM. (a) each PEP estimator implemented in the "
    "repository returns np.clip(., 0, 1) on every return path. (b) abstract "
    "interpretation over the row-alignment domain (callees interpreted per "
    "flag case): every registered function returns one value per input row "
    "in input order; every np.interp is called with an ascending grid and a "
    "table living on the same grid (both flips present or both absent); the "
    "qvality wrapper splits scores by complementary masks and scatters the "
    "library's descending-score result back to input order. (c) the "
    "interpolated table is non-increasing along the ascending grid (NNLS "
    "solution accumulated then reversed / running maximum flipped), so the "
    "result is a non-increasing function of the score and ties are equal. "
    "(d) registry keys equal the CLI choices of both command line tools and "
    "each lambda forwards (scores, targets) in that order. (e) keywords "
    "passed to scipy.optimize.nnls exist in the installed SciPy signature. "
    "Also: (f) every SQL statement of the confidence writer binds each column to the parameter of its own role; the direction flag is applied before the PEP estimation on every path; no frame written to a file went through reset_index() without drop=True. "
    "NOT decided: finiteness, non-negativity of the alternative q-value "
    "estimators, statistical quality, triqler internals.")
TECHNIQUE = ("abstract interpretation over a row-alignment / monotonicity "
             "domain with inter-procedural callee summaries + registry "
             "sibling agreement + external signature conformance")

QV = "triqler.qvality.getQvaluesFromScores"
QVB = "triqler.qvality.getQvaluesFromScoresQvality"


def _qvality_summary(al, t, args, kwargs):
    a = [al.ev(x) for x in args[:2]]
    al.events.add("qvality", args=a, kwargs=sorted(kwargs), term=show(t, 200))
    if len(a) == 2 and all(isinstance(x, Arr) for x in a):
        m0 = [op for op in a[0].space[1] if op[0] == "M"]
        m1 = [op for op in a[1].space[1] if op[0] == "M"]
        base0 = (a[0].space[0], tuple(op for op in a[0].space[1]
                                      if op[0] != "M"))
        base1 = (a[1].space[0], tuple(op for op in a[1].space[1]
                                      if op[0] != "M"))
        compl = (len(m0) == 1 and len(m1) == 1
                 and (m1[0][1] == ("not", m0[0][1])
                      or m0[0][1] == ("not", m1[0][1])))
        if not (compl and same_space(base0, base1) and a[0].q == a[1].q):
            al.issue("qvality is not given complementary target/decoy "
                     f"subsets of one score vector: {a[0]!r} / {a[1]!r}", t)
        inc = dict(kwargs).get("includeDecoys")
        if inc != ("const", True):
            al.issue("qvality called without includeDecoys=True: one value "
                     "per *target* only", t)
        p = make_sort_perm(a[0].q, "desc", base0)
        sp = (base0[0], base0[1] + (("P", p.pid),))
        return TupleV([Scalar(), Arr(sp, q=("pep-lib",), mono="INC",
                                     nonneg=True)])
    return Opaque("qvality on non-arrays")


def _registry(prog, modname, regname):
    from ..core import registry_entries
    return registry_entries(prog, modname, regname)


def _scatter_of_running_values(ctx, al, target, case):
    """Without an interpolation over the scores the only other readable
    route back to input order is the scatter out[order] = values. Values
    that are running quantities of the rank order (a cumulative sum along
    the sorted list) differ between PSMs of equal score - which of them
    comes first is the sort's choice - so the result is not a function of
    the score."""
    for ev in al.events.of("scatter"):
        v = ev["value"]
        if not isinstance(v, Arr):
            continue
        if v.rank:
            ctx.fail("C06c-function-of-score", target,
                     f"scatter {ev['term'][:90]}",
                     "values computed along the rank order (cumulative "
                     "counts) are put back per rank, with no interpolation "
                     "over the scores: PSMs with equal scores receive "
                     "different values, depending on the order the sort "
                     "left them in", node=target.node, case=case)


def run(ctx):
    prog = ctx.prog
    peps = _registry(prog, "peps", "PEP_ALGORITHM")
    qvs = _registry(prog, "qvalues", "QVALUE_ALGORITHM")
    ctx.floor("C06-registry", len(peps), 4)
    ctx.floor("C06-registry", len(qvs), 3)
    for name, lam in list(peps.items()) + list(qvs.items()):
        kind = "pep" if name in peps else "qvalue"
        _check_entry(ctx, name, lam, kind)
    _check_cli(ctx, peps, qvs)
    _check_env(ctx)
    # the PEP a result file shows in a row is that row's PEP only if the
    # header and the rows agree on the column order (shared with C03e/C13)
    from .c03 import header_data_agreement
    header_data_agreement(ctx, "C06f-header-matches-rows")
    _sqlite_binding(ctx)
    _pep_direction(ctx)
    _no_stray_index_column(ctx)


def _no_stray_index_column(ctx):
    """A frame that is written to a result or level file has exactly the
    columns its header names: reset_index() without drop=True turns the old
    index into an extra leading column, and every value of the rows then
    sits one column to the right of its name."""
    from ..core import walk_own
    from ..defuse import walk_term
    prog = ctx.prog
    n = 0
    for q in sorted(prog.funcs):
        fn = prog.funcs[q]
        if isinstance(fn.node, ast.Lambda) or fn.module.name not in (
                "mokapot.confidence", "mokapot.confidence_writer",
                "mokapot.brew_rollup", "mokapot.picked_protein"):
            continue
        T = None
        for node in walk_own(fn.node):
            if not (isinstance(node, ast.Call) and isinstance(
                    node.func, ast.Attribute) and node.func.attr in (
                        "to_csv", "to_parquet", "write", "append_data")):
                continue
            T = T or Terms(DefUse(prog, fn))
            t = T.of(node)
            if t[0] != "mcall":
                continue
            frame = t[1] if t[2] in ("to_csv", "to_parquet") else (
                t[3][0] if t[3] else None)
            if frame is None:
                continue
            n += 1
            bad = []
            for x in walk_term(frame):
                if isinstance(x, tuple) and x and x[0] in ("mcall", "mut") \
                        and x[2] == "reset_index":
                    kw = dict(x[4]) if x[0] == "mcall" else {}
                    args = x[3]
                    drop = kw.get("drop", args[1] if len(args) > 1 else
                                  ("const", False))
                    if drop != ("const", True):
                        bad.append(show(x, 60))
            ctx.check(not bad, "C06f-no-stray-index-column", fn,
                      f"the frame written at line {node.lineno} carries no "
                      "index column",
                      f"the frame written at line {node.lineno} went through "
                      f"reset_index() without drop=True ({bad[:1]}): its "
                      "rows have one field more than the header, so the "
                      "PEP (and every other value) appears under a "
                      "neighbouring column's name", node=node)
    ctx.floor("C06f-written-frames", n, 3)


def _pep_direction(ctx):
    """The PEP estimators assume that a higher score is better.  In
    LinearConfidence._assign_confidence the scores of a level are brought
    to that orientation by the direction flag (scores * (desc * 2 - 1));
    the PEP call must see them after that step on every path - otherwise,
    for a lower-is-better score, the best rows get PEPs near 1."""
    from ..cfg import CFG
    from ..core import walk_own
    from ..defuse import walk_term
    from ..proto import Calls, SELF
    prog = ctx.prog
    f = prog.func("mokapot.confidence.LinearConfidence._assign_confidence")
    du = DefUse(prog, f)
    T = Terms(du)
    cfg = CFG(f.node)
    cl = Calls(prog, f, du=du, T=T, cfg=cfg)
    pep = cl.calls("mokapot.peps.peps_from_scores")
    ctx.require(len(pep) == 1, f"{f.qual}: expected one peps_from_scores "
                f"call, found {len(pep)}")
    pt, pnode = pep[0]
    pf = prog.func("mokapot.peps.peps_from_scores")
    b = prog.bind(pf, pnode)
    ctx.require(b.get(pf.params[0]) is not None,
                f"{f.qual}: peps_from_scores called without scores")
    st = T.of(b[pf.params[0]])
    DESC = ("param", "desc")

    def oriented(t):
        return any(x == DESC for x in walk_term(t))

    ok = oriented(st)
    why = f"the PEP estimator receives {show(st, 80)}"
    if not ok and st == ("attr", SELF, "scores"):
        flips = [stn for (r, a, v, stn) in du.attr_stores
                 if r == "self" and a == "scores" and oriented(T.of(v))]
        pid = cfg.node_of(pnode).id
        lp = cfg.enclosing(pnode, (ast.For, ast.While))
        start = cfg.node_of(lp.body[0]).id if lp is not None \
            else cfg.entry.id
        fids = {cfg.node_of(x).id for x in flips}
        # no later plain re-read of the column between the flip and the call
        plain = {cfg.node_of(stn).id for (r, a, v, stn) in du.attr_stores
                 if r == "self" and a == "scores"
                 and not oriented(T.of(v))}
        ok = bool(flips) and (start in fids or cfg.every_path_passes(
            start, pid, fids))
        if ok:
            # every flip that reaches the call is not undone by a plain
            # re-assignment on the way
            for x in fids:
                for p_ in plain:
                    if p_ in cfg.reachable_normally(x, avoid={pid}) and \
                            pid in cfg.reachable_normally(p_, avoid=fids):
                        ok = False
                        why = ("self.scores is re-read without the "
                               "direction between the sign step and the "
                               "PEP call")
        if not flips:
            why = ("self.scores never takes the direction flag into "
                   "account before the PEP call")
        elif not ok and why.startswith("the PEP estimator receives"):
            why = ("the sign step scores * (desc * 2 - 1) does not precede "
                   "the PEP call on every path")
    ctx.check(ok, "C06c-pep-direction", f,
              "PEPs are estimated from scores oriented higher = better "
              "(the direction flag is applied before the PEP call)",
              why + ": with a lower-is-better score the PEPs decrease as "
              "the score gets worse", node=pnode)


def _sqlite_binding(ctx):
    """The result database gets the PEP of a row in its PEP column (and the
    q-value, the score, the id in theirs): in every SQL statement of the
    confidence writer each column is bound to the parameter of the same
    role - by name (:name placeholders) or by position (? placeholders with
    an ordered parameter list)."""
    import re
    from ..paths import return_cases
    from ..tutil import text_parts
    prog = ctx.prog
    f = prog.func(
        "mokapot.confidence_writer.ConfidenceSqliteWriter.get_query")
    ps = [p_ for p_ in f.params if p_ != "self"]
    ctx.require(len(ps) >= 3, f"{f.qual}: expected (level, qvalue_column, "
                "pep_column)")
    p_q, p_pep = ps[1], ps[2]

    def role_of_param(t):
        if t == ("param", p_q):
            return "q-value"
        if t == ("param", p_pep):
            return "pep"
        if t[0] == "const" and isinstance(t[1], str):
            return {"score": "score"}.get(t[1], "id")
        return "id"

    def role_of_column(name):
        u = name.upper()
        if "FDR" in u or "QVAL" in u or "Q_VAL" in u:
            return "q-value"
        if "PEP" == u or "POSTERIOR" in u or u.endswith("_PEP"):
            return "pep"
        if "SCORE" in u:
            return "score"
        return "id"

    n = 0
    for case in return_cases(prog, f, phi_vars=False):
        t = case.term
        params = None
        if t[0] == "tuple" and len(t[1]) == 2:
            t, plist = t[1]
            if plist[0] in ("list", "tuple") and not any(
                    x[0] == "star" for x in plist[1]):
                params = list(plist[1])
        pieces = text_parts(t)
        ctx.require(pieces and pieces != [t] or t[0] == "const",
                    f"{f.qual}: the statement is not a string built from "
                    f"pieces: {show(t, 80)}")
        sql, holes = "", []
        for x in pieces:
            if x[0] == "const" and isinstance(x[1], str):
                sql += x[1]
            else:
                sql += f"\x00{len(holes)}\x00"
                holes.append(x)

        def ph_role(tok, pos):
            tok = tok.strip()
            if tok == "?":
                if params is None or pos[0] >= len(params):
                    raise AnalysisError(
                        f"{f.qual}: positional placeholder without an "
                        "ordered parameter list")
                r = role_of_param(params[pos[0]])
                pos[0] += 1
                return r
            m = re.fullmatch(r":(?:\x00(\d+)\x00|(\w+))", tok)
            if not m:
                raise AnalysisError(f"{f.qual}: placeholder '{tok[:30]}' "
                                    "not understood")
            if m.group(1) is not None:
                return role_of_param(holes[int(m.group(1))])
            return role_of_param(("const", m.group(2)))

        pairs = []
        pos = [0]
        up = re.match(r"\s*UPDATE\s+\S+\s+SET\s+(.*?)\s+WHERE\s+(.*?);?\s*$",
                      sql, re.I | re.S)
        ins = re.match(r"\s*INSERT\s+INTO\s+\S+?\s*\((.*?)\)\s*VALUES\s*"
                       r"\((.*?)\)\s*;?\s*$", sql, re.I | re.S)
        if up:
            for part in up.group(1).split(",") + [up.group(2)]:
                col, _eq, ph = part.partition("=")
                pairs.append((col.strip(), ph_role(ph, pos)))
        elif ins:
            cols = [c.strip() for c in ins.group(1).split(",")]
            phs = ins.group(2).split(",")
            ctx.require(len(cols) == len(phs), f"{f.qual}: INSERT with "
                        f"{len(cols)} columns and {len(phs)} values")
            for c, ph in zip(cols, phs):
                pairs.append((c, ph_role(ph, pos)))
        else:
            raise AnalysisError(f"{f.qual}: statement form not recognised: "
                                f"{sql[:60]!r}")
        n += 1
        bad = []
        for col, r in pairs:
            cname = col
            m = re.fullmatch(r"\x00(\d+)\x00", col)
            crole = "id" if m else role_of_column(cname)
            if crole != r:
                bad.append((cname if not m else "<id column>", crole, r))
        ctx.check(not bad, "C06f-sqlite-binding", f,
                  "each column of the statement receives the value of its "
                  f"own role ({len(pairs)} columns)",
                  f"(column, its role, role of the bound value) = {bad}: "
                  "the result database stores a value under another "
                  "column's name", node=f.node,
                  case=" & ".join(f"{show(c, 30)}={o}"
                                  for c, o in case.conds))
    ctx.floor("C06f-sqlite-statements", n, 2)


def _check_entry(ctx, name, lam, kind):
    prog = ctx.prog
    ps = lam.params
    ctx.require(len(ps) == 2, f"{lam.qual}: lambda must take (scores, "
                "targets)")
    du = DefUse(prog, lam)
    T = Terms(du)
    (node, t), = T.returns()
    ctx.require(t[0] == "call" and t[1].startswith("mokapot."),
                f"{lam.qual}: does not call a repository function")
    ok_fwd = len(t[2]) >= 2 and t[2][0] == ("param", ps[0]) and \
        t[2][1] == ("param", ps[1])
    ctx.check(ok_fwd, "C06d-forwarding", lam,
              f"'{name}' forwards (scores, targets) in that order",
              f"lambda body is {show(t, 120)}", node=lam.node)
    if not ok_fwd:
        return
    target = prog.func(t[1])
    if t[1] == "mokapot.qvalues.tdc":
        ctx.note("'tdc' alignment is decided under C01")
        return
    env = {
        ps[0]: Arr(IN, q=("param", "scores")),
        ps[1]: Arr(IN, q=("param", "targets"), is_mask=True,
                   mkey="targets", nonneg=True),
    }
    al = Align(prog, env, callee_summaries={QV: _qvality_summary,
                                            QVB: _qvality_summary},
               max_call_depth=5)
    res = al.ev(t)
    case = f"algorithm={name}"
    if isinstance(res, Opaque):
        raise AnalysisError(f"{lam.qual}: result not interpretable: "
                            f"{res.why}")
    issues = al.events.of("issue")
    ctx.check(not issues, "C06b-alignment", target,
              "every mask, permutation and element-wise operation acts on "
              "co-indexed arrays",
              "; ".join(f"{i['what']} at {i['term'][:100]}"
                        for i in issues[:3]), node=target.node, case=case)
    ctx.check(isinstance(res, Arr) and same_space(res.space, IN),
              "C06b-input-order", target,
              "one value per PSM, returned in input order",
              "the returned array is in row space "
              f"{fmt_space(res.space) if isinstance(res, Arr) else res!r}, "
              "so value i does not belong to input PSM i",
              node=target.node, case=case)
    interps = al.events.of("interp")
    if name.startswith("qvality"):
        ctx.require(al.events.of("qvality"),
                    f"{target.qual}: qvality library call not found")
        ctx.ok("C06c-monotone", target,
               "monotone PEPs from the qvality library (trusted summary)",
               case=case)
    else:
        if not interps:
            _scatter_of_running_values(ctx, al, target, case)
        ctx.require(interps, f"{target.qual} [{case}]: no np.interp found; "
                    "idiom not recognised")
    for ev in interps:
        x, xp, fp = ev["x"], ev["xp"], ev["fp"]
        if not all(isinstance(v, Arr) for v in (x, xp, fp)):
            raise AnalysisError(f"{target.qual}: np.interp operands not "
                                f"interpretable: {x!r} {xp!r} {fp!r}")
        ctx.check(xp.mono == "INC", "C06b-interp-grid-ascending", target,
                  "np.interp grid is ascending",
                  f"the interpolation grid {ev['term'][:80]} is not known "
                  f"to be ascending (mono={xp.mono}); np.interp silently "
                  "returns garbage on a descending grid",
                  node=target.node, case=case)
        ctx.check(same_space(xp.space, fp.space),
                  "C06b-interp-table-on-grid", target,
                  "interpolated table lives on the interpolation grid",
                  f"grid is in {fmt_space(xp.space)} but the table is in "
                  f"{fmt_space(fp.space)} (one of them was flipped/sorted "
                  "and the other was not)", node=target.node, case=case)
        ctx.check(fp.mono == "DEC", "C06c-monotone", target,
                  "table is non-increasing along the ascending grid, so the "
                  "result never increases with the score and ties are equal",
                  f"the table {ev['term'][:100]} has monotonicity "
                  f"{fp.mono} along the ascending grid",
                  node=target.node, case=case)
        ctx.check(x.q == ("param", "scores") and same_space(x.space, IN),
                  "C06b-interp-at-scores", target,
                  "interpolation is evaluated at the input scores",
                  f"np.interp is evaluated at {x!r}", node=target.node,
                  case=case)
    # a: range by construction for repository implementations
    if kind == "pep" and not name.startswith("qvality"):
        du2 = DefUse(prog, target)
        T2 = Terms(du2)
        for rnode, rt in T2.returns():
            c = np_call(strip_conv(rt))
            ok = bool(c and c[0] == "clip" and len(c[1]) == 3
                      and c[1][1] == ("const", 0) and c[1][2] == ("const", 1))
            ctx.check(ok, "C06a-clipped", target,
                      "returned PEPs are clipped to [0, 1]",
                      f"return value is {show(rt, 100)}, not np.clip(., 0, "
                      "1)", node=rnode, case=case)


def _cli_choices(func, option):
    """choices=[...] of parser.add_argument('--option', ...)."""
    for n in ast.walk(func.node):
        if isinstance(n, ast.Call) and isinstance(n.func, ast.Attribute) \
                and n.func.attr == "add_argument":
            names = [const_value(a) for a in n.args]
            if option in names:
                for kw in n.keywords:
                    if kw.arg == "choices" and isinstance(kw.value, ast.List):
                        return [const_value(e) for e in kw.value.elts], n
    return None, None


def _check_cli(ctx, peps, qvs):
    prog = ctx.prog
    sites = [
        ("mokapot.config._parser", "--peps_algorithm", set(peps)),
        ("mokapot.config._parser", "--qvalue_algorithm", set(qvs)),
        ("mokapot.brew_rollup.add_confidence_options", "--peps_algorithm",
         set(peps)),
        ("mokapot.brew_rollup.add_confidence_options", "--qvalue_algorithm",
         set(qvs)),
    ]
    for fq, opt, keys in sites:
        f = prog.func(fq)
        ch, node = _cli_choices(f, opt)
        ctx.require(ch is not None, f"{fq}: option {opt} with choices=[...] "
                    "not found")
        ctx.check(set(ch) == keys, "C06d-registry-vs-cli", f,
                  f"{opt} choices equal the registry keys",
                  f"CLI offers {sorted(ch)} but the registry has "
                  f"{sorted(keys)}", node=node)


def _check_env(ctx):
    """Keywords passed to scipy.optimize.nnls exist in the installed SciPy."""
    prog = ctx.prog
    sites = []
    for f in prog.funcs.values():
        if f.module.name != "mokapot.peps":
            continue
        for call, kind, tg in prog.call_sites(f):
            if kind == "external" and tg == ["scipy.optimize.nnls"]:
                sites.append((f, call))
    ctx.floor("C06e-nnls-sites", len(sites), 2)
    try:
        out = subprocess.run(
            ["/venv/bin/python", "-c",
             "import inspect, json, scipy, scipy.optimize as o;"
             "print(json.dumps({'v': scipy.__version__, 'p': "
             "list(inspect.signature(o.nnls).parameters)}))"],
            capture_output=True, text=True, timeout=120)
        info = json.loads(out.stdout.strip().splitlines()[-1])
    except Exception as e:  # noqa: BLE001
        ctx.note(f"installed SciPy signature unavailable ({e}); clause e "
                 "skipped")
        return
    ctx.extra["scipy_nnls"] = info
    for f, call in sites:
        kws = [k.arg for k in call.keywords if k.arg]
        bad = [k for k in kws if k not in info["p"]]
        ctx.check(not bad, "C06e-nnls-keywords", f,
                  "nnls(" + ", ".join(f"{k}=" for k in kws) + ")"
                  if kws else "nnls(A, b)",
                  f"scipy.optimize.nnls of the installed SciPy {info['v']} "
                  f"has no keyword {bad}; every call of this estimator "
                  "raises TypeError", node=call)
