"""C16 - protein grouping is a maximal-subset grouping with a consistent
peptide map."""

from __future__ import annotations

import ast

from ..cfg import CFG
from ..core import AnalysisError, const_value
from ..defuse import DefUse, Terms, show
from ..memo import check_no_cross_call_state
from ..astutil import live

EXPLANATION = (
    "Static analysis of parsers.fasta.read_fasta and _group_proteins. (a) "
    "hash-order independence (ORDER, shared with C08b): sets of strings "
    "only reach order-free consumers, or sorted(). (b) unique/shared split "
    "is exactly 'one group' vs 'otherwise' (truth table over the number of "
    "groups), a unique peptide maps to the single element, shared peptides "
    "list all groups; the decoy of a target is decoy_prefix + name and only "
    "non-decoy names get a pairing. (c) proteins are visited in "
    "non-increasing peptide count; no container is mutated while it is "
    "iterated. (d) coverage of every protein: proteins enter the map iff "
    "their digest is non-empty; each iteration of the grouping loop either "
    "creates a group for the protein (when nothing contains it) or, for "
    "every group that contains it (candidates = intersection of the "
    "peptides' group sets, filtered only by 'is currently a group'), "
    "renames that group to include the protein and rewrites the peptide "
    "map of that group inside the same per-match iteration (old name "
    "removed, member removed, new name added). Nothing is cached across "
    "calls. NOT decided: maximality for concrete incidence structures.")
TECHNIQUE = ("structural path/loop analysis + guard truth table + "
             "mutation-while-iterating scan + set-provenance taint (ORDER) "
             "+ cross-call state scan")

FA = "mokapot.parsers.fasta."


def run(ctx):
    prog = ctx.prog
    gp = prog.func(FA + "_group_proteins")
    rf = prog.func(FA + "read_fasta")
    _group(ctx, gp)
    _read_fasta(ctx, rf)
    _no_mutation_while_iterating(ctx, [gp, rf])
    from .c08 import _set_order
    reach = prog.reachable([rf.qual])
    _set_order(ctx, reach)
    check_no_cross_call_state(
        ctx, "C16-no-cross-call-state",
        [prog.funcs[q] for q in sorted(reach) if q in prog.funcs
         and not isinstance(prog.funcs[q].node, ast.Lambda)], "FASTA read")


def _group(ctx, f):
    p_prot, p_pep = f.params
    loops = [n for n in f.node.body if isinstance(n, ast.For)]
    ctx.require(len(loops) == 1, f"{f.qual}: protein loop not found")
    lp = loops[0]
    it = ast.unparse(lp.iter)
    ok = it in (f"sorted({p_prot}.items(), key=lambda x: -len(x[1]))",
                f"sorted({p_prot}.items(), key=lambda x: len(x[1]), "
                "reverse=True)")
    ctx.check(ok, "C16c-largest-first", f,
              "proteins are visited in non-increasing peptide count (a "
              "group can only be contained in an earlier one)",
              f"loop over {it}", node=lp)
    v_prot, v_peps = (e.id for e in lp.target.elts)
    cfg = CFG(f.node)
    # group creation sites: grouped[prot] = peps
    gname = None
    creates = [n for n in ast.walk(lp) if isinstance(n, ast.Assign)
               and isinstance(n.targets[0], ast.Subscript)
               and ast.unparse(n.targets[0].slice) == v_prot
               and ast.unparse(n.value) == v_peps]
    ctx.require(creates, f"{f.qual}: group creation not found")
    gname = ast.unparse(creates[0].targets[0].value)
    # candidates
    m1 = [n for n in lp.body if isinstance(n, ast.Assign)
          and isinstance(n.value, ast.Call)
          and ast.unparse(n.value.func).startswith("set.")]
    ctx.require(len(m1) == 1, f"{f.qual}: candidate intersection not found")
    mname = ast.unparse(m1[0].targets[0])
    ok = ast.unparse(m1[0].value) == \
        f"set.intersection(*[{p_pep}[p] for p in {v_peps}])"
    ctx.check(ok, "C16d-candidates-contain-all-peptides", f,
              "candidate groups are those containing every peptide of the "
              "protein (intersection over its peptides)",
              ast.unparse(m1[0].value)[:100], node=m1[0])
    m2 = [n for n in lp.body if isinstance(n, ast.Assign)
          and ast.unparse(n.targets[0]) == mname and n is not m1[0]]
    ok2 = False
    why = "filter not found"
    if len(m2) == 1 and isinstance(m2[0].value, ast.ListComp):
        lc = m2[0].value
        conds = [ast.unparse(c) for c in lc.generators[0].ifs]
        v = lc.generators[0].target.id
        ok2 = (ast.unparse(lc.elt) == v
               and ast.unparse(lc.generators[0].iter) == mname
               and conds in ([f"{v} in {gname}.keys()"],
                             [f"{v} in {gname}"]))
        why = (f"candidates are filtered by {conds}: a protein whose "
               "peptide set equals (or is contained in) an existing "
               "group's is not merged into it when the extra condition "
               "fails")
    ctx.check(ok2, "C16d-candidate-filter", f,
              "candidates are filtered only by 'is currently a group'", why,
              node=m2[0] if m2 else lp)
    # creation guarded by emptiness: not grouped / not matches, then continue
    ok_c = True
    for c in creates:
        gs = [g for g in cfg.guards(c) if any(
            g[0] is s.test for s in ast.walk(lp) if isinstance(s, ast.If))]
        txt = [ast.unparse(g[0]) for g in gs if g[1]]
        if txt not in ([f"not {gname}"], [f"not {mname}"]):
            ok_c = False
    ctx.check(ok_c and len(creates) == 2, "C16d-new-group-iff-uncontained",
              f, "a protein founds a new group exactly when no group "
              "exists yet or none contains it",
              f"creation guards: "
              f"{[[ast.unparse(g[0]) for g in cfg.guards(c)] for c in creates]}",
              node=lp)
    # rename loop
    ml = [n for n in lp.body if isinstance(n, ast.For)
          and ast.unparse(n.iter) == mname]
    ctx.require(len(ml) == 1, f"{f.qual}: per-match loop not found")
    ml = ml[0]
    v_m = ml.target.id
    body = ml.body
    nn = [s for s in body if isinstance(s, ast.Assign)
          and "join" in ast.unparse(s.value)]
    ok_n = len(nn) == 1 and ast.unparse(nn[0].value) in (
        f"', '.join([{v_m}, {v_prot}])",)
    ctx.check(ok_n, "C16d-group-name", f,
              "the renamed group lists the old members followed by the new "
              "protein", f"{[ast.unparse(s.value) for s in nn]}", node=ml)
    if not ok_n:
        return
    newn = ast.unparse(nn[0].targets[0])
    ren = [s for s in body if isinstance(s, ast.Assign)
           and ast.unparse(s.targets[0]) == f"{gname}[{newn}]"]
    ok_r = len(ren) == 1 and ast.unparse(ren[0].value) == \
        f"{gname}.pop({v_m})"
    ctx.check(ok_r, "C16d-rename-keeps-peptides", f,
              "renaming moves the group's peptide set under the new name "
              "(no peptide lost, old name gone)",
              f"{[ast.unparse(s)[:80] for s in ren]}", node=ml)
    # peptide-map rewrite inside the per-match loop
    pl = [s for s in body if isinstance(s, ast.For)]
    ok_p = False
    why = ("the peptide-map update is not inside the per-match loop: when "
           "a protein is contained in several groups only one of them is "
           "rewritten and the others keep pointing at stale names")
    if len(pl) == 1 and ast.unparse(pl[0].iter) == f"{gname}[{newn}]":
        v_p = pl[0].target.id
        stm = [ast.unparse(s) for s in live(pl[0].body, f.node)]
        want = [f"{p_pep}[{v_p}].remove({v_m})",
                f"if {v_prot} in {p_pep}[{v_p}]:\n    "
                f"{p_pep}[{v_p}].remove({v_prot})",
                f"{p_pep}[{v_p}].add({newn})"]
        alt = [f"{p_pep}[{v_p}].remove({v_m})",
               f"{p_pep}[{v_p}].discard({v_prot})",
               f"{p_pep}[{v_p}].add({newn})"]
        ok_p = stm == want or stm == alt
        why = f"per-peptide update is {stm}"
    ctx.check(ok_p, "C16d-peptide-map-rewritten-per-match", f,
              "for every renamed group, each of its peptides drops the old "
              "group name and the bare member and gains the new name",
              why, node=ml)
    rets = [n for n in ast.walk(f.node) if isinstance(n, ast.Return)]
    ctx.check(len(rets) == 1 and ast.unparse(rets[0].value) ==
              f"({gname}, {p_pep})", "C16d-returns-groups-and-map", f,
              "groups and the rewritten peptide map are returned",
              f"{[ast.unparse(r) for r in rets]}", node=f.node)
    # every path through the loop body creates or renames
    first = cfg.node_of(lp.body[0]).id
    hdr = cfg.node_of(lp).id
    through = {cfg.node_of(c).id for c in creates} | {cfg.node_of(ml).id}
    ctx.check(cfg.every_path_passes(first, hdr, through) or first in through,
              "C16d-every-protein-placed", f,
              "every visited protein is placed in a new or an existing "
              "group", "some path through the loop body places the protein "
              "nowhere", node=lp)


def _read_fasta(ctx, f):
    cfg = CFG(f.node)
    # proteins enter iff digest non-empty
    loops = [n for n in f.node.body if isinstance(n, ast.For)]
    ctx.require(loops, f"{f.qual}: entry loop not found")
    el = loops[0]
    ifs = [s for s in el.body if isinstance(s, ast.If)]
    ok = False
    if len(ifs) == 1 and isinstance(ifs[0].test, ast.Name):
        pv = ifs[0].test.id
        body = [ast.unparse(s) for s in live(ifs[0].body, f.node)]
        ok = body[0] == f"proteins[prot] = {pv}" and any(
            "peptides[pep].add(prot)" in b for b in body) and not \
            ifs[0].orelse
    ctx.check(ok, "C16d-protein-enters-iff-digested", f,
              "a protein and its peptides are recorded iff its digest is "
              "non-empty", "entry condition changed", node=el)
    # unique vs shared
    sl = [n for n in f.node.body if isinstance(n, ast.For)
          and ast.unparse(n.iter) == "peptides.items()"]
    ctx.require(len(sl) == 1, f"{f.qual}: unique/shared loop not found")
    sl = sl[0]
    v_pep, v_prots = (e.id for e in sl.target.elts)
    ifs = [s for s in sl.body if isinstance(s, ast.If)]
    ctx.require(len(ifs) == 1, f"{f.qual}: unique/shared split not found")
    s = ifs[0]
    bad = []
    from .c17 import _Len
    for n in (1, 2, 3):
        env = {f"len({v_prots})": n}
        uniq = bool(_Len(env).ev(s.test))
        if uniq != (n == 1):
            bad.append((n, uniq))
    then = [ast.unparse(x) for x in s.body]
    els = [ast.unparse(x) for x in s.orelse]
    ok = not bad and then == [
        f"unique_peptides[{v_pep}] = next(iter({v_prots}))"] and els in (
        [f"shared_peptides[{v_pep}] = '; '.join(sorted({v_prots}))"],)
    ctx.check(ok, "C16b-unique-shared-split", f,
              "a peptide is unique iff exactly one group contains it (then "
              "mapped to that group), otherwise shared and listing all its "
              "groups in sorted order",
              f"test '{ast.unparse(s.test)}' {bad}; then {then}; else {els}",
              node=s)
    # decoy pairing
    dl = [n for n in f.node.body if isinstance(n, ast.For)
          and ast.unparse(n.iter) == "proteins"]
    ctx.require(len(dl) == 1, f"{f.qual}: pairing loop not found")
    dl = dl[0]
    pv = dl.target.id
    ifs = [x for x in dl.body if isinstance(x, ast.If)]
    ok = False
    if len(ifs) == 1:
        t = ast.unparse(ifs[0].test)
        body = [ast.unparse(x) for x in ifs[0].body]
        ok = (t == f"not {pv}.startswith(decoy_prefix)"
              and f"decoy = decoy_prefix + {pv}" in body
              and f"decoy_map[{pv}] = decoy" in body)
    ctx.check(ok, "C16b-decoy-pairing", f,
              "every non-decoy protein is paired with decoy_prefix + its "
              "name", "pairing changed", node=dl)
    # grouping result feeds the split; Proteins gets the right maps
    call = [n for n in ast.walk(f.node) if isinstance(n, ast.Call)
            and ast.unparse(n.func) == "Proteins"]
    ok = False
    if len(call) == 1:
        kw = {k.arg: ast.unparse(k.value) for k in call[0].keywords}
        ok = kw == {"decoy_prefix": "decoy_prefix",
                    "peptide_map": "unique_peptides",
                    "shared_peptides": "shared_peptides",
                    "protein_map": "decoy_map", "has_decoys": "has_decoys"}
    ctx.check(ok, "C16b-maps-returned", f,
              "the Proteins object carries the unique map, the shared map "
              "and the pairing under their own names",
              f"{[ast.unparse(c)[:120] for c in call]}", node=f.node)
    gp = [n for n in ast.walk(f.node) if isinstance(n, ast.Assign)
          and "_group_proteins" in ast.unparse(n.value)]
    ok = len(gp) == 1 and ast.unparse(gp[0]) == \
        "proteins, peptides = _group_proteins(proteins, peptides)" and \
        cfg.every_path_passes(cfg.entry.id, cfg.node_of(sl).id,
                              {cfg.node_of(gp[0]).id})
    ctx.check(ok, "C16d-grouped-before-split", f,
              "the unique/shared split runs on the grouped peptide map",
              "grouping result is not what the split iterates", node=sl)


def _no_mutation_while_iterating(ctx, funcs):
    n = 0
    for f in funcs:
        for lp in [x for x in ast.walk(f.node) if isinstance(x, ast.For)]:
            it = lp.iter
            base = it
            while isinstance(base, ast.Call) and isinstance(
                    base.func, ast.Attribute) and base.func.attr in (
                        "items", "keys", "values") and not base.args:
                base = base.func.value
            if isinstance(base, ast.Call):
                continue  # sorted(...), enumerate(...): iterates a copy
            btxt = ast.unparse(base)
            n += 1
            bad = []
            for x in ast.walk(lp):
                if x is lp:
                    continue
                if isinstance(x, ast.Call) and isinstance(
                        x.func, ast.Attribute) and x.func.attr in (
                            "add", "remove", "discard", "pop", "clear",
                            "update", "append", "insert", "popitem",
                            "setdefault") and ast.unparse(
                                x.func.value) == btxt:
                    bad.append(ast.unparse(x)[:50])
                if isinstance(x, (ast.Assign, ast.Delete)):
                    ts = x.targets
                    for t in ts:
                        if isinstance(t, ast.Subscript) and ast.unparse(
                                t.value) == btxt:
                            bad.append(ast.unparse(x)[:50])
            ctx.check(not bad, "C16c-no-mutation-while-iterating", f,
                      f"loop over {btxt[:40]} does not modify it",
                      f"{btxt} is modified while it is iterated: {bad}",
                      node=lp)
    ctx.floor("C16c-loops", n, 4)
