"""C16 - protein grouping is a maximal-subset grouping with a consistent
peptide map."""

from __future__ import annotations

import ast
import itertools

from ..cfg import CFG
from ..core import callee_is, AnalysisError, const_value, walk_own
from ..defuse import DefUse, Terms, show, walk_term
from ..events import container_events, root_name
from ..paths import var_leaves
from ..tutil import EvUnknown, ev_term, no_uids, simp, text_parts, unmap
from ..memo import check_no_cross_call_state
from ..astutil import inside, live

EXPLANATION = (
    "Static analysis of parsers.fasta.read_fasta and _group_proteins. (a) "
    "hash-order independence (ORDER, shared with C08b): sets of strings "
    "only reach order-free consumers, or sorted(). (b) unique/shared split "
    "is exactly 'one group' vs 'otherwise' (truth table over the number of "
    "groups), a unique peptide maps to the single element, shared peptides "
    "list all groups; the decoy of a target is decoy_prefix + name and only "
    "non-decoy names get a pairing. (c) proteins are visited in "
    "non-increasing peptide count; no container is mutated while it is "
    "iterated. (d) coverage of every protein: proteins enter the map iff "
    "their digest is non-empty; each iteration of the grouping loop either "
    "creates a group for the protein (when nothing contains it) or, for "
    "every group that contains it (candidates = intersection of the "
    "peptides' group sets, filtered only by 'is currently a group'), "
    "renames that group to include the protein and rewrites the peptide "
    "map of that group inside the same per-match iteration (old name "
    "removed, member removed, new name added). Nothing is cached across "
    "calls. Also: FASTA entries are cut at a '>' in the first column only (the split expression is evaluated, as a term, on four small texts); has_decoys is only ever raised inside the loop. "
    "Also: the new-group / rename table includes worlds in which another, not yet grouped, protein contains the protein. "
    "NOT decided: maximality for concrete incidence structures.")
TECHNIQUE = ("structural path/loop analysis + guard truth table + "
             "mutation-while-iterating scan + set-provenance taint (ORDER) "
             "+ cross-call state scan")

FA = "mokapot.parsers.fasta."


def run(ctx):
    from .common import READ_FASTA, FASTA_OPTIONS, cli_routing
    cli_routing(ctx, "C16b-cli-fasta-options", READ_FASTA, FASTA_OPTIONS,
                "the digestion and decoy pairing behind the protein groups")
    prog = ctx.prog
    gp = prog.func(FA + "_group_proteins")
    rf = prog.func(FA + "read_fasta")
    _group(ctx, gp)
    _read_fasta(ctx, rf)
    entry_boundaries(ctx)
    _no_mutation_while_iterating(ctx, [gp, rf])
    from .c08 import _set_order
    reach = prog.reachable([rf.qual])
    _set_order(ctx, reach)
    check_no_cross_call_state(
        ctx, "C16-no-cross-call-state",
        [prog.funcs[q] for q in sorted(reach) if q in prog.funcs
         and not isinstance(prog.funcs[q].node, ast.Lambda)], "FASTA read")


def _strip_growth(t):
    while t[0] in ("mutsub", "mut", "store"):
        t = t[1]
    if t[0] == "sub":
        return ("sub", _strip_growth(t[1]), t[2])
    return t


def _group(ctx, f):
    """Event-driven reading of _group_proteins."""
    prog = ctx.prog
    p_prot, p_pep = f.params
    cfg = CFG(f.node)
    du = DefUse(prog, f)
    T = Terms(du, phi_vars=True)
    evs = container_events(f.node, T, cfg)
    loops = [n for n in walk_own(f.node) if isinstance(n, ast.For)]
    outer = [n for n in loops if cfg.enclosing(n, (ast.For, ast.While))
             is None]
    ctx.require(len(outer) == 1, f"{f.qual}: protein loop not found")
    lp = outer[0]
    it = T.of(lp.iter)
    ok = False
    if it[0] == "call" and it[1] == "builtins.sorted" and it[2] == (
            ("mcall", ("param", p_prot), "items", (), ()),):
        kws = dict(it[3])
        key = kws.get("key")
        if key is not None and key[0] == "lambda" and len(key[1]) == 1:
            x = ("lparam", key[1][0])
            cnt = ("call", "builtins.len", (("sub", x, ("const", 1)),), ())
            rev = kws.get("reverse", ("const", False))
            ok = (key[2] == ("un", "-", cnt) and rev == ("const", False)) \
                or (key[2] == cnt and rev == ("const", True))
    ctx.check(ok, "C16c-largest-first", f,
              "proteins are visited in non-increasing peptide count (a "
              "group can only be contained in an earlier one)",
              f"loop over {show(it, 120)}", node=lp)
    PROT, PEPS = ("item", ("elem", it), 0), ("item", ("elem", it), 1)
    rets = [t for _r, t in T.returns()]
    ctx.require(len(rets) == 1 and rets[0][0] == "tuple"
                and len(rets[0][1]) == 2, f"{f.qual}: expected 'return "
                "groups, peptide map'")
    GR = root_name(rets[0][1][0])
    ctx.check(GR is not None and rets[0][1][1][:2] in (
        ("param", p_pep), ("var", p_pep)), "C16d-returns-groups-and-map", f,
        "groups and the rewritten peptide map are returned",
        f"returns {show(rets[0], 100)}", node=f.node)
    if GR is None:
        return

    def is_gr(t):
        return t[0] == "var" and t[1] == GR

    creates = [e for e in evs if e.kind == "store" and is_gr(e.recv)
               and e.key == PROT and e.value == PEPS]
    ctx.require(creates, f"{f.qual}: group creation not found")
    # candidates
    ren_pops = [e for e in evs if e.kind == "pop" and is_gr(e.recv)
                and e.stmt is not None]
    match_loops = {id(x): x for e in ren_pops
                   for x in [cfg.enclosing(e.stmt, (ast.For,))]
                   if x is not None and x is not lp}
    if not match_loops and ren_pops and all(
            cfg.enclosing(e.stmt, (ast.For,)) is lp for e in ren_pops):
        # the rename is there but not in a loop over the containing groups:
        # readable when the renamed group is *picked* out of the candidates
        picked = []
        for e in ren_pops:
            k = e.args[0] if e.args else ("unknown", "")
            leaves_ = var_leaves(du, T, k) if k[0] in ("var", "phi") else [k]
            for lf in leaves_:
                c = lf[1] if lf[0] == "call" else None
                if c in ("builtins.max", "builtins.min", "builtins.next") \
                        or (lf[0] == "sub" and lf[2][0] == "const") or (
                            lf[0] == "mcall" and lf[2] == "pop"):
                    picked.append(lf)
        if picked:
            ctx.check(False, "C16d-every-containing-group-renamed", f,
                      "every group that contains the protein takes it in",
                      f"only one containing group ({show(picked[0], 80)}) "
                      "is renamed, outside any loop over the candidates: "
                      "the other groups that contain the protein do not "
                      "list it, and its peptides keep pointing at them "
                      "under their old names", node=ren_pops[0].node)
            return
    ctx.require(len(match_loops) == 1, f"{f.qual}: per-match loop (the "
                "loop that renames a containing group) not found")
    ml = list(match_loops.values())[0]
    MATCHES = T.of(ml.iter)
    M = ("elem", MATCHES)
    # "no candidates while there are no groups yet" may be spelled as an
    # empty default:  phi([] | [c for c in ... if c in groups])
    CAND = MATCHES
    if CAND[0] in ("phi", "var"):
        non_empty = [x for x in var_leaves(du, T, CAND)
                     if x != ("list", ())]
        if len(non_empty) == 1:
            CAND = non_empty[0]
    ok = ok2 = False
    why = f"candidates are {show(MATCHES, 160)}"
    if CAND[0] == "comp" and len(CAND[3]) == 1:
        X = CAND[3][0][1]
        conds = CAND[3][0][2]
        want_x = ("call", "builtins.set.intersection",
                  (("star", ("comp", "list",
                             ("sub", None, ("elem", PEPS)),
                             ((None, PEPS, ()),))),), ())
        if X[0] in ("call", "mcall"):
            c = X[2] if X[0] == "call" else X[3]
            nm = X[1] if X[0] == "call" else X[2]
            if str(nm).endswith("intersection") and len(c) >= 1 and \
                    c[-1][0] == "star" and c[-1][1][0] == "comp":
                cc = c[-1][1]
                ok = (len(cc[3]) == 1 and cc[3][0][1] == PEPS
                      and not cc[3][0][2] and cc[2][0] == "sub"
                      and cc[2][1][:2] in (("param", p_pep), ("var", p_pep))
                      and cc[2][2] == ("elem", PEPS))
        el = ("elem", X)
        ok2 = CAND[2] == el and len(conds) == 1 and conds[0][0] == "cmp" \
            and conds[0][1] == "in" and conds[0][2] == el and (
                is_gr(conds[0][3]) or (conds[0][3][0] == "mcall" and is_gr(
                    conds[0][3][1]) and conds[0][3][2] == "keys"))
    if CAND[0] != "comp" and not (
            CAND[0] in ("call", "mcall") and "intersection" in str(
                CAND[1] if CAND[0] == "call" else CAND[2])):
        raise AnalysisError(
            f"{f.qual}: the candidate groups are built in a form the rule "
            f"does not read ({show(CAND, 100)}); rule C16d needs re-reading")
    ctx.check(ok, "C16d-candidates-contain-all-peptides", f,
              "candidate groups are those containing every peptide of the "
              "protein (intersection over its peptides)", why, node=ml)
    ctx.check(ok2, "C16d-candidate-filter", f,
              "candidates are filtered only by 'is currently a group'",
              why + ": a protein whose peptide set equals (or is contained "
              "in) an existing group's is not merged into it when an extra "
              "condition fails", node=ml)
    # creation / renaming conditions over (groups exist, candidates exist)
    def lconds(stmt):
        out = []
        for t, o in cfg.necessary_conditions(stmt):
            if inside(t, lp):
                tt = simp(T.of(t))
                while tt[0] == "un" and tt[1] == "not":
                    tt, o = tt[2], not o
                out.append((tt, o))
        return out

    pops = [e for e in evs if e.kind == "pop" and is_gr(e.recv)
            and e.args == (M,)]
    bad = []
    try:
        # worlds: (groups exist, a group contains the protein, another
        # protein that is not a group yet contains it too).  The unfiltered
        # intersection always holds the protein itself.
        XS = CAND[3][0][1] if ok else None
        for g, m, q in ((False, False, False), (True, False, False),
                        (True, True, False), (False, False, True),
                        (True, False, True), (True, True, True)):
            def atoms(t, g=g, m=m, q=q):
                # containers, so that truthiness and len() both work
                if is_gr(t):
                    return {"G": 1} if g else {}
                if t == MATCHES:
                    return ["G"] if m else []
                if XS is not None and t == XS:
                    return {"P"} | ({"G"} if m else set()) | (
                        {"Q"} if q else set())
                raise KeyError(t)
            # which statements of one round of the protein loop run in
            # this world: every test is decided on its term (guard
            # clauses with continue, nesting and if/else alike)
            undecided = {}

            def value(test, atoms=atoms):
                tt = simp(T.of(test))
                try:
                    return bool(ev_term(tt, atoms))
                except (EvUnknown, KeyError) as e_:
                    undecided.setdefault(id(test), str(e_))
                    return None
            start = cfg.node_of(lp.body[0]).id
            stop = frozenset({cfg.node_of(lp).id})
            cfg.visited_under(start, value, stop=stop)
            keys = sorted(undecided)
            if len(keys) > 6:
                raise EvUnknown(undecided[keys[0]])
            outcomes = set()
            for combo in itertools.product((True, False), repeat=len(keys)):
                forced = dict(zip(keys, combo))

                def decide(test, forced=forced):
                    if id(test) in forced:
                        return forced[id(test)]
                    return value(test)
                seen = cfg.visited_under(start, decide, stop=stop)
                outcomes.add((
                    tuple(i_ for i_, e in enumerate(creates)
                          if cfg.node_of(e.stmt).id in seen),
                    cfg.node_of(ml).id in seen and m and bool(pops)))
            if len(outcomes) != 1:
                # whether the protein is placed depends on a test the
                # table cannot evaluate
                raise EvUnknown(undecided[keys[0]])
            made_i, ren = next(iter(outcomes))
            made = [creates[i_] for i_ in made_i]
            want_new = (not g) or (not m)
            if (len(made) == 1) != want_new or ren != (not want_new):
                bad.append({"groups exist": g, "candidates": m,
                            "other containing proteins": q,
                            "new group": len(made), "renames": ren})
    except (EvUnknown, KeyError) as e:
        raise AnalysisError(
            f"{f.qual}: a grouping condition is outside the evaluated "
            f"fragment: {str(e)[:80]}")
    ctx.check(not bad, "C16d-new-group-iff-uncontained",
              f, "a protein founds a new group exactly when no group "
              "exists yet or none contains it", f"deviates: {bad}", node=lp)
    ctx.check(not bad, "C16d-every-protein-placed", f,
              "every visited protein is placed in a new or an existing "
              "group", f"deviates: {bad}", node=lp)
    # rename
    moves = [e for e in evs if e.kind == "store" and root_name(e.recv) == GR
             and e.key != PROT]
    NEW = moves[0].key if len(moves) == 1 else None
    ok_n = NEW is not None and text_parts(NEW) == [M, ("const", ", "), PROT]
    ctx.check(ok_n, "C16d-group-name", f,
              "the renamed group lists the old members followed by the new "
              "protein", f"{[show(e.key, 100) for e in moves]}", node=ml)
    ok_r = ok_n and len(pops) == 1 and moves[0].value == (
        "mcall", pops[0].recv, "pop", (M,), ()) and inside(
            moves[0].stmt, ml)
    ctx.check(ok_r, "C16d-rename-keeps-peptides", f,
              "renaming moves the group's peptide set under the new name "
              "(no peptide lost, old name gone)",
              f"{[show(e.value, 100) for e in moves]}", node=ml)
    if not ok_n:
        return
    # peptide-map rewrite inside the per-match loop
    pm = [e for e in evs if root_name(e.recv) == p_pep]
    ok_p = bool(pm) and all(e.stmt is not None and inside(e.stmt, ml)
                            for e in pm)
    why = ("the peptide-map update is not inside the per-match loop: when "
           "a protein is contained in several groups only one of them is "
           "rewritten and the others keep pointing at stale names")
    if ok_p:
        seen = {}
        for e in pm:
            r = _strip_growth(e.recv)
            k = r[2] if r[0] == "sub" else None
            over = k[1] if k and k[0] == "elem" else None
            # iterating the renamed group's peptides: grouped[NEW]
            okk = over is not None and ((
                _strip_growth(over)[0] == "sub"
                and _strip_growth(over)[2] == NEW
                and root_name(over) == GR) or no_uids(over) == no_uids(
                    moves[0].value))
            pl = cfg.enclosing(e.stmt, (ast.For,))
            cs = [(T.of(t), o)
                  for t, o in cfg.necessary_conditions(e.stmt)
                  if pl is not None and inside(t, pl)]
            seen.setdefault((e.kind, e.args), []).append((okk, cs, r))
        def has(kind, arg, guarded_ok=False):
            for okk, cs, r in seen.get((kind, (arg,)), []):
                if not okk:
                    continue
                if not cs:
                    return True
                if guarded_ok and len(cs) == 1 and cs[0][1] and \
                        cs[0][0][0] == "cmp" and cs[0][0][1] == "in" and \
                        cs[0][0][2] == arg and no_uids(_strip_growth(
                            cs[0][0][3])) == no_uids(r):
                    return True
            return False
        ok_p = (has("remove", M) and has("add", NEW)
                and (has("discard", PROT) or has("remove", PROT, True))
                and len(pm) == 3)
        why = "per-peptide updates are " + str(
            [(k, [show(a, 40) for a in args]) for k, args in seen])
    ctx.check(ok_p, "C16d-peptide-map-rewritten-per-match", f,
              "for every renamed group, each of its peptides drops the old "
              "group name and the bare member and gains the new name",
              why, node=ml)


def _loop_conds(cfg, T, stmt):
    """conditions decided inside the outermost loop around ``stmt``"""
    loops = cfg.enclosing_all(stmt, (ast.For, ast.While))
    if not loops:
        return []
    outer = loops[-1] if inside(loops[0], loops[-1]) else loops[0]
    out = []
    for t, o in cfg.necessary_conditions(stmt):
        if inside(t, outer) and t is not getattr(outer, "test", None):
            tt = simp(T.of(t))
            while tt[0] == "un" and tt[1] == "not":
                tt, o = tt[2], not o
            out.append((tt, o))
    return out


def entry_boundaries(ctx, rule="C16a-entry-boundaries"):
    """A FASTA entry starts at a '>' in the first column and nowhere else:
    the expression that cuts the joined file text into entries is evaluated
    - the expression, with the text as a free variable; no repository code
    runs - on small texts whose description lines contain ' >' and tab-'>'
    (as legacy NCBI definition lines do).  The entries must be those that
    begin at line starts."""
    from ..chunks import Unknown as _U, ev as _ev
    from ..tutil import map_term
    prog = ctx.prog
    f = prog.func(FA + "_parse_fasta_files")
    T = Terms(DefUse(prog, f))
    rets = T.returns()
    ctx.require(len(rets) == 1, f"{f.qual}: expected one return")
    rnode, rt = rets[0]
    joins = [x for x in walk_term(rt) if isinstance(x, tuple) and x
             and x[0] == "mcall" and x[2] == "join" and x[1][0] == "const"]
    ctx.require(len(joins) >= 1, f"{f.qual}: the joined text of the files "
                "is not found in what is returned")
    J = joins[0]
    TEXT = ("free", "<text>")
    expr = map_term(rt, lambda x: TEXT if x == J else x)
    texts = [
        ">a first\nPEPTIDEK\nAAAR\n>b second\nCCCK\n",
        ">gi|1| kinase A >gi|2| kinase\nPEPK\n>c\tx >y z\nDDDR\n",
        ">only\nSEQK",
        ">x\nAAA\n\n>y\nBBB\n",
    ]
    bad = []
    try:
        for text in texts:
            def atoms(t, text=text):
                if t == TEXT:
                    return text
                raise KeyError(t)
            got = _ev(expr, atoms)
            if not isinstance(got, (list, tuple)):
                raise _U("the result is not a list of entries")
            want = [e for e in text[1:].split("\n>")]
            norm = lambda es: [e.strip() for e in es if e.strip()]  # noqa
            if norm(got) != norm(want):
                bad.append((text[:40], [e[:14] for e in norm(got)][:4]))
    except (_U, KeyError) as e:
        raise AnalysisError(f"{f.qual}: the entry split is outside the "
                            f"evaluated fragment: {str(e)[:100]}")
    ctx.check(not bad, rule, f,
              "entries are cut at every '>' that starts a line, and only "
              "there (4 texts evaluated)",
              f"(text, entries found) = {bad[:2]}: a '>' inside a "
              "description line starts a phantom entry and the real "
              "protein loses its sequence", node=rnode)


def _read_fasta(ctx, f):
    """Event-driven: what is stored into the maps that reach Proteins(...),
    under which conditions."""
    prog = ctx.prog
    cfg = CFG(f.node)
    du = DefUse(prog, f)
    T = Terms(du, phi_vars=True)
    evs = container_events(f.node, T, cfg)
    call = [n for n in ast.walk(f.node) if isinstance(n, ast.Call)
            and callee_is(prog, f, n, "Proteins")]
    ctx.require(len(call) == 1, f"{f.qual}: Proteins(...) not found")
    pinit = prog.funcs.get("mokapot.proteins.Proteins.__init__")
    if pinit is not None:
        kw = {k: T.of(v) for k, v in prog.bind(pinit, call[0]).items()
              if k != "self"}
    else:
        kw = {k.arg: T.of(k.value) for k in call[0].keywords}
    U, S, D = (root_name(kw.get(k, ("x",))) for k in (
        "peptide_map", "shared_peptides", "protein_map"))
    gp = [t for n in ast.walk(f.node) if isinstance(n, ast.Call)
          for t in [T.of(n)] if t[0] == "call"
          and t[1] == FA + "_group_proteins"]
    # one grouping pass over ALL digested proteins: a protein can only be
    # merged into a group the same call has seen
    partial = [g for g in gp if g[2] and g[2][0][0] == "comp"
               and any(c[2] for c in g[2][0][3])]
    ctx.check(len(gp) <= 1 and not partial, "C16d-grouped-together", f,
              "all digested proteins are grouped in one _group_proteins "
              "pass",
              f"{len(gp)} grouping call(s), {len(partial)} of them over a "
              "filtered part of the proteins: a protein whose peptides are "
              "contained in a protein of the other part is never merged "
              "(groups are no longer maximal, shared peptides are "
              "mis-classified)",
              node=f.node)
    ctx.require(len(gp) == 1 and len(gp[0][2]) == 2,
                f"{f.qual}: _group_proteins call not found")
    G = gp[0]
    PROTEINS, PEPTIDES = root_name(G[2][0]), root_name(G[2][1])
    if PROTEINS is None:
        vs = {x[1] for x in walk_term(G[2][0]) if isinstance(x, tuple)
              and x and x[0] == "var"}
        PROTEINS = vs.pop() if len(vs) == 1 else None
    D_COMP = None
    if D is None and kw.get("protein_map", ("x",))[0] == "comp":
        D_COMP = kw["protein_map"]
        D = "<comprehension>"
    ctx.require(None not in (U, S, D, PROTEINS, PEPTIDES)
                and len({U, S, D, PROTEINS, PEPTIDES}) == 5,
                f"{f.qual}: the maps handed to Proteins / _group_proteins "
                "are not five distinct local containers")

    def by_root(name):
        return [e for e in evs if root_name(e.recv) == name]

    # ---- proteins enter iff their digest is non-empty
    pe, pp = by_root(PROTEINS), by_root(PEPTIDES)
    ok = False
    why = (f"updates of {PROTEINS}: {[e.kind for e in pe]}; of {PEPTIDES}: "
           f"{[e.kind for e in pp]}")
    if len(pe) == 1 and len(pp) == 1 and pe[0].kind == "store" and \
            pp[0].kind == "add":
        dig, prot = unmap(pe[0].value), unmap(pe[0].key)
        src = unmap(pp[0].recv)
        keyt = src[2] if src[0] == "sub" else None
        over = keyt[1] if keyt and keyt[0] == "elem" else None
        if over is not None and over[0] == "call" and \
                over[1] == "builtins.sorted" and over[2]:
            over = over[2][0]
        c1, c2 = _loop_conds(cfg, T, pe[0].stmt), _loop_conds(
            cfg, T, pp[0].stmt)
        ok = (dig[0] == "call" and dig[1] == FA + "digest"
              and prot[0] == "item" and prot[2] == 0
              and prot[1][0] == "call" and prot[1][1] == FA +
              "_parse_protein" and dig[2][:1] == (("item", prot[1], 1),)
              and over == dig and unmap(pp[0].args) == (prot,)
              and [(unmap(c), o) for c, o in c1] == [(dig, True)]
              and [(unmap(c), o) for c, o in c2] == [(dig, True)])
        why = (f"{PROTEINS}[{show(prot, 50)}] = {show(dig, 60)} under "
               f"{[show(c, 50) for c in c1]}; {show(src, 80)}.add("
               f"{[show(a, 50) for a in pp[0].args]}) under "
               f"{[show(c, 50) for c in c2]}")
    ctx.check(ok, "C16d-protein-enters-iff-digested", f,
              "a protein and its peptides are recorded iff its digest is "
              "non-empty", why, node=pe[0].node if pe else f.node)
    # ---- unique vs shared, decided on the grouped peptide map
    GP = ("item", G, 1)
    KEY, VAL = ("key", GP), ("value", GP)
    ue, se = by_root(U), by_root(S)
    bad = []
    ok = len(ue) == 1 and len(se) == 1 and ue[0].kind == "store" and \
        se[0].kind == "store"
    if ok:
        want_u = ("call", "builtins.next",
                  (("call", "builtins.iter", (VAL,), ()),), ())
        want_s = ("mcall", ("const", "; "), "join",
                  (("call", "builtins.sorted", (VAL,), ()),), ())
        from ..tutil import map_term

        def kv(t):
            """for p in D: ... D[p] ...  reads the same key / value as
            for p, v in D.items()"""
            def g(x):
                if x == ("sub", GP, ("elem", GP)):
                    return VAL
                return x
            t = map_term(t, g)
            return map_term(t, lambda x: KEY if x == ("elem", GP) else x)
        u_key, u_val = kv(ue[0].key), kv(ue[0].value)
        s_key, s_val = kv(se[0].key), kv(se[0].value)
        ok = (u_key == KEY and s_key == KEY
              and u_val in (want_u, ("item", VAL, 0))
              and s_val == want_s)
        cu = [(kv(t_), o_) for t_, o_ in _loop_conds(cfg, T, ue[0].stmt)]
        cs = [(kv(t_), o_) for t_, o_ in _loop_conds(cfg, T, se[0].stmt)]
        LEN = ("call", "builtins.len", (VAL,), ())
        try:
            for n in (1, 2, 3):
                def atoms(t, n=n):
                    if t == LEN:
                        return n
                    raise KeyError(t)
                gu = all(bool(ev_term(t, atoms)) == o for t, o in cu)
                gs = all(bool(ev_term(t, atoms)) == o for t, o in cs)
                if gu != (n == 1) or gs != (n != 1):
                    bad.append((n, gu, gs))
        except (EvUnknown, KeyError) as e:
            raise AnalysisError(
                f"{f.qual}: the unique/shared condition is outside the "
                f"evaluated fragment: {str(e)[:80]}")
    ctx.check(ok and not bad, "C16b-unique-shared-split", f,
              "a peptide is unique iff exactly one group contains it (then "
              "mapped to that group), otherwise shared and listing all its "
              "groups in sorted order - decided on the grouped peptide map",
              f"unique stores: {[(show(e.key, 40), show(e.value, 60)) for e in ue]}"
              f"; shared stores: {[(show(e.key, 40), show(e.value, 60)) for e in se]}"
              f"; (groups, unique, shared) deviating: {bad}",
              node=ue[0].node if ue else f.node)
    ctx.check(ok, "C16d-grouped-before-split", f,
              "the unique/shared split runs on the grouped peptide map",
              "grouping result is not what the split iterates",
              node=ue[0].node if ue else f.node)
    # ---- decoy pairing
    de = by_root(D)
    ok = len(de) == 1 and de[0].kind == "store"
    why = f"updates of {D}: {[e.kind for e in de]}"
    if D_COMP is not None:
        # {name: prefix + name for name in proteins if not name.startswith(
        # prefix)}
        PRE = ("param", "decoy_prefix")
        gens = D_COMP[3]
        ok = False
        if D_COMP[1] == "dict" and len(gens) == 1 and \
                D_COMP[2][0] == "tuple":
            k, v = D_COMP[2][1]
            it = gens[0][1]
            conds = [c[2] if c[0] == "un" and c[1] == "not" else ("x",)
                     for c in gens[0][2]]
            ok = (k == ("elem", it) and v == ("bin", "+", PRE, k)
                  and conds == [("mcall", k, "startswith", (PRE,), ())]
                  and any(isinstance(x, tuple) and x[:2] == (
                      "var", PROTEINS) for x in walk_term(it)))
        why = f"pairing is {show(D_COMP, 160)}"
    elif ok:
        k = de[0].key
        cd = _loop_conds(cfg, T, de[0].stmt)
        PRE = ("param", "decoy_prefix")
        SW = ("mcall", k, "startswith", (PRE,), ())
        ok = (k[0] == "elem" and any(
            isinstance(x, tuple) and x[:2] == ("var", PROTEINS)
            for x in walk_term(k[1]))
            and de[0].value == ("bin", "+", PRE, k)
            and cd == [(SW, False)])
        why = (f"{D}[{show(k, 40)}] = {show(de[0].value, 60)} under "
               f"{[(show(c, 60), o) for c, o in cd]}")
    ctx.check(ok, "C16b-decoy-pairing", f,
              "every non-decoy protein is paired with decoy_prefix + its "
              "name", why, node=de[0].node if de else call[0])
    # has_decoys summarises the loop over the proteins ("some target's
    # decoy is in the file"): a flag that is set inside a loop may only
    # ever be raised there - assigning it the result of this iteration's
    # test makes it the answer for the last protein only
    hd = kw.get("has_decoys")
    bad_hd = []
    if hd is not None and hd[0] == "var":
        for d in T.var_defs.get(hd, []):
            if d.node is None:
                continue
            if cfg.enclosing(d.node, (ast.For, ast.While)) is None:
                continue
            v = T.of_def(d)
            if v != ("const", True):
                bad_hd.append((getattr(d.node, "lineno", "?"),
                               show(v, 60)))
    ctx.check(not bad_hd, "C16b-has-decoys-is-a-latch", f,
              "has_decoys is only ever raised inside the loop over the "
              "proteins",
              f"has_decoys is assigned (line, value) {bad_hd} inside the "
              "loop: it ends up describing the last protein visited, and "
              "a database with decoys can be treated as target-only",
              node=call[0])
    # ... and it is existential: raised for a target whose decoy name is
    # in the file, lowered nowhere but at its initialisation. A flag
    # computed after the loop from a counter of the targets *without* a
    # decoy ("not missing", "missing == 0") says "every target has one":
    # a database with a single unpaired target is then treated as
    # target-only
    if hd is not None:
        raised = 0
        if hd[0] == "var":
            cands = [(d.node, T.of_def(d)) for d in T.var_defs.get(hd, [])
                     if d.node is not None]
        else:
            # a single definition is read through by the term builder
            cands = [(call[0], hd)]
        for dnode, v in cands:
            in_loop = dnode is not call[0] and cfg.enclosing(
                dnode, (ast.For, ast.While)) is not None
            if in_loop:
                if v == ("const", True):
                    cd = _loop_conds(cfg, T, cfg.stmt_of(dnode))
                    member = [c for c, o in cd if o and c[0] == "cmp"
                              and c[1] == "in"]
                    absent = [c for c, o in cd if not o and c[0] == "cmp"
                              and c[1] == "not in"]
                    ctx.check(bool(member or absent),
                              "C16b-has-decoys-is-existential", f,
                              "has_decoys is raised where a target's decoy "
                              "name is found among the proteins",
                              "has_decoys = True under "
                              f"{[(show(c, 60), o) for c, o in cd]}: no "
                              "membership test guards it", node=dnode)
                    raised += 1
                continue
            if v == ("const", False):
                continue
            # a definition outside the loop that is not the initialisation
            w = v
            neg = False
            while w[0] == "un" and w[1] == "not":
                w, neg = w[2], not neg
            zero_test = (w[0] == "cmp" and w[1] in ("==", "<=") and
                         ("const", 0) in (w[2], w[3]))
            counter = None
            if neg and w[0] == "var":
                counter = w
            elif zero_test and not neg:
                counter = w[2] if w[3] == ("const", 0) else w[3]
            counted = counter is not None and counter[0] == "var" and any(
                dd.node is not None and cfg.enclosing(
                    dd.node, (ast.For, ast.While)) is not None
                for dd in T.var_defs.get(counter, []))
            if counted:
                ctx.fail("C16b-has-decoys-is-existential", f,
                         f"has_decoys = {show(v, 60)}",
                         "has_decoys is true only when the loop's counter "
                         f"{show(counter, 30)} stayed at zero, that is when "
                         "*every* target has a decoy: a database in which "
                         "one target lacks its decoy is treated as "
                         "target-only", node=dnode)
                raised += 1
            else:
                # e.g. "missing < number of targets", a sum over a
                # comprehension: not judged by this clause (the latch
                # clause above and the pairing clause still apply)
                ctx.note(f"{f.qual}: has_decoys = {show(v, 80)} outside "
                         "the protein loop is not a form the existential "
                         "clause reads; clause skipped")
                raised += 1
        ctx.require(raised >= 1,
                    f"{f.qual}: no place where has_decoys is raised")
    ok = (kw.get("decoy_prefix") == ("param", "decoy_prefix")
          and set(kw) == {"decoy_prefix", "peptide_map", "shared_peptides",
                          "protein_map", "has_decoys"})
    ctx.check(ok, "C16b-maps-returned", f,
              "the Proteins object carries the unique map, the shared map "
              "and the pairing under their own names",
              f"{[ast.unparse(c)[:120] for c in call]}", node=call[0])


def _no_mutation_while_iterating(ctx, funcs):
    n = 0
    for f in funcs:
        for lp in [x for x in ast.walk(f.node) if isinstance(x, ast.For)]:
            it = lp.iter
            base = it
            while isinstance(base, ast.Call) and isinstance(
                    base.func, ast.Attribute) and base.func.attr in (
                        "items", "keys", "values") and not base.args:
                base = base.func.value
            if isinstance(base, ast.Call):
                continue  # sorted(...), enumerate(...): iterates a copy
            btxt = ast.unparse(base)
            n += 1
            bad = []
            for x in ast.walk(lp):
                if x is lp:
                    continue
                if isinstance(x, ast.Call) and isinstance(
                        x.func, ast.Attribute) and x.func.attr in (
                            "add", "remove", "discard", "pop", "clear",
                            "update", "append", "insert", "popitem",
                            "setdefault") and ast.unparse(
                                x.func.value) == btxt:
                    bad.append(ast.unparse(x)[:50])
                if isinstance(x, (ast.Assign, ast.Delete)):
                    ts = x.targets
                    for t in ts:
                        if isinstance(t, ast.Subscript) and ast.unparse(
                                t.value) == btxt:
                            bad.append(ast.unparse(x)[:50])
            ctx.check(not bad, "C16c-no-mutation-while-iterating", f,
                      f"loop over {btxt[:40]} does not modify it",
                      f"{btxt} is modified while it is iterated: {bad}",
                      node=lp)
    ctx.floor("C16c-loops", n, 2)
