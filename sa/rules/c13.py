"""C13 - chunked table reading equals whole reading; writers lose and
reorder nothing."""

from __future__ import annotations

import ast

from ..cfg import CFG, cond_strings
from ..tutil import dict_from_zip, lin, map_term, np_call
from ..core import callee_is, AnalysisError, const_value, walk_own
from ..defuse import DefUse, Terms, show, walk_term
from ..effects import WriterEvents
from ..astutil import cond_terms, live, norm_cmp
from ..proto import SELF, Calls, args_of

EXPLANATION = (
    "Static analysis of every concrete TabularDataReader / "
    "TabularDataWriter in tabular_data.py and streaming.py. (a) reader "
    "conformance (sibling agreement over 7 reader classes x read / "
    "get_chunked_data_iterator): the optional 'columns' parameter is never "
    "iterated or searched on a path where it may be None (NULL rule); on "
    "the non-None path the requested order is restored by subscripting "
    "with the list or by handing it to an order-preserving reader/API; a "
    "column-mapped frame is a new object (no in-place rename of a frame "
    "owned by another reader). (b) chunk partition: the in-memory reader "
    "cuts iloc[pos:pos+w] for pos in range(0, len, w). (c) the Parquet "
    "iterator re-bases each batch's row index (shared with C05f). (d) "
    "buffered writer: only _write_buffer hands rows to the inner writer; "
    "the flushed prefix and the kept suffix use the same bound; appends "
    "put new rows behind buffered ones; every append ends in a flush "
    "attempt; finalize forces the flush before the inner finalize. (e) "
    "writer lifecycle: write() is check/initialize/append/finalize in that "
    "order; auto_finalize enters all writers and exits all in a finally; "
    "every writer group that receives append_data in the package reaches "
    "finalize on all normal paths; the CSV writer validates, appends "
    "without header and initialises with the header; the Parquet writer "
    "writes with its schema and closes. Also: Parquet read() and chunk iterator agree on the Arrow->pandas conversion; text writer and text reader agree on cell-format options; every write() override starts from an empty file; the computed column is attached by position, not by index label; columns are selected iff a list was given (truth table over the method specialised to None / not None). "
    "Also: whatever becomes the buffered writer's buffer is a fresh object, never a parameter of the method (the caller's list or frame). "
    "NOT decided: value round-trip "
    "through CSV text.")
TECHNIQUE = ("sibling agreement over an interface + optional-parameter "
             "contradiction (NULL) + slice-partition (STRIDE) + who-may-call "
             "+ writer typestate on the CFG")

TD = "mokapot.tabular_data."
ST = "mokapot.streaming."
READERS = [TD + "ColumnMappedReader", TD + "CSVFileReader",
           TD + "DataFrameReader", TD + "ParquetFileReader",
           ST + "JoinedTabularDataReader", ST + "ComputedTabularDataReader",
           ST + "MergedTabularDataReader"]


def run(ctx):
    prog = ctx.prog
    _readers(ctx)
    _dataframe_partition(ctx, prog.func(
        TD + "DataFrameReader.get_chunked_data_iterator"))
    from .c05 import _parquet_index
    _parquet_index(ctx)
    _buffered(ctx)
    _lifecycle(ctx)


# ------------------------------------------------------------------ a
def _none_safe(ctx, f, pname):
    """NULL rule for optional list parameter ``pname``."""
    cfg = CFG(f.node)
    du = DefUse(ctx.prog, f)
    bad = []
    for n in walk_own(f.node):
        risky = None
        if isinstance(n, (ast.For, ast.comprehension)) and isinstance(
                n.iter, ast.Name) and n.iter.id == pname:
            risky = n.iter
        elif isinstance(n, ast.Compare) and isinstance(
                n.ops[0], (ast.In, ast.NotIn)) and isinstance(
                    n.comparators[0], ast.Name) and \
                n.comparators[0].id == pname:
            risky = n.comparators[0]
        elif isinstance(n, ast.Call) and ast.unparse(n.func) == "len" and \
                n.args and isinstance(n.args[0], ast.Name) and \
                n.args[0].id == pname:
            risky = n.args[0]
        if risky is None:
            continue
        # still the parameter?
        if not any(d.kind == "param" for d in du.defs_of(risky)):
            continue
        # protected by a None test on every path: syntactic guards
        gs = cfg.guards(risky)
        safe = False
        for test, pol in gs:
            t = ast.unparse(test)
            if (t == f"{pname} is None" and not pol) or (
                    t == f"{pname} is not None" and pol) or (
                    t == pname and pol):
                safe = True
        # short-circuit inside the same boolean expression:
        #   columns is None or col in columns
        par = cfg.parent.get(id(n if isinstance(n, ast.Compare) else risky))
        p = n if isinstance(n, ast.Compare) else None
        while p is not None and not safe:
            par = cfg.parent.get(id(p))
            if isinstance(par, ast.BoolOp):
                idx = [i for i, v in enumerate(par.values) if v is p]
                if idx:
                    before = [ast.unparse(v) for v in par.values[:idx[0]]]
                    if isinstance(par.op, ast.Or) and \
                            f"{pname} is None" in before:
                        safe = True
                    if isinstance(par.op, ast.And) and \
                            f"{pname} is not None" in before:
                        safe = True
                p = par
            else:
                break
        # semantic guards: every path to the statement has decided that
        # the parameter is not None (early return / continue, nesting)
        if not safe:
            st = cfg.stmt_of(risky)
            cs = set(cfg.conditions(st))
            if f"{pname} is not None" in cs or pname in cs:
                safe = True
        if not safe:
            st = cfg.stmt_of(risky)
            nid = cfg.node_of(st).id
            rets = [s for s in ast.walk(f.node) if isinstance(s, ast.If)
                    and ast.unparse(s.test) == f"{pname} is None"
                    and s.body and isinstance(s.body[-1], ast.Return)]
            for r in rets:
                if cfg.every_path_passes(cfg.entry.id, nid,
                                         {cfg.node_of(r).id}):
                    safe = True
        if not safe:
            bad.append(ast.unparse(n if not isinstance(
                n, ast.comprehension) else n.iter)[:60])
    return bad


def _uses_columns(f, pname):
    """How the requested column list reaches the result."""
    kinds = set()
    for n in walk_own(f.node):
        if isinstance(n, ast.Subscript) and isinstance(
                n.slice, ast.Name) and n.slice.id == pname:
            kinds.add("subscript")
        if isinstance(n, ast.Call):
            for kw in n.keywords:
                # pandas' usecols= does not keep the requested order, so
                # it does not count as honouring the request
                if kw.arg in ("columns",) and pname in {
                        x.id for x in ast.walk(kw.value)
                        if isinstance(x, ast.Name)}:
                    kinds.add("forwarded")
            for a in n.args:
                if isinstance(a, ast.Name) and a.id == pname and \
                        ast.unparse(n.func).split(".")[-1] in (
                            "read", "get_chunked_data_iterator",
                            "_get_orig_columns", "_subset_columns",
                            "_reader_columns", "get_row_iterator"):
                    kinds.add("forwarded")
    return kinds


def conversions_agree(ctx, rule="C13a-conversion-agrees"):
    """Sibling agreement: the whole-file read and the chunked read of the
    Parquet reader turn Arrow data into frames with the same conversion
    (same arguments of to_pandas): otherwise the two ways of reading one
    table give frames with different dtypes / missing-value behaviour, and
    code that was checked against one (the NaN scan, the label conversion)
    meets the other."""
    from ..proto import Calls
    prog = ctx.prog
    cls = prog.cls(TD + "ParquetFileReader")
    forms = {}
    for m in ("read", "get_chunked_data_iterator"):
        f = cls.methods.get(m)
        ctx.require(f is not None, f"{TD}ParquetFileReader.{m} not defined")
        cl = Calls(prog, f)
        got = cl.mcalls("to_pandas")
        ctx.require(got, f"{f.qual}: no Arrow -> pandas conversion found")
        forms[m] = sorted({(tkey_(t[3]), tkey_(tuple(sorted(t[4]))))
                           for t, _n in got})
    ctx.check(forms["read"] == forms["get_chunked_data_iterator"], rule,
              cls.methods["get_chunked_data_iterator"],
              "read() and the chunk iterator convert Arrow data with the "
              "same to_pandas(...) arguments",
              f"read() converts with {forms['read']}, the chunk iterator "
              f"with {forms['get_chunked_data_iterator']}: chunked and "
              "whole reading of one file give frames of different dtypes "
              "(missing values, labels and comparisons behave differently)",
              node=cls.methods["get_chunked_data_iterator"].node)


def tkey_(t):
    from ..defuse import key as _k
    return _k(("tuple", tuple(t))) if isinstance(t, tuple) and (
        not t or isinstance(t[0], tuple)) else _k(t)


def _select_iff_given(ctx, f, pname):
    """Sink-driven: every value the method returns or yields, in the copy of
    the method specialised to ``columns is None`` and in the copy
    specialised to "a list was given" (branches on that test pruned, so
    statement-level tests, conditional expressions and re-bindings of the
    frame are all followed on the right path)."""
    from ..align import NOT_NONE
    from ..defuse import specialise
    prog = ctx.prog
    P = ("param", pname)

    def is_select(t):
        return t[0] == "sub" and t[2] == P

    def phi_alts(t):
        if t[0] == "phi":
            return [y for x in t[1] for y in phi_alts(x)]
        if t[0] == "ifexp":
            return phi_alts(t[2]) + phi_alts(t[3])
        return [t]

    def values(env_value):
        fnode = specialise(f.node, {pname: env_value})
        T = Terms(DefUse(prog, f, fnode=fnode))
        scfg = CFG(fnode)
        live_ids = scfg.reachable_normally(scfg.entry.id, avoid=set()) | {
            scfg.entry.id}
        out = []
        for n in walk_own(fnode):
            if isinstance(n, (ast.Return, ast.Yield)) and \
                    n.value is not None:
                try:
                    if scfg.node_of(scfg.stmt_of(n)).id not in live_ids:
                        continue    # dead tail behind a pruned return
                except Exception:  # noqa: BLE001
                    pass
                t = T.of(n.value)
                if env_value is None:
                    # conditional expressions on the pruned test
                    t = _resolve_none_tests(t, P, True)
                else:
                    t = _resolve_none_tests(t, P, False)
                for x in phi_alts(t):
                    out.append((x, n))
        return out

    def root(t):
        """the object, whatever was stored into it on the way"""
        while t[0] in ("store", "mut", "mutsub", "augstore", "delitem"):
            t = t[1]
        return t

    when_none = values(None)
    when_list = values(NOT_NONE)
    if not any(is_select(t) for t, _n in when_none + when_list):
        return          # the list is forwarded, nothing is selected here
    bad_none = [n for t, n in when_none if is_select(t)]
    bad_list = [n for t, n in when_list if not is_select(t)]
    frames_none = {tkey_(root(x)) for t, _n in when_none if not is_select(t)
                   for x in phi_alts(t)}
    frames_list = {tkey_(root(x)) for t, _n in when_list if is_select(t)
                   for x in phi_alts(t[1])}
    ok = not bad_none and not bad_list and frames_none == frames_list
    ctx.check(ok, "C13a-select-iff-columns-given", f,
              "the requested columns are selected iff a list was given, "
              "from the frame that is returned otherwise",
              ("with columns=None a value is subscripted by None; "
               if bad_none else "")
              + ("with a column list an unselected frame is handed out; "
                 if bad_list else "")
              + (f"selected from {sorted(frames_list)} but returned "
                 f"unselected {sorted(frames_none)}"
                 if frames_none != frames_list else ""),
              node=f.node)


def _resolve_none_tests(t, P, is_none):
    """conditional expressions on ``P is None`` / ``P is not None`` resolved
    for the valuation"""
    NONE = ("const", None)

    def f(x):
        if x[0] == "ifexp":
            c, neg = x[1], False
            while c[0] == "un" and c[1] == "not":
                c, neg = c[2], not neg
            if c[0] == "cmp" and c[1] in ("is", "is not", "==", "!=") and \
                    {c[2], c[3]} == {P, NONE}:
                v = is_none if c[1] in ("is", "==") else not is_none
                return x[2] if (v != neg) else x[3]
        return x
    return map_term(t, f)


def _computed_column_positional(ctx):
    """The computed column is attached row by row: the value stored under
    the column's name is the function's result itself.  Wrapped in a pandas
    object with an index of its own (pd.Series(values) starts at 0) the
    assignment aligns on labels instead, and every chunk after the first -
    whose rows carry their position in the file as labels - gets NaN."""
    from ..events import container_events
    from ..cfg import CFG as _CFG
    prog = ctx.prog
    cls = prog.cls(ST + "ComputedTabularDataReader")
    n = 0
    for m in ("read", "get_chunked_data_iterator"):
        f = cls.methods.get(m)
        ctx.require(f is not None, f"{cls.qual}.{m} not defined")
        T = Terms(DefUse(prog, f))
        for e in container_events(f.node, T, _CFG(f.node)):
            if e.kind != "store" or e.key != ("attr", SELF, "column"):
                continue
            n += 1
            frame = e.recv
            bad = []
            for x in walk_term(e.value):
                if isinstance(x, tuple) and x and x[0] == "call" and \
                        x[1] in ("pandas.Series", "pandas.DataFrame"):
                    idx = dict(x[3]).get("index")
                    own = idx is not None and idx[0] == "attr" and \
                        idx[2] == "index"
                    if not own:
                        bad.append(show(x, 70))
            ctx.check(not bad, "C13a-computed-column-positional", f,
                      "the computed values are attached by position",
                      f"the column is assigned {bad[:1]}: a pandas object "
                      "with a fresh 0..n-1 index is aligned on labels, so "
                      "chunks after the first (labels = row numbers of the "
                      "file) receive NaN - chunked and whole reading differ",
                      node=e.node)
    ctx.floor("C13a-computed-column-stores", n, 2)


def _readers(ctx):
    prog = ctx.prog
    conversions_agree(ctx)
    _computed_column_positional(ctx)
    n = 0
    for cq in READERS:
        cls = prog.cls(cq)
        for m in ("read", "get_chunked_data_iterator"):
            f = cls.methods.get(m)
            ctx.require(f is not None, f"{cq}.{m} not defined")
            n += 1
            pname = "columns"
            ctx.require(pname in f.params, f"{f.qual}: no 'columns' "
                        "parameter")
            ctx.check(const_value(f.defaults().get(pname), 0) is None,
                      "C13a-columns-optional", f,
                      "columns defaults to None (all columns)",
                      "columns has no None default", node=f.node)
            bad = _none_safe(ctx, f, pname)
            ctx.check(not bad, "C13a-none-safe", f,
                      "'columns' is never iterated/searched where it may be "
                      "None", f"'columns' may be None in {bad}: reading all "
                      "columns raises TypeError", node=f.node)
            kinds = _uses_columns(f, pname)
            ctx.check(bool(kinds), "C13a-requested-columns-honoured", f,
                      "the requested column list reaches the result "
                      "(subscript or forwarded to the inner reader/API)",
                      "the 'columns' argument is ignored", node=f.node)
            # the selection frame[columns] happens exactly when a list was
            # given, and from the frame that is returned otherwise
            _select_iff_given(ctx, f, pname)
        # siblings: whole-file read and chunked read of one reader must
        # agree on whether the requested order is restored by a final
        # selection frame[columns]
        sel = {m: "subscript" in _uses_columns(cls.methods[m], "columns")
               for m in ("read", "get_chunked_data_iterator")}
        ctx.check(sel["read"] == sel["get_chunked_data_iterator"],
                  "C13a-read-and-chunks-agree", cls.methods["read"],
                  f"{cq.rsplit('.', 1)[-1]}: read() and the chunk iterator "
                  "both " + ("restore" if sel["read"] else "delegate")
                  + " the requested column order",
                  f"read() {'selects frame[columns]' if sel['read'] else 'does not select'}"
                  " but the chunk iterator "
                  f"{'does' if sel['get_chunked_data_iterator'] else 'does not'}"
                  ": the two ways of reading the same table return their "
                  "columns in different orders",
                  node=cls.methods["get_chunked_data_iterator"].node)
        # helper methods taking the optional list
        for name, hf in cls.methods.items():
            if name in ("read", "get_chunked_data_iterator") or \
                    name.startswith("__"):
                continue
            for p in hf.params:
                if p in ("columns", "column_names"):
                    bad = _none_safe(ctx, hf, p)
                    ctx.check(not bad, "C13a-none-safe", hf,
                              f"helper {name}: '{p}' never dereferenced "
                              "where it may be None",
                              f"'{p}' may be None in {bad}", node=hf.node)
    ctx.floor("C13a-reader-methods", n, 14)
    # column-mapped frames are new objects
    g = prog.func(TD + "ColumnMappedReader._get_mapped_dataframe")
    ren = [x for x in ast.walk(g.node) if isinstance(x, ast.Call)
           and isinstance(x.func, ast.Attribute)
           and x.func.attr == "rename"]
    ok = bool(ren) and all(
        const_value({k.arg: k.value for k in r.keywords}.get(
            "inplace"), False) is False for r in ren)
    inplace_any = [x for x in ast.walk(g.node) if isinstance(x, ast.keyword)
                   and x.arg == "inplace" and const_value(x.value) is True]
    ctx.check(ok and not inplace_any, "C13a-mapped-frame-is-new", g,
              "renaming columns never modifies the frame handed out by the "
              "wrapped reader (which may be the reader's own table)",
              "the wrapped reader's frame is renamed in place: a whole read "
              "of an in-memory reader changes the table later reads and "
              "chunks are taken from", node=g.node)
    # ColumnMappedReader maps requested names back through the same map
    oc = prog.func(TD + "ColumnMappedReader._get_orig_columns")
    oT = Terms(DefUse(prog, oc))
    p_cols = [p for p in oc.params if p != "self"][0]
    rets = [t for _r, t in oT.returns() if t != ("const", None)]
    ok = False
    why = f"returns {[show(t, 160) for t in rets]}"
    if len(rets) == 1 and rets[0][0] == "comp" and rets[0][1] == "list" \
            and len(rets[0][3]) == 1 and not rets[0][3][0][2] \
            and rets[0][3][0][1] == ("param", p_cols):
        elt = rets[0][2]
        if elt[0] == "sub" and elt[2] == ("elem", ("param", p_cols)):
            kv = dict_from_zip(elt[1])
            SELF = ("param", "self")
            ok = kv is not None and kv[0] == (
                "mcall", SELF, "get_column_names", (), ()) and kv[1] == (
                "mcall", ("attr", SELF, "reader"), "get_column_names", (),
                ())
    ctx.check(ok, "C13a-mapped-request-order", oc,
              "requested (new) names are translated one by one, in the "
              "requested order, to the wrapped reader's names",
              why, node=oc.node)


# ------------------------------------------------------------------ b
def _dataframe_partition(ctx, f):
    prog = ctx.prog
    T = Terms(DefUse(prog, f))
    ys = [n for n in ast.walk(f.node) if isinstance(n, ast.Yield)]
    ctx.require(ys, f"{f.qual}: yield not found")
    p_size = [p for p in f.params if p != "self"][0]
    DF = ("attr", ("param", "self"), "df")
    W = ("param", p_size)
    want_range = ("call", "builtins.range",
                  (("const", 0), ("call", "builtins.len", (DF,), ()), W), ())
    cuts = []
    for y in ys:
        for x in walk_term(T.of(y.value)):
            if isinstance(x, tuple) and x and x[0] == "sub" and \
                    x[1] == ("attr", DF, "iloc") and x[2][0] == "slice":
                cuts.append(x[2])
    ok = bool(cuts)
    for sl in cuts:
        lo, hi, step = sl[1], sl[2], sl[3]
        d = lin(hi) + lin(lo).scale(-1)
        ok = ok and lo == ("elem", want_range) and step == (
            "const", None) and d.const == 0 and [
                (d.terms[k], v) for k, v in d.atoms.items()] == [(W, 1)]
    loops = [n for n in ast.walk(f.node) if isinstance(n, (ast.For,
                                                           ast.While))]
    early = [n for lp in loops for n in ast.walk(lp)
             if isinstance(n, (ast.Break, ast.Return))]
    cfg = CFG(f.node)
    cond_y = [y for y in ys if any(
        not (set(cond_strings(t, o)) <= {f"{p} is None", f"{p} is not None"
                                         } for p in f.params)
        for t, o in cfg.necessary_conditions(y))]
    ctx.check(ok and not early and not cond_y, "C13b-row-partition", f,
              "chunks are iloc[pos:pos+w] for pos in range(0, len, w): "
              "every row in exactly one chunk, in order",
              f"cuts {[show(c, 160) for c in cuts]}"
              + ("; the chunk loop can stop early" if early else "")
              + ("; a chunk is yielded conditionally" if cond_y else ""),
              node=ys[0])


# ------------------------------------------------------------------ d
def _buffered(ctx):
    prog = ctx.prog
    cls = prog.cls(TD + "BufferedWriter")
    # who may call the inner writer's append_data
    INNER = ("attr", SELF, "writer")
    for name, m in cls.methods.items():
        calls = Calls(prog, m).mcalls("append_data", INNER)
        if name == "_write_buffer":
            continue        # judged below (C13d-flush-bounds / forced-flush)
        ctx.check(not calls, "C13d-rows-only-leave-through-the-buffer", m,
                  f"{name} never hands rows to the inner writer directly",
                  f"{name} calls self.writer.append_data directly: rows "
                  "that are still buffered are overtaken, so the file no "
                  "longer has the rows in append order", node=m.node)
    wb = cls.methods["_write_buffer"]
    cfg = CFG(wb.node)
    du = DefUse(prog, wb)
    T = Terms(du)
    BSIZE = ("attr", SELF, "buffer_size")

    def slice_call(t):
        """keyword dict of self._buffer_slice(...) (positional start, end,
        as_dataframe mapped to their names), else None"""
        if t[0] == "mcall" and t[1] == SELF and t[2] == "_buffer_slice":
            kw = dict(zip(("start", "end", "as_dataframe"), t[3]))
            kw.update(dict(t[4]))
            return {k: v for k, v in kw.items() if v != ("const", None)
                    and not (k == "as_dataframe" and v == ("const", False))
                    and not (k == "start" and v == ("const", 0))}
        return None

    BUFF = ("attr", SELF, "buffer")
    LENB = ("call", "builtins.len", (BUFF,), ())
    Tc = Terms(du, phi_vars=True)   # the buffer attribute as one variable

    def sem_conds(node):
        """canonical condition strings with single-assignment aliases of
        plain attributes (a hoisted self.buffer_size) seen through"""
        import copy

        class Alias(ast.NodeTransformer):
            def visit_Name(self, n):
                if isinstance(n.ctx, ast.Load):
                    ds = [d for d in du.defs_of(n)] if id(n) in getattr(
                        du, "uses", {}) else []
                    if len(ds) == 1 and ds[0].kind == "assign" and \
                            isinstance(ds[0].value, ast.Attribute) and \
                            ast.unparse(ds[0].value).startswith("self."):
                        return copy.deepcopy(ds[0].value)
                return n

        out = set()
        for test, outcome in cfg.necessary_conditions(node):
            # resolve on the original nodes (def-use is keyed by identity)
            mapping = {}
            for nm in ast.walk(test):
                if isinstance(nm, ast.Name) and isinstance(nm.ctx, ast.Load):
                    try:
                        ds = list(du.defs_of(nm))
                    except Exception:
                        ds = []
                    if len(ds) == 1 and ds[0].kind == "assign" and \
                            isinstance(ds[0].value, ast.Attribute) and \
                            ast.unparse(ds[0].value).startswith("self."):
                        mapping[nm.id] = ds[0].value
            t2 = copy.deepcopy(test)

            class Sub(ast.NodeTransformer):
                def visit_Name(self, n):
                    if isinstance(n.ctx, ast.Load) and n.id in mapping:
                        return copy.deepcopy(mapping[n.id])
                    return n
            t2 = Sub().visit(t2)
            out.update(cond_strings(t2, outcome))
        return out

    appends = []
    for t_, n in Calls(prog, wb, du=du, T=T, cfg=cfg).mcalls(
            "append_data", INNER):
        if len(args_of(t_)) == 1 and not t_[4]:
            appends.append((n, slice_call(args_of(t_)[0]),
                            sem_conds(cfg.stmt_of(n))))
    stores = [(st, T.of(v), sem_conds(st))
              for (r, a_, v, st) in du.attr_stores
              if r == "self" and a_ == "buffer"]
    FULL = "self.buffer_size <= len(self.buffer)"
    blk_a = [x for x in appends if x[1] is not None and "end" in x[1]]
    blk_s = [x for x in stores if slice_call(x[1]) is not None
             and "start" in slice_call(x[1])]
    ok_b = (len(blk_a) == 1 and len(blk_s) == 1
            and blk_a[0][1] == {"end": BSIZE,
                                "as_dataframe": ("const", True)}
            and slice_call(blk_s[0][1]) == {"start": BSIZE}
            and FULL in blk_a[0][2] and blk_a[0][2] == blk_s[0][2]
            and cfg.enclosing(blk_a[0][0], (ast.While,)) is not None
            and cfg.enclosing(blk_a[0][0], (ast.While,)) is cfg.enclosing(
                blk_s[0][0], (ast.While,)))
    ctx.check(ok_b, "C13d-flush-bounds", wb,
              "while the buffer holds a full block, the first buffer_size "
              "rows are written and exactly the rest is kept (same bound)",
              "block writes: " + str([(x[1], sorted(x[2])) for x in blk_a])
              + "; kept: " + str([(slice_call(x[1]), sorted(x[2]))
                                  for x in blk_s]),
              node=blk_a[0][0] if blk_a else wb.node)
    if ok_b:
        w = cfg.enclosing(blk_a[0][0], (ast.While,))
        ok_o = cfg.every_path_passes(
            cfg.node_of(w).id, cfg.node_of(blk_s[0][0]).id,
            {cfg.node_of(cfg.stmt_of(blk_a[0][0])).id})
        ctx.check(ok_o, "C13d-flush-order", wb,
                  "the block is written before the buffer is shortened",
                  "the buffer is shortened on a path that has not written "
                  "the block", node=w)
    NONEMPTY = "0 < len(self.buffer)"
    fa = [x for x in appends if x[1] is not None and "end" not in x[1]
          and "start" not in x[1]]
    fs = [x for x in stores if x[1] == ("const", None)]
    ok_f = (len(fa) == 1 and len(fs) == 1
            and fa[0][1] == {"as_dataframe": ("const", True)}
            and {"force", NONEMPTY} <= fa[0][2] and fa[0][2] == fs[0][2]
            and fa[0][2] <= {"force", NONEMPTY, "self.buffer is not None"}
            and cfg.every_path_passes(
                cfg.entry.id, cfg.node_of(fs[0][0]).id,
                {cfg.node_of(cfg.stmt_of(fa[0][0])).id})
            and len(appends) == 2 and len(stores) == 2)
    # the forced part comes after the block loop
    if ok_f and ok_b:
        ok_f = cfg.every_path_passes(
            cfg.entry.id, cfg.node_of(cfg.stmt_of(fa[0][0])).id,
            {cfg.node_of(cfg.enclosing(blk_a[0][0], (ast.While,))).id})
    ctx.check(ok_f, "C13d-forced-flush", wb,
              "a forced flush writes everything that is left (after the "
              "full blocks) and empties the buffer",
              "whole-buffer writes: "
              + str([(x[1], sorted(x[2])) for x in fa])
              + "; buffer resets: " + str([sorted(x[2]) for x in fs]),
              node=wb.node)
    bs = cls.methods["_buffer_slice"]
    bT = Terms(DefUse(prog, bs))
    BUFT = ("attr", ("param", "self"), "buffer")
    sl = []
    for _r, rt_ in bT.returns():
        for x in walk_term(rt_):
            if isinstance(x, tuple) and x and x[0] == "sub" and \
                    x[2][0] == "slice" and any(
                        y == BUFT for y in walk_term(x[1])):
                sl.append(x[2])
    if not sl:
        raise AnalysisError(
            f"{bs.qual}: no [start:end] selection of the buffer found in "
            "what is returned; rule C13d-slice-bounds needs re-reading")
    want_sl = ("slice", ("param", "start"), ("param", "end"),
               ("const", None))
    ctx.check(bool(sl) and all(x == want_sl for x in sl),
              "C13d-slice-bounds", bs,
              "both buffer kinds are sliced [start:end]", f"{sl}",
              node=bs.node)
    ap = cls.methods["append_data"]
    acfg = CFG(ap.node)
    apc = Calls(prog, ap, cfg=acfg)
    fl = [x for x in apc.mcalls("_write_buffer", SELF)
          if not args_of(x[0]) and dict(x[0][4]).get(
              "force", ("const", False)) == ("const", False)
          or args_of(x[0])[:1] == (("const", False),)]
    ok_e = apc.on_every_path(fl)
    ctx.check(ok_e, "C13d-append-ends-in-flush", ap,
              "every append ends with a flush attempt",
              "some path through append_data returns without "
              "_write_buffer()", node=ap.node)
    # new rows go behind the buffered ones
    aT = Terms(DefUse(prog, ap))
    BUF = ("attr", ("param", "self"), "buffer")
    DATA = ("param", ap.params[1])

    def leaves(t):
        if t[0] == "phi":
            return [y for x in t[1] for y in leaves(x)]
        if t[0] == "ifexp":
            return leaves(t[2]) + leaves(t[3])
        return [t]

    cat = [aT.of(n) for n in ast.walk(ap.node) if isinstance(n, ast.Call)
           and callee_is(prog, ap, n, "pd.concat", "pandas.concat")]
    ok_c = len(cat) == 1 and cat[0][2][:1] == (("list", (BUF, DATA)),) and \
        dict(cat[0][3]).get("ignore_index") == ("const", True) and \
        dict(cat[0][3]).get("axis", ("const", 0)) == ("const", 0)
    aug = [n for n in ast.walk(ap.node) if isinstance(n, ast.AugAssign)]
    ok_c = ok_c and len(aug) == 1 and isinstance(
        aug[0].op, ast.Add) and ast.unparse(aug[0].target) == \
        "self.buffer" and all(
            x in (DATA, ("list", (DATA,))) for x in leaves(aT.of(
                aug[0].value)))
    npa = [aT.of(n) for n in ast.walk(ap.node) if isinstance(n, ast.Call)
           and callee_is(prog, ap, n, "np.append", "numpy.append")]
    def buf_or_fresh(t):
        return all(x == BUF or (np_call(x) or ("",))[0] in (
            "recarray", "empty", "zeros") for x in leaves(t))

    ok_c = ok_c and len(npa) == 1 and len(npa[0][2]) == 2 and \
        buf_or_fresh(npa[0][2][0]) and npa[0][2][1] == DATA
    ctx.check(ok_c, "C13d-append-order", ap,
              "new rows are placed behind the rows already buffered, for "
              "all three buffer kinds", "buffer concatenation order changed",
              node=ap.node)
    # the buffer is the writer's own object: it never *is* an object the
    # caller handed in (a list the caller goes on using would otherwise be
    # grown, sliced and cleared by the writer, and buffered rows would follow
    # every later change the caller makes)
    from ..paths import var_leaves as _vl
    n_assign = 0
    for mname, m in sorted(cls.methods.items()):
        mdu = DefUse(prog, m)
        mT = Terms(mdu, phi_vars=True)
        own = set(m.params) - {"self"}
        for n in walk_own(m.node):
            if not isinstance(n, ast.Assign):
                continue
            for tg in n.targets:
                if not (isinstance(tg, ast.Attribute) and tg.attr == "buffer"
                        and mT.of(tg.value) == ("param", "self")):
                    continue
                n_assign += 1
                lv = [y for x in leaves(mT.of(n.value))
                      for y in _vl(mdu, mT, x)]
                shared = [x for x in lv if x[0] == "param" and x[1] in own]
                ctx.check(not shared, "C13d-buffer-is-the-writers-own", m,
                          "what becomes the buffer is a fresh object (a "
                          "copy, a concatenation, a slice, an empty "
                          "container), never the caller's",
                          f"self.buffer = {ast.unparse(n.value)[:60]} can be "
                          f"the caller's own '{shared[0][1] if shared else ''}"
                          "' object: the next append grows the caller's "
                          "list in place and everything the caller does to "
                          "it afterwards changes the buffered rows",
                          node=n)
    ctx.floor("C13d-buffer-assignments", n_assign, 4)
    fin = cls.methods["finalize"]
    fc = Calls(prog, fin)
    forced = [x for x in fc.mcalls("_write_buffer", SELF)
              if dict(x[0][4]).get("force") == ("const", True)
              or args_of(x[0])[:1] == (("const", True),)]
    inner_fin = fc.mcalls("finalize", INNER)
    why = []
    if not fc.on_every_path(forced):
        why.append("the forced flush is not on every path")
    if not fc.on_every_path(inner_fin):
        why.append("the inner writer is not finalized on every path")
    if forced and inner_fin and not fc.before(forced, inner_fin):
        why.append("the inner writer is finalized before the rest of the "
                   "buffer is flushed")
    ctx.check(not why, "C13d-finalize-flushes", fin,
              "finalize forces the flush, then finalizes the inner writer",
              "; ".join(why), node=fin.node)


# ------------------------------------------------------------------ e
def _attr_value(prog, cls_q, attr):
    """Term stored to self.<attr> in <class>.__init__ (single store)."""
    init = prog.func(cls_q + ".__init__")
    du = DefUse(prog, init)
    T = Terms(du)
    vals = [T.of(v) for (r, a_, v, _st) in du.attr_stores
            if r == "self" and a_ == attr]
    return vals[0] if len(vals) == 1 else None


def _dict_get(t, k):
    if t is not None and t[0] == "dict":
        for kk, vv in zip(t[1], t[2]):
            if kk == ("const", k):
                return vv
    return None


def _to_csv_kwargs(prog, t):
    """Effective keyword arguments of a to_csv call term of the CSV writer:
    explicit keywords plus the entries of a ``**self.stdargs`` display."""
    def entries(v):
        """[(key, value)] of a dictionary term, later entries overriding
        earlier ones: a display, self.stdargs, or either of them updated
        in place with another such dictionary"""
        if v == ("attr", SELF, "stdargs"):
            v = _attr_value(prog, TD + "CSVFileWriter", "stdargs")
            if v is None:
                return None
        if v[0] == "dict":
            if any(kk[0] != "const" for kk in v[1]):
                return None
            return [(kk[1], vv) for kk, vv in zip(v[1], v[2])]
        if v[0] == "mut" and v[2] == "update" and len(v[3]) == 1:
            a, b = entries(v[1]), entries(v[3][0])
            extra = [(k_, v_) for k_, v_ in (v[4] if len(v) > 4 else ())]
            if a is None or b is None:
                return None
            return a + b + extra
        return None
    kw = {}
    for k, v in (t[4] if t[0] == "mcall" else t[3]):
        if k == "**":
            es = entries(v)
            if es is None:
                return None
            for kk, vv in es:
                kw[kk] = vv
        else:
            kw[k] = v
    return kw


def write_overrides_start_fresh(ctx, rule="C13e-write-starts-fresh"):
    """Sibling agreement over every ``write`` of the writer hierarchy: a
    whole-table write never adds to what a file already holds.  Each
    definition must (a) follow the base protocol - initialize() before the
    first append_data() on every path -, or (b) hand the data to the
    ``write`` of a wrapped writer, or (c) produce the file with one
    truncating library call on the writer's own file name."""
    prog = ctx.prog
    base = TD + "TabularDataWriter"
    classes = [prog.cls(base)] + prog.subclasses(base)
    n = 0
    for cls in classes:
        w = cls.methods.get("write")
        if w is None:
            continue
        n += 1
        c = Calls(prog, w)
        DATA = ("param", w.params[1]) if len(w.params) > 1 else None
        I = c.mcalls("initialize", SELF)
        A = c.mcalls("append_data", SELF)
        inner = [x for x in c.mcalls("write")
                 if x[0][1] != SELF and any(
                     y == SELF for y in walk_term(x[0][1]))]
        whole = []
        for t, node in c.items:
            if t[0] == "mcall" and t[2] in ("to_parquet", "to_csv",
                                            "to_json") and t[1] == DATA:
                kw = dict(t[4])
                mode = kw.get("mode", ("const", "w"))
                tgt = t[3][0] if t[3] else kw.get("path") or kw.get(
                    "path_or_buf")
                if mode == ("const", "w") and tgt == (
                        "attr", SELF, "file_name"):
                    whole.append((t, node))
        if A:
            ok = bool(I) and c.before(I, A)
            why = "append_data() is reached without initialize(): rows " \
                  "are added to whatever the file already holds"
        elif inner:
            ok, why = c.on_every_path(inner), \
                "some path does not hand the data to the wrapped writer"
        elif whole:
            ok, why = c.on_every_path(whole), \
                "some path does not write the table"
        else:
            ok, why = False, ("write() neither follows initialize / append "
                              "/ finalize, nor delegates, nor writes the "
                              "file in one truncating call")
        ctx.check(ok, rule, w,
                  f"{cls.qual.rsplit('.', 1)[-1]}.write starts from an "
                  "empty file", why, node=w.node)
    ctx.floor(rule + "-definitions", n, 1)


FORMAT_OPTIONS = ("quoting", "quotechar", "escapechar", "doublequote",
                  "decimal", "encoding", "lineterminator", "compression",
                  "na_rep", "float_format", "date_format")


def csv_format_agreement(ctx, rule="C13e-csv-format-agreement"):
    """What the text writer writes the text reader must read back: the two
    classes agree on the options that change how a cell is spelled in the
    file.  An option given to one side only (quoting=QUOTE_NONE on to_csv,
    decimal="," on read_csv ...) makes some cell come back changed."""
    prog = ctx.prog
    sides = {}
    for cls_q, api in ((TD + "CSVFileWriter", "to_csv"),
                       (TD + "CSVFileReader", "read_csv")):
        opts = {}
        d = _attr_value(prog, cls_q, "stdargs")
        ctx.require(d is not None and d[0] == "dict",
                    f"{cls_q}: stdargs is not a dictionary display")
        for kk, vv in zip(d[1], d[2]):
            if kk[0] == "const" and kk[1] in FORMAT_OPTIONS:
                opts[kk[1]] = vv
        cls = prog.cls(cls_q)
        for m in cls.methods.values():
            if isinstance(m.node, ast.Lambda):
                continue
            c = Calls(prog, m)
            for t, _n in c.items:
                name = t[2] if t[0] == "mcall" else (
                    t[1].rsplit(".", 1)[-1] if t[0] == "call" else None)
                if name != api:
                    continue
                for k, v in (t[4] if t[0] == "mcall" else t[3]):
                    if k in FORMAT_OPTIONS:
                        opts.setdefault(k, v)
                        if opts[k] != v:
                            opts[k] = ("mixed", opts[k], v)
        sides[api] = opts
    w, r = sides["to_csv"], sides["read_csv"]
    diff = {k: (show(w.get(k, ("const", "<default>")), 30),
                show(r.get(k, ("const", "<default>")), 30))
            for k in set(w) | set(r) if w.get(k) != r.get(k)}
    ctx.check(not diff, rule, prog.cls(TD + "CSVFileWriter").methods.get(
        "__init__"),
        "the text writer and the text reader use the same cell format "
        "options",
        f"format options (writer, reader) differ: {diff}: a cell written "
        "under one convention is parsed under the other, so rows read back "
        "are not the rows written")


def _lifecycle(ctx):
    prog = ctx.prog
    write_overrides_start_fresh(ctx)
    csv_format_agreement(ctx)
    FNAME = ("attr", SELF, "file_name")
    # --- write() = validate, initialize, append, finalize
    w = prog.func(TD + "TabularDataWriter.write")
    c = Calls(prog, w)
    DATA = ("param", w.params[1])
    V = [x for x in c.mcalls("check_valid_data", SELF)
         if args_of(x[0]) == (DATA,)]
    I = c.mcalls("initialize", SELF)
    A = [x for x in c.mcalls("append_data", SELF) if args_of(x[0]) == (DATA,)]
    F = c.mcalls("finalize", SELF)
    why = []
    if not c.on_every_path(A):
        why.append("some path does not append the data")
    if len(c.mcalls("append_data")) != len(A) or len(A) != 1:
        why.append("the data is not appended exactly once as given")
    if not c.before(I, A):
        why.append("append_data is reached without initialize()")
    if not c.after(A, F):
        why.append("finalize() is not reached after the append")
    if not c.before(V, I):
        why.append("the file is initialised before the columns are "
                   "validated")
    if c.before(F, A):
        why.append("finalize() precedes the append")
    ctx.check(not why, "C13e-write-protocol", w,
              "write() = validate, initialize, append, finalize",
              "; ".join(why), node=w.node)
    # --- auto_finalize
    af = prog.func(TD + "auto_finalize")
    c = Calls(prog, af)
    WR = ("elem", ("param", af.params[0]))
    enter = c.mcalls("__enter__", WR) + c.mcalls("initialize", WR)
    exit_ = c.mcalls("__exit__", WR) + c.mcalls("finalize", WR)
    ys = [n for n in walk_own(af.node) if isinstance(n, ast.Yield)]
    ok = len(ys) == 1 and bool(enter) and bool(exit_) and \
        c.in_finally_of_yield(exit_) and all(
            c.cfg.every_path_passes(
                c.cfg.entry.id, c.cfg.node_of(ys[0]).id,
                {c.cfg.node_of(c.cfg.enclosing(n, (ast.For,)) or n).id})
            for _t, n in enter) and all(
                c.cfg.enclosing(n, (ast.For,)) is not None and
                not [x for x in ast.walk(c.cfg.enclosing(n, (ast.For,)))
                     if isinstance(x, (ast.Break, ast.Continue))]
                for _t, n in enter + exit_)
    ctx.check(ok, "C13e-auto-finalize", af,
              "auto_finalize enters every writer and exits every writer in "
              "a finally around the body",
              f"enter calls {len(enter)}, exit calls {len(exit_)}, yields "
              f"{len(ys)}; an exit call outside the finally of the yielding "
              "try, or a loop over the writers that may stop early",
              node=af.node)
    ex = prog.func(TD + "TabularDataWriter.__exit__")
    en = prog.func(TD + "TabularDataWriter.__enter__")
    ce, cx = Calls(prog, en), Calls(prog, ex)
    rets = [t for _r, t in ce.T.returns()]
    ok = ce.on_every_path(ce.mcalls("initialize", SELF)) and \
        cx.on_every_path(cx.mcalls("finalize", SELF)) and \
        bool(rets) and all(t == SELF for t in rets)
    ctx.check(ok, "C13e-context-manager", ex,
              "with-blocks initialize on entry (and hand out the writer "
              "itself) and finalize on exit",
              "__enter__ does not initialize / return self on every path, "
              "or __exit__ does not finalize on every path", node=ex.node)
    # --- CSV writer
    ca = prog.func(TD + "CSVFileWriter.append_data")
    c = Calls(prog, ca)
    DATA = ("param", ca.params[1])
    V = [x for x in c.mcalls("check_valid_data", SELF)
         if args_of(x[0]) == (DATA,)]
    W = c.mcalls("to_csv")
    why = []
    if len(W) != 1 or not c.on_every_path(W):
        why.append(f"{len(W)} to_csv call(s), not exactly one on every path")
    else:
        t = W[0][0]
        kw = _to_csv_kwargs(prog, t)
        if t[1] != DATA:
            why.append("the frame written is not the frame appended")
        if args_of(t)[:1] != (FNAME,) and (kw or {}).get(
                "path_or_buf") != FNAME:
            why.append("not written to the writer's file")
        if kw is None:
            raise AnalysisError(
                f"{ca.qual}: the keyword arguments of to_csv are passed in "
                f"a form the rule does not read ({show(t, 120)})")
        else:
            if kw.get("mode") != ("const", "a"):
                why.append("mode is not 'a'")
            if kw.get("header") != ("const", False):
                why.append("a header line would be repeated")
            if kw.get("index") != ("const", False):
                why.append("the row index would be written as a column")
            if "columns" in kw:
                why.append("a column selection is applied")
        if not c.before(V, W):
            why.append("columns are not validated before the rows are "
                       "written")
    ctx.check(not why, "C13e-csv-append", ca,
              "CSV append validates the columns, then appends all rows "
              "without a header", "; ".join(why), node=ca.node)
    ci = prog.func(TD + "CSVFileWriter.initialize")
    c = Calls(prog, ci)
    W = c.mcalls("to_csv")
    why = []
    if len(W) != 1 or not c.on_every_path(W):
        why.append(f"{len(W)} to_csv call(s), not exactly one on every path")
    else:
        t = W[0][0]
        kw = _to_csv_kwargs(prog, t)
        fr = t[1]
        if not (fr[0] == "call" and fr[1] == "pandas.DataFrame"
                and not fr[2] and dict(fr[3]) == {
                    "columns": ("attr", SELF, "columns")}):
            why.append("the frame written is not an empty frame with the "
                       "writer's columns")
        if args_of(t)[:1] != (FNAME,) and (kw or {}).get(
                "path_or_buf") != FNAME:
            why.append("not written to the writer's file")
        if kw is None:
            why.append("keyword arguments not resolvable")
        else:
            if kw.get("mode", ("const", "w")) != ("const", "w"):
                why.append("the file is not truncated")
            if kw.get("header", ("const", True)) != ("const", True):
                why.append("no header line is written")
            if kw.get("index") != ("const", False):
                why.append("the row index would be written as a column")
    ctx.check(not why, "C13e-csv-header", ci,
              "CSV initialize writes exactly the header line",
              "; ".join(why), node=ci.node)
    cv = prog.func(TD + "TabularDataWriter.check_valid_data")
    cvc = Calls(prog, cv)
    DATA = ("param", cv.params[1])
    GIVEN = {("mcall", ("attr", DATA, "columns"), "tolist", (), ()),
             ("call", "builtins.list", (("attr", DATA, "columns"),), ())}
    OWN = {("mcall", SELF, "get_column_names", (), ()),
           ("attr", SELF, "columns"),
           ("call", "builtins.list", (("attr", SELF, "columns"),), ())}
    ok = False
    for r in [n for n in walk_own(cv.node) if isinstance(n, ast.Raise)]:
        for t, outcome in cond_terms(cvc.cfg, cvc.T, r):
            if t[0] == "cmp" and t[1] in ("==", "!=") and (
                    (t[2] in GIVEN and t[3] in OWN)
                    or (t[3] in GIVEN and t[2] in OWN)):
                if (t[1] == "==") != bool(outcome):
                    ok = True
    ctx.check(ok, "C13e-column-check", cv,
              "appended frames must carry exactly the writer's columns, in "
              "order", "no raise under 'the frame's column list differs "
              "from the writer's column list'", node=cv.node)
    # --- Parquet writer
    pa_ = prog.func(TD + "ParquetFileWriter.append_data")
    c = Calls(prog, pa_)
    DATA = ("param", pa_.params[1])
    WRITER = ("attr", SELF, "writer")
    SCHEMA = ("mcall", SELF, "get_schema", (), ())
    W = c.mcalls("write_table", WRITER)
    why = []
    if len(W) != 1 or not c.on_every_path(W):
        why.append(f"{len(W)} write_table call(s) on self.writer, not "
                   "exactly one on every path")
    else:
        t = W[0][0]
        tab = args_of(t)[0] if args_of(t) else None
        if not (tab and tab[0] == "call"
                and tab[1] == "pyarrow.Table.from_pandas"
                and tab[2][:1] == (DATA,)):
            why.append("the table written is not built from the appended "
                       "frame")
        else:
            kw = dict(tab[3])
            if kw.get("preserve_index") != ("const", False):
                why.append("the row index is written")
            sch = kw.get("schema")
            own_schema = sch == SCHEMA
            if sch is not None and sch[0] == "mcall" and sch[1] == SELF \
                    and sch[2] == "get_schema":
                from ..tutil import bound_margs as _bm
                sb = _bm(prog, sch)
                sb = sb if sb is not None else dict(sch[4])
                own_schema = not sch[3] or sb is not None
                own_schema = own_schema and sb.get(
                    "as_dict", ("const", False)) == ("const", False) and \
                    set(sb) <= {"as_dict"}
            if not own_schema:
                why.append("not converted with the writer's schema")
            if "columns" in kw:
                why.append("a column selection is applied")
    ctx.check(not why, "C13e-parquet-append", pa_,
              "Parquet append writes the whole frame with the writer's "
              "schema, without the index", "; ".join(why), node=pa_.node)
    pf = prog.func(TD + "ParquetFileWriter.finalize")
    c = Calls(prog, pf)
    ctx.check(c.on_every_path(c.mcalls("close", WRITER)),
              "C13e-parquet-close", pf, "Parquet finalize closes the file",
              "Parquet writer is not closed on every path", node=pf.node)
    pi = prog.func(TD + "ParquetFileWriter.initialize")
    c = Calls(prog, pi)
    st = [(c.T.of(v), s) for (r, a_, v, s) in c.du.attr_stores
          if r == "self" and a_ == "writer"]
    ok = len(st) == 1 and st[0][0][0] == "call" and \
        st[0][0][1] == "pyarrow.parquet.ParquetWriter" and (
            st[0][0][2][:1] == (FNAME,)
            or dict(st[0][0][3]).get("where") == FNAME) and (
            dict(st[0][0][3]).get("schema") == SCHEMA
            or st[0][0][2][1:2] == (SCHEMA,)) and \
        c.cfg.every_path_passes(c.cfg.entry.id, c.cfg.exit.id,
                                {c.cfg.node_of(st[0][1]).id})
    ctx.check(ok, "C13e-parquet-open", pi,
              "Parquet initialize opens a fresh file with the schema",
              f"self.writer = {[show(x[0], 120) for x in st]}", node=pi.node)
    # every writer group with appends reaches finalize
    n_groups = 0
    for q in sorted(prog.funcs):
        f = prog.funcs[q]
        if isinstance(f.node, ast.Lambda) or (
                f.cls is not None and f.cls.module.name in (
                    "mokapot.tabular_data",)):
            continue
        if not any(isinstance(n, ast.Attribute) and n.attr == "append_data"
                   for n in ast.walk(f.node)):
            continue
        we = WriterEvents(prog, f)
        for key, g in we.groups.items():
            r = we.check_group(g)
            if not r["appends"]:
                continue
            n_groups += 1
            ctx.check(r["final_ok"] or bool(
                [k for k, n in g["events"] if k == "with"]),
                "C13e-finalize-reached", f,
                f"writers {key[:60]} reach finalize() after their last "
                "append on every normal path",
                "; ".join(w for w in r["why"] if "finalize" in w) or
                "finalize missing", node=g["events"][0][1])
    ctx.floor("C13e-writer-groups", n_groups, 2)
