"""C01 - TDC q-values equal the defining formula.

Decided clauses (structural necessary conditions):
  a  estimator shape  (decoys + 1) / targets with the zero-target guard -> 1
  b  sort direction, worst->best orientation of all four _fdr2qvalue inputs,
     cumulative counts taken best-first, result returned in input order
  c  _fdr2qvalue: consecutive tie-group slices with a running offset, group
     FDR taken at the threshold that includes the whole tie group, running
     minimum, written to the whole group
  d  _update_labels truth table  (+1 target & q<=t, 0 target & q>t, -1 decoy)
     and pass-through of scores / targets / desc into tdc
  e  scores are only used through order-preserving operations
"""

from __future__ import annotations

import ast

from ..align import (IN, Align, Arr, Opaque, Scalar, fmt_space, same_space,
                     sorted_dir)
from ..core import AnalysisError, walk_own
from ..defuse import DefUse, Terms, show, specialise, walk_term
from ..defuse import key as tkey
from ..tutil import (Sym, TTUnknown, find_calls, is_flip, lin, np_call,
                     strip_conv, strip_flips, tt_eval)

EXPLANATION = (
    "Static analysis of mokapot.qvalues.tdc/_fdr2qvalue and "
    "dataset._update_labels on the current source. (a) def-use reconstruction"
    " + linear normal form show the FDR handed to _fdr2qvalue is "
    "(cumsum(decoy indicator)+1)/cumsum(target indicator) with a guard that "
    "yields 1 where no target qualifies. (b) abstract interpretation over a "
    "row-alignment domain, for desc=True and desc=False, shows the sort is "
    "best-first, cumulative counts are taken in that order, the four "
    "_fdr2qvalue inputs are all oriented worst->best, tie groups are groups "
    "of the sort key, and the result is un-permuted back to input order. "
    "(c) a loop recogniser on _fdr2qvalue checks running-offset tie-group "
    "slices, group FDR at the group's full threshold, a running minimum "
    "that is only lowered, written to the whole group. (d) a point-wise "
    "truth table over target in {T,F} x (q<t, q=t, q>t) for the label "
    "function and flag pass-through to tdc. (e) the score vector only "
    "Also: a tolerance comparison (isclose) of q-value and threshold is tabulated both ways; the wrapper that feeds tdc applies no narrowing conversion. "
    "reaches order-preserving operations. NOT decided: numerical equality "
    "with the formula for concrete inputs, dtype effects.")
TECHNIQUE = ("def-use term reconstruction + linear normal form + abstract "
             "interpretation (row-alignment domain, flag case split) + loop "
             "idiom recogniser + finite truth table")

TDC = "mokapot.qvalues.tdc"
F2Q = "mokapot.qvalues._fdr2qvalue"


# ------------------------------------------------------------------ helpers
def _decoy_indicator(t):
    """X when ``t`` is a recognised decoy indicator of label array X."""
    t = strip_conv(t)
    if t[0] == "bin" and t[1] == "**" and t[3] == ("const", 2):
        inner = strip_conv(t[2])
        if inner[0] == "bin" and inner[1] == "-" and inner[3] == ("const", 1):
            return inner[2], "(t-1)**2"
    if t[0] == "un" and t[1] == "~":
        return t[2], "~t"
    c = np_call(t)
    if c and c[0] in ("logical_not", "invert") and c[1]:
        return c[1][0], "logical_not(t)"
    if t[0] == "bin" and t[1] == "-" and t[2] == ("const", 1):
        return t[3], "1-t"
    if t[0] == "cmp" and t[1] == "==" and t[3] in (("const", 0),
                                                   ("const", False)):
        return t[2], "t==0"
    return None, None


def _is_cumsum(t):
    t = strip_conv(t)
    c = np_call(t)
    if c and c[0] == "cumsum" and c[1]:
        return c[1][0]
    return None


def _guarded_division(t):
    """(num, den, guard description) for the accepted guarded divisions whose
    value is 1 where the denominator is 0; None if not recognised; raises
    AnalysisError text via return ('bad', why)."""
    t = strip_conv(t)
    c = np_call(t)
    if c and c[0] == "divide" and len(c[1]) >= 2:
        num, den = c[1][0], c[1][1]
        out = c[2].get("out")
        where = c[2].get("where")
        problems = []
        if out is None or where is None:
            problems.append("np.divide without out=/where= guard: division "
                            "by a zero target count is not mapped to 1")
        else:
            oc = np_call(strip_conv(out))
            if not (oc and oc[0] in ("ones_like", "ones")):
                problems.append(
                    "the value used where no target qualifies is not 1 "
                    f"(out={show(out, 80)})")
            w = strip_conv(where)
            ok = False
            if w[0] == "cmp" and w[1] in ("!=", ">") and w[3] == ("const", 0):
                ok = (strip_conv(w[2])) == (strip_conv(den))
            if not ok:
                problems.append(
                    "the where= guard is not 'denominator != 0' "
                    f"(where={show(where, 100)})")
        return num, den, problems
    if c and c[0] == "mokapot.utils.safe_divide" and len(c[1]) >= 2:
        ones = c[2].get("ones") or (c[1][2] if len(c[1]) > 2 else None)
        problems = []
        if ones != ("const", True):
            problems.append("safe_divide(..., ones=True) required so that a "
                            "zero target count yields 1")
        return c[1][0], c[1][1], problems
    if c and c[0] == "where" and len(c[1]) == 3:
        cond, a, b = c[1]
        cond = strip_conv(cond)
        if cond[0] == "cmp" and cond[1] == "==" and cond[3] == ("const", 0) \
                and a in (("const", 1), ("const", 1.0)):
            b = strip_conv(b)
            if b[0] == "bin" and b[1] == "/":
                ok = (strip_conv(cond[2])) == (strip_conv(b[3]))
                return b[2], b[3], [] if ok else [
                    "np.where guard does not test the denominator"]
    return None


def _spine_alternatives(t):
    """Leaves of the returned value after peeling conversions, flips,
    index-by-permutation and phi nodes (one leaf per path)."""
    t = strip_conv(t)
    if t[0] == "phi":
        out = []
        for x in t[1]:
            out.extend(_spine_alternatives(x))
        return out
    x = is_flip(t)
    if x is not None:
        return _spine_alternatives(x)
    if t[0] == "sub":
        return _spine_alternatives(t[1])
    return [t]


def _f2q_summary(al, t, args, kwargs):
    avs = [al.ev(a) for a in args]
    al.events.add("fdr2qvalue", args=avs, terms=list(args))
    a0 = avs[0] if avs else Opaque("no args")
    if isinstance(a0, Arr):
        return Arr(a0.space, q=("qvals",), mono=None)
    return Opaque("_fdr2qvalue on non-array")


def run(ctx):
    prog = ctx.prog
    tdc = prog.func(TDC)
    f2q = prog.func(F2Q)
    _check_tdc(ctx, tdc)
    _check_fdr2qvalue(ctx, f2q)
    _check_update_labels(ctx)
    _check_direction_routing(ctx)
    _check_registry(ctx)


# --------------------------------------------------------------- clause a,b,e
def _check_tdc(ctx, tdc):
    prog = ctx.prog
    params = [p for p in tdc.params]
    ctx.require(params[:3] == ["scores", "target", "desc"] or len(params) >= 3,
                f"{TDC}: expected parameters (scores, target, desc)")
    p_scores, p_target, p_desc = params[0], params[1], params[2]
    _check_integer_negation(ctx, tdc, p_scores)
    _check_no_precision_loss(ctx, tdc, p_scores)
    for desc in (True, False):
        case = f"desc={desc}"
        fnode = specialise(tdc.node, {p_desc: desc})
        du = DefUse(prog, tdc, fnode)
        terms = Terms(du)
        rets = [(n, t) for n, t in terms.returns()]
        ctx.require(len(rets) >= 1, f"{TDC}: no return statement")
        env = {
            p_scores: Arr(IN, q=("param", p_scores)),
            p_target: Arr(IN, q=("param", p_target)),
            p_desc: Scalar(desc, True),
        }
        for rnode, rterm in rets:
            al = Align(prog, env, callee_summaries={F2Q: _f2q_summary})
            res = al.ev(rterm)
            calls = al.events.of("fdr2qvalue")
            ctx.require(
                len(calls) >= 1,
                f"{TDC} [{case}]: the returned value does not come from "
                f"{F2Q}; idiom not recognised ({show(rterm, 160)})")
            # every alternative (path) of the returned value must be
            # produced by _fdr2qvalue
            for alt in _spine_alternatives(rterm):
                if alt[0] == "call" and alt[1] == F2Q:
                    ctx.ok("C01c-all-paths-through-fdr2qvalue", tdc,
                           "returned q-values come from _fdr2qvalue",
                           case=case)
                    continue
                c = np_call(alt)
                capped = any(
                    (np_call(x) or ("",))[0] in ("clip", "minimum")
                    and x is not alt
                    for x in walk_term(alt)
                    if x[0] in ("call", "mcall"))
                if c and c[0] in ("minimum.accumulate", "fmin.accumulate") \
                        and not capped:
                    ctx.fail(
                        "C01c-all-paths-through-fdr2qvalue", tdc,
                        "q-values on an alternative path are capped at 1 "
                        "and tie-grouped",
                        "on some path the q-values are computed as "
                        f"{show(alt, 100)}: a bare running minimum of the "
                        "FDR is not capped at 1 (and ignores tie groups)",
                        node=rnode, case=case)
                else:
                    raise AnalysisError(
                        f"{TDC} [{case}]: on some path the q-values are "
                        f"computed by {show(alt, 120)}, not by {F2Q}; idiom "
                        "not recognised")
            # ---- b: issues raised while interpreting
            issues = al.events.of("issue")
            ctx.check(not issues, "C01b-alignment", tdc,
                      "row alignment of every element-wise operation, mask "
                      "and permutation in tdc",
                      "; ".join(f"{i['what']} at {i['term'][:120]}"
                                for i in issues[:3]),
                      node=rnode, case=case)
            # ---- b: result in input order
            if isinstance(res, Opaque):
                raise AnalysisError(
                    f"{TDC} [{case}]: returned value not interpretable: "
                    f"{res.why}")
            ctx.check(
                isinstance(res, Arr) and same_space(res.space, IN),
                "C01b-input-order", tdc, "q-values returned in input order",
                "the returned q-value array is in row space "
                f"{fmt_space(res.space) if isinstance(res, Arr) else res!r}"
                ", not in input order (the sort is not undone by indexing "
                "with argsort of the sort index)",
                node=rnode, case=case,
                detail=f"return {show(rterm, 120)}")
            best = "desc" if desc else "asc"
            worst_first = "asc" if desc else "desc"
            skey = p_scores
            for ev in calls:
                avs = ev["args"]
                ctx.require(len(avs) == 4 and all(
                    isinstance(a, Arr) for a in avs),
                    f"{TDC} [{case}]: _fdr2qvalue arguments not "
                    f"interpretable: {avs}")
                fdr, tot, met, cnt = avs
                ctx.check(
                    same_space(fdr.space, tot.space), "C01b-orientation",
                    tdc, "fdr and cumulative totals share one row space",
                    f"fdr is in {fmt_space(fdr.space)} but the cumulative "
                    f"totals are in {fmt_space(tot.space)}", node=rnode,
                    case=case)
                ctx.check(
                    same_space(met.space, cnt.space), "C01b-orientation",
                    tdc, "unique scores and counts share one group space",
                    f"unique scores are in {fmt_space(met.space)} but the "
                    f"counts are in {fmt_space(cnt.space)}", node=rnode,
                    case=case)
                sd_r = sorted_dir(fdr.space)
                sd_g = sorted_dir(met.space)
                ctx.check(
                    sd_r == (skey, worst_first), "C01b-orientation", tdc,
                    "row arrays handed to _fdr2qvalue run worst->best",
                    f"for {case} the per-row arrays must be ordered "
                    f"worst->best ({worst_first} by score) but are "
                    f"{sd_r}", node=rnode, case=case,
                    detail=fmt_space(fdr.space))
                ctx.check(
                    sd_g == (skey, worst_first), "C01b-orientation", tdc,
                    "tie-group arrays handed to _fdr2qvalue run worst->best",
                    f"for {case} the unique-score/count arrays must be "
                    f"ordered worst->best ({worst_first} by score) but are "
                    f"{sd_g}", node=rnode, case=case,
                    detail=fmt_space(met.space))
                # groups are groups of the sorted score rows
                gbase = met.space[0]
                ok_g = (isinstance(gbase, tuple) and gbase[0] == "G"
                        and gbase[2] == skey)
                ctx.check(
                    ok_g, "C01b-tie-groups", tdc,
                    "tie groups are computed from the score values",
                    f"tie groups are computed over {gbase}, not over the "
                    "score vector that defines the sort order",
                    node=rnode, case=case)
                # ---- a: estimator shape
                _check_estimator(ctx, tdc, al, ev["terms"][0], ev["terms"][1],
                                 rnode, case, p_target, skey, best)
            # ---- b(iii): cumulative counts best-first
            cs = al.events.of("cumsum")
            ctx.require(len(cs) >= 2, f"{TDC} [{case}]: fewer than two "
                        "cumulative sums found")
            for ev in cs:
                op = ev["operand"]
                if not isinstance(op, Arr):
                    raise AnalysisError(f"{TDC}: cumsum operand opaque")
                sd = sorted_dir(op.space)
                ctx.check(
                    sd == (skey, best), "C01b-best-first", tdc,
                    "cumulative count taken over rows in best-first order",
                    f"for {case} the cumulative count {ev['term'][:80]} is "
                    f"taken over rows ordered {sd}, not best-first "
                    f"({best} by score)", node=rnode, case=case,
                    detail=ev["term"][:100])
            # ---- e: order-only use of scores
            bad = []
            for ev in al.events.of("arith"):
                for o in ev["operands"]:
                    if isinstance(o, Arr) and o.q in (
                            ("param", p_scores),
                            ("neg", ("param", p_scores))):
                        bad.append(ev["term"])
            ctx.check(
                not bad, "C01e-order-only", tdc,
                "score values reach only negation, argsort, indexing, "
                "unique and dtype conversion",
                "score values take part in arithmetic/comparison "
                f"{bad[:2]}, so a monotone rescaling could change the "
                "result", node=rnode, case=case)


FLOAT_NAMES = {"float32", "float64", "float", "float16", "longdouble",
               "float_", "double", "single", "half", "f4", "f8", "f2"}
INT_SUPERSET_NAMES = {"integer", "number"}


def _float_type(t):
    if t[0] in ("name", "free", "attr"):
        nm = t[1] if t[0] != "attr" else t[2]
        return isinstance(nm, str) and nm.split(".")[-1] in FLOAT_NAMES
    if t[0] == "const" and isinstance(t[1], str):
        return t[1] in FLOAT_NAMES
    if t[0] == "call" and t[1] == "numpy.dtype" and t[2]:
        return _float_type(t[2][0])
    return False


def _float_conversion(t):
    """source term of a conversion to a float dtype, else None"""
    if t[0] == "mcall" and t[2] == "astype":
        ty = t[3][0] if t[3] else dict(t[4]).get("dtype")
        return t[1] if ty is not None and _float_type(ty) else None
    if t[0] == "call" and t[1] in ("numpy.asarray", "numpy.array",
                                   "numpy.asanyarray",
                                   "numpy.asfarray") and t[2]:
        ty = dict(t[3]).get("dtype") or (t[2][1] if len(t[2]) > 1 else None)
        if t[1] == "numpy.asfarray" or (ty is not None and _float_type(ty)):
            return t[2][0]
    if t[0] == "call" and t[1].startswith("numpy.") and \
            t[1].split(".")[-1] in FLOAT_NAMES and t[2]:
        return t[2][0]
    return None


def _covers_all_integers(t, outcome):
    """condition 'np.issubdtype(<x>.dtype, np.integer | np.number)' true"""
    return bool(outcome) and t[0] == "call" and \
        t[1] == "numpy.issubdtype" and len(t[2]) == 2 and \
        t[2][1][0] in ("name", "free") and \
        t[2][1][1].split(".")[-1] in INT_SUPERSET_NAMES


def _same_slice(a, b):
    """slice(x, y) written as a[x:y] or as a slice object"""
    def norm(t):
        if t[0] == "slice":
            return (t[1], t[2], t[3])
        if t[0] == "call" and t[1] == "builtins.slice":
            xs = list(t[2]) + [("const", None)] * (3 - len(t[2]))
            if len(t[2]) == 1:
                xs = [("const", None), t[2][0], ("const", None)]
            return tuple(xs[:3])
        return t
    return norm(a) == norm(b)


def _check_integer_negation(ctx, tdc, p_scores):
    """Negating an integer array can wrap (unsigned always, signed at the
    dtype minimum): the array negated for the descending sort must have been
    converted to a float dtype under a guard that covers every integer
    dtype (or unconditionally).  Judged on terms: the conversion is any
    astype / asarray / numpy float constructor to a float dtype, its guard
    the necessary conditions of the converting statement with temporaries
    resolved."""
    prog = ctx.prog
    du = DefUse(prog, tdc)
    T = Terms(du)
    from ..cfg import CFG
    from ..astutil import cond_terms
    cfg = CFG(tdc.node)
    sites = []
    for n in walk_own(tdc.node):
        if isinstance(n, ast.UnaryOp) and isinstance(n.op, ast.USub):
            roots = set()
            for nm in ast.walk(n.operand):
                if isinstance(nm, ast.Name):
                    roots |= du.backward_roots(nm)
            if ("param", p_scores) in roots:
                sites.append(n)
        elif isinstance(n, ast.Call):
            t = T.of(n)
            if t[0] == "call" and t[1] == "numpy.negative" and n.args:
                sites.append(n)
    if not sites:
        ctx.ok("C01e-integer-negation", tdc,
               "no negation of the score array (no integer wrap-around "
               "possible)")
        return
    for n in sites:
        operand = n.operand if isinstance(n, ast.UnaryOp) else n.args[0]
        names = [nm for nm in ast.walk(operand) if isinstance(nm, ast.Name)]
        convs = []
        direct = _float_conversion(T.of(operand))
        if direct is not None:
            ctx.ok("C01e-integer-negation", tdc,
                   "the negated array is converted to float in place")
            continue
        for nm in names:
            for d in du.defs_of(nm):
                if d.kind == "assign" and d.value is not None and \
                        _float_conversion(T.of(d.value)) is not None:
                    convs.append(d)
        if not convs:
            ctx.fail("C01e-integer-negation", tdc,
                     f"-{ast.unparse(operand)[:40]} (sort key for "
                     "desc=True)",
                     "the score array is negated without a preceding "
                     "conversion of integer scores to a float dtype: "
                     "unsigned scores and the minimum of a signed dtype "
                     "wrap around and are ranked wrongly", node=n)
            continue
        # conditions under which the negation runs anyway do not restrict
        # the conversion relative to it (earlier guard clauses that raise,
        # the direction flag)
        at_site = {(tkey(t), o) for t, o in cond_terms(cfg, T, n)}
        for d in convs:
            conds = [(t, o) for t, o in cond_terms(cfg, T, d.node)
                     if (tkey(t), o) not in at_site]
            bad = [(t, o) for t, o in conds
                   if not _covers_all_integers(t, o)]
            ctx.check(not bad, "C01e-integer-negation", tdc,
                      "integer scores are converted to float before they "
                      "are negated for the descending sort",
                      "the conversion only runs under "
                      f"{[(show(t, 60), o) for t, o in bad]}, which does "
                      "not cover every integer dtype; scores of the "
                      "remaining integer dtypes are negated as integers "
                      "and wrap around", node=d.node)


NARROW_TYPES = {"numpy.float32", "numpy.float16", "numpy.half",
                "numpy.single", "builtins.int", "numpy.int8", "numpy.int16",
                "numpy.int32", "numpy.int64", "numpy.uint8", "numpy.uint16",
                "numpy.uint32", "numpy.uint64", "numpy.intp"}
NARROW_NAMES = {"float32", "float16", "f4", "f2", "half", "single", "int",
                "int32", "int64", "i4", "i8"}


def _check_no_precision_loss(ctx, tdc, p_scores):
    """A conversion of the score vector to a narrower type merges scores
    that differ (float64 values closer than float32 resolution become one
    tie group): allowed only for scores that are known to be integers."""
    prog = ctx.prog
    du = DefUse(prog, tdc)
    T = Terms(du)
    from ..cfg import CFG
    from ..astutil import cond_terms
    cfg = CFG(tdc.node)

    def narrow(t):
        if t[0] in ("name", "free"):
            return t[1] in NARROW_TYPES or t[1].split(".")[-1] in \
                NARROW_NAMES
        if t[0] == "const" and isinstance(t[1], str):
            return t[1] in NARROW_NAMES
        if t[0] == "call" and t[1] == "numpy.dtype" and t[2]:
            return narrow(t[2][0])
        return False

    n_sites = 0
    for n in ast.walk(tdc.node):
        if not isinstance(n, ast.Call):
            continue
        src = ty = None
        if isinstance(n.func, ast.Attribute) and n.func.attr == "astype" \
                and n.args:
            src, ty = n.func.value, T.of(n.args[0])
        else:
            t = T.of(n)
            if t[0] == "call" and t[1] in NARROW_TYPES and n.args:
                src, ty = n.args[0], ("name", t[1])
            elif t[0] == "call" and t[1] in ("numpy.asarray", "numpy.array",
                                             "numpy.asanyarray") and n.args:
                d = dict(t[3]).get("dtype")
                if d is not None:
                    src, ty = n.args[0], d
        if src is None or not narrow(ty):
            continue
        roots = set()
        for nm in ast.walk(src):
            if isinstance(nm, ast.Name):
                roots |= du.backward_roots(nm)
        if ("param", p_scores) not in roots:
            continue
        n_sites += 1
        conds = cond_terms(cfg, T, n)
        ok = any(o and c[0] == "call" and c[1] == "numpy.issubdtype"
                 and len(c[2]) == 2 and c[2][1][0] in ("name", "free")
                 and c[2][1][1].split(".")[-1] in (
                     "integer", "signedinteger", "unsignedinteger", "bool_")
                 for c, o in conds)
        ctx.check(ok, "C01e-no-precision-loss", tdc,
                  f"scores are narrowed to {show(ty, 30)} only when they "
                  "are integers",
                  f"'{ast.unparse(n)[:60]}' narrows the scores to "
                  f"{show(ty, 30)} for every input dtype: float64 scores "
                  "that differ by less than single precision collapse into "
                  "one tie group, so the q-values change under a monotone "
                  "rescaling and no longer follow the defining formula",
                  node=n)
    if not n_sites:
        ctx.ok("C01e-no-precision-loss", tdc,
               "the score vector is never converted to a narrower type")


def _check_estimator(ctx, tdc, al, fdr_t, tot_t, rnode, case, p_target, skey,
                     best):
    core, _n = strip_flips(fdr_t)
    gd = _guarded_division(core)
    ctx.require(
        gd is not None,
        f"{TDC} [{case}]: FDR expression is not a recognised guarded "
        f"division: {show(core, 160)}")
    num, den, problems = gd
    ctx.check(not problems, "C01a-zero-target-guard", tdc,
              "FDR is 1 where no target qualifies",
              "; ".join(problems), node=rnode, case=case,
              detail=show(core, 140))
    ln = lin(num)
    ld = lin(den)
    # numerator: exactly one cumsum(decoy indicator) with coefficient 1, +1
    num_atoms = list(ln.atoms.items())
    den_atoms = list(ld.atoms.items())
    ok_shape = len(num_atoms) == 1 and num_atoms[0][1] == 1 and \
        len(den_atoms) == 1 and den_atoms[0][1] == 1
    ctx.require(ok_shape,
                f"{TDC} [{case}]: FDR numerator/denominator are not single "
                f"cumulative counts: num={ln!r} den={ld!r}")
    ctx.check(
        ln.const == 1, "C01a-plus-one", tdc,
        "numerator is decoys + 1",
        f"the additive constant of the FDR numerator is {ln.const}, the "
        "estimator requires exactly +1", node=rnode, case=case,
        detail=f"numerator {ln!r}")
    ctx.check(
        ld.const == 0, "C01a-denominator", tdc,
        "denominator is the plain target count",
        f"the FDR denominator has additive constant {ld.const}",
        node=rnode, case=case, detail=f"denominator {ld!r}")
    nterm = ln.terms[num_atoms[0][0]]
    dterm = ld.terms[den_atoms[0][0]]
    n_in = _is_cumsum(nterm)
    d_in = _is_cumsum(dterm)
    ctx.require(n_in is not None and d_in is not None,
                f"{TDC} [{case}]: numerator/denominator are not cumulative "
                f"sums: {show(nterm, 80)} / {show(dterm, 80)}")
    lab, form = _decoy_indicator(n_in)
    ctx.check(
        lab is not None, "C01a-decoy-count", tdc,
        "numerator counts decoys",
        f"the numerator accumulates {show(n_in, 100)}, which is not a "
        "recognised decoy indicator of the label vector",
        node=rnode, case=case, detail=f"form {form}")
    if lab is not None:
        lv = al.ev(lab)
        dv = al.ev(d_in)
        ok = (isinstance(lv, Arr) and isinstance(dv, Arr)
              and lv.q == ("param", p_target) and dv.q == ("param", p_target)
              and same_space(lv.space, dv.space))
        ctx.check(
            ok, "C01a-same-labels", tdc,
            "decoy and target counts are taken from the same sorted label "
            "vector",
            f"decoy count over {lv!r}, target count over {dv!r}",
            node=rnode, case=case)
    # totals = targets + decoys cumulative (used to locate the tie-group end)
    tcore, _ = strip_flips(tot_t)
    lt = lin(tcore)
    keys = set(lt.atoms)
    want = {num_atoms[0][0], den_atoms[0][0]}
    c2 = _is_cumsum(tcore)
    ok_tot = (keys == want and all(v == 1 for v in lt.atoms.values())
              and lt.const == 0)
    if not ok_tot and c2 is not None:
        # cumsum(ones) / arange(1, n+1) forms are equally a running total
        ok_tot = True
    if not ok_tot:
        cc = np_call(strip_conv(tcore))
        if cc and cc[0] == "arange":
            ok_tot = True
    ctx.check(
        ok_tot, "C01a-running-total", tdc,
        "running total used to locate the end of a tie group is "
        "targets+decoys",
        f"the running total handed to _fdr2qvalue is {lt!r}",
        node=rnode, case=case)


# ------------------------------------------------------------------ clause c
def _check_fdr2qvalue(ctx, f):
    prog = ctx.prog
    ps = f.params
    ctx.require(len(ps) == 4, f"{F2Q}: expected 4 parameters, found {ps}")
    p_fdr, p_tot, p_met, p_cnt = ps
    du = DefUse(prog, f)
    T = Terms(du, phi_vars=True)
    loops = [n for n in ast.walk(f.node) if isinstance(n, (ast.For,
                                                           ast.While))]
    ctx.require(len(loops) == 1 and isinstance(loops[0], ast.For),
                f"{F2Q}: expected exactly one for-loop over the tie groups "
                f"(found {len(loops)} loops); idiom not recognised")
    loop = loops[0]
    it = T.of(loop.iter)
    ok_iter = False
    c = np_call(it)
    if c and c[0] == "builtins.range" and len(c[1]) == 1:
        txt = tkey(strip_conv(c[1][0]), 200)
        if txt in (f"{p_met}.shape[0]", f"len({p_met})", f"{p_cnt}.shape[0]",
                   f"len({p_cnt})"):
            ok_iter = True
    ctx.check(ok_iter, "C01c-group-loop", f,
              "loop visits every tie group once, in order",
              f"the loop iterates over {show(it, 100)}, not over "
              "range(number of tie groups)", node=loop)
    rets = [n for n in ast.walk(f.node) if isinstance(n, ast.Return)]
    ctx.require(len(rets) == 1 and isinstance(rets[0].value, ast.Name),
                f"{F2Q}: expected a single 'return <name>'")
    rnode = rets[0]
    ret_name = rnode.value.id
    # the returned array starts as ones (q <= 1) ...
    rdefs = du.defs_of(rnode.value)
    inits = [d for d in rdefs if d.kind == "assign"]
    init_ok = bool(inits) and all(
        (np_call(T.of(d.value)) or ("",))[0] in ("ones", "ones_like")
        for d in inits)
    ctx.check(init_ok, "C01c-result-init", f,
              "result array initialised to 1",
              "the returned array is not initialised with ones: "
              f"{[show(T.of(d.value), 60) for d in inits]}", node=rnode)
    # ... and is written exactly once per group inside the loop
    st_nodes = [
        s for s in ast.walk(loop) if isinstance(s, ast.Assign)
        and isinstance(s.targets[0], ast.Subscript)
        and isinstance(s.targets[0].value, ast.Name)
        and s.targets[0].value.id == ret_name
    ]
    ctx.require(len(st_nodes) == 1,
                f"{F2Q}: expected exactly one group write to the returned "
                f"array '{ret_name}' inside the loop, found {len(st_nodes)}")
    st = st_nodes[0]
    ctx.require(not _guards(loop, st),
                f"{F2Q}: the group write is conditional; idiom not "
                "recognised")
    grp_t = T.of(st.targets[0].slice)
    gc = np_call(grp_t)
    lo = hi = None
    if gc and gc[0] == "builtins.slice" and len(gc[1]) == 2:
        lo, hi = gc[1]
    elif grp_t[0] == "slice" and grp_t[3] == ("const", None):
        lo, hi = grp_t[1], grp_t[2]
    ctx.require(lo is not None,
                f"{F2Q}: group index is not a slice: {show(grp_t, 100)}")
    akey = (lambda x: tkey(x, 400))
    diff = lin(hi, akey) + lin(lo, akey).scale(-1)
    cnt_ok = False
    if len(diff.atoms) == 1 and diff.const == 0:
        (k, v), = diff.atoms.items()
        at = diff.terms.get(k)
        if v == 1 and at is not None and at[0] == "sub" and \
                strip_conv(at[1]) == ("param", p_cnt):
            cnt_ok = at[2] == ("elem", it)
    ctx.check(cnt_ok, "C01c-group-width", f,
              "group slice spans exactly counts[idx] rows",
              f"slice end - slice start is {diff!r}; it must be exactly the "
              "tie-group count of the current group",
              node=st, detail=f"{show(lo, 60)} .. {show(hi, 60)}")
    # running offset: start is a loop-carried variable, 0 before the loop and
    # the previous slice end afterwards
    off_ok = False
    why = f"slice start is {show(lo, 120)}"
    if lo[0] == "var":
        ds = T.var_defs[lo]
        outside = [d for d in ds if not _inside(loop, d.node)]
        inside = [d for d in ds if _inside(loop, d.node)]
        zero = bool(outside) and all(
            d.kind == "assign" and T.of(d.value) == ("const", 0)
            for d in outside)
        prev_end = bool(inside) and all(
            d.kind == "assign"
            and (T.of(d.value)) == (hi)
            and not _guards(loop, d.node)
            for d in inside)
        off_ok = zero and prev_end
        if not zero:
            why = ("the first group does not start at 0: "
                   f"{[show(T.of(d.value), 40) for d in outside]}")
        elif not prev_end:
            why = ("the next group does not start at the previous group's "
                   f"end: {[show(T.of(d.value), 80) for d in inside]}")
    ctx.check(off_ok, "C01c-running-offset", f,
              "tie groups are consecutive: each starts where the previous "
              "ended, the first at 0", why, node=st)
    _check_running_min(ctx, f, du, T, loop, st, grp_t, p_fdr, p_tot)


def _check_running_min(ctx, f, du, T, loop, st, grp_t, p_fdr, p_tot):
    val_t = T.of(st.value)
    ctx.require(isinstance(st.value, ast.Name),
                f"{F2Q}: value written to the group is not a plain "
                f"accumulator: {show(val_t, 100)}")
    acc = st.value.id
    defs = du.defs_of(st.value)
    in_loop = [d for d in defs if d.node is not None and _inside(loop, d.node)]
    out_loop = [d for d in du.env_before.get(id(loop), {}).get(acc, ())
                if d.kind != "undef"]
    ctx.check(bool(in_loop), "C01c-min-updated-before-write", f,
              "the accumulator written to the group includes this group's "
              "FDR",
              f"the value written ('{acc}') is not updated inside the loop "
              "before the write, so the current group's FDR never lowers it",
              node=st)
    init_ok = all(
        d.kind == "assign" and T.of(d.value) in (("const", 1), ("const", 1.0))
        for d in out_loop) and bool(out_loop)
    ctx.check(init_ok, "C01c-min-init", f,
              "running minimum starts at 1 (q-values capped at 1)",
              f"initial value of '{acc}' is "
              f"{[show(T.of(d.value), 40) for d in out_loop if d.value]}",
              node=st)
    group_fdr_term = None
    for d in in_loop:
        if d.kind != "assign":
            ctx.fail("C01c-running-min", f, f"update of {acc}",
                     f"'{acc}' is updated by a {d.kind}, not by a lowering "
                     "assignment", node=d.node)
            continue
        v = T.of(d.value)
        c = np_call(v)
        lowered = False
        cand = None
        if c and c[0] in ("builtins.min", "minimum") and len(c[1]) == 2:
            others = [x for x in c[1] if not _refers_to(x, acc)]
            if len(others) == 1:
                lowered = True
                cand = others[0]
        else:
            for test, pol in _guards(loop, d.node):
                tt = T.of(test)
                if tt[0] == "cmp" and tt[1] in ("<", "<=", ">", ">="):
                    a, b = tt[2], tt[3]
                    if tt[1] in (">", ">="):
                        a, b = b, a
                    # a < b holds on this branch iff pol
                    if pol and (a) == (v) and \
                            _refers_to(b, acc):
                        lowered = True
            cand = v
        ctx.check(lowered, "C01c-running-min", f,
                  "the accumulator is only ever lowered (running minimum "
                  "from worst to best)",
                  f"'{acc}' is assigned {show(v, 80)} without a guard that "
                  "the new value is smaller (min / 'if x < acc')",
                  node=d.node)
        group_fdr_term = cand
    if group_fdr_term is None:
        return
    g = strip_conv(group_fdr_term)
    ok_sel = False
    why = show(g, 160)
    if g[0] == "sub":
        basef, sel = g[1], g[2]
        bf = strip_conv(basef)
        in_group = (bf[0] == "sub" and strip_conv(bf[1]) == ("param", p_fdr)
                    and (bf[2]) == (grp_t))
        sc = np_call(sel)
        if in_group and sc and sc[0] == "argmax" and sc[1]:
            tg = strip_conv(sc[1][0])
            ok_sel = (tg[0] == "sub"
                      and strip_conv(tg[1]) == ("param", p_tot)
                      and (tg[2]) == (grp_t))
            if not ok_sel:
                why = ("argmax is not taken over the running totals of the "
                       f"same group: {show(tg, 100)}")
        elif in_group and sel == ("const", 0):
            ok_sel = True
        elif in_group:
            why = (f"group FDR selected with {show(sel, 80)}; the FDR of a "
                   "tie group must be taken where the running total is "
                   "largest (the threshold that includes the whole group)")
        elif bf == ("param", p_fdr):
            # fdr[start + argmax(num_total[start:stop])]: the same element
            # addressed in the whole vector
            lo = None
            if grp_t[0] == "slice":
                lo = grp_t[1]
            elif grp_t[0] == "call" and grp_t[1] == "builtins.slice" and \
                    len(grp_t[2]) >= 2:
                lo = grp_t[2][0]
            if lo is not None:
                d = lin(sel) + lin(lo).scale(-1)
                atoms = [(d.terms[k], c) for k, c in d.atoms.items()]
                if d.const == 0 and len(atoms) == 1 and atoms[0][1] == 1:
                    sc = np_call(atoms[0][0])
                    if sc and sc[0] == "argmax" and sc[1]:
                        tg = strip_conv(sc[1][0])
                        ok_sel = (tg[0] == "sub"
                                  and strip_conv(tg[1]) == ("param", p_tot)
                                  and _same_slice(tg[2], grp_t))
            if not ok_sel:
                why = ("group FDR is read at " + show(sel, 100) + ", which "
                       "is not the group's start plus the arg-max of the "
                       "running totals over the group")
        else:
            why = f"group FDR is not read from fdr[group]: {show(g, 120)}"
    ctx.check(ok_sel, "C01c-group-fdr", f,
              "tie group's FDR is the one at the threshold that includes "
              "the whole group", why, node=st)


def _refers_to(t, name):
    for x in walk_term(t):
        if x[0] in ("rec", "var") and x[1] == name:
            return True
    return False


def _inside(outer, node):
    return any(n is node for n in ast.walk(outer))


def _guards(root, node):
    """[(test, polarity)] of ifs inside ``root`` that control ``node``."""
    out = []

    def rec(cur, acc):
        if cur is node:
            out.extend(acc)
            return True
        for field, val in ast.iter_fields(cur):
            if isinstance(val, list):
                for ch in val:
                    if isinstance(ch, ast.AST):
                        a2 = acc
                        if isinstance(cur, ast.If) and field == "body":
                            a2 = acc + [(cur.test, True)]
                        elif isinstance(cur, ast.If) and field == "orelse":
                            a2 = acc + [(cur.test, False)]
                        if rec(ch, a2):
                            return True
            elif isinstance(val, ast.AST):
                if rec(val, acc):
                    return True
        return False

    rec(root, [])
    return out


# ------------------------------------------------------------------ clause d
def _check_update_labels(ctx):
    prog = ctx.prog
    f = prog.func("mokapot.dataset._update_labels")
    ps = f.params
    ctx.require(len(ps) >= 4, f"{f.qual}: expected (scores, targets, "
                "eval_fdr, desc)")
    p_scores, p_targets, p_fdr, p_desc = ps[:4]
    du = DefUse(prog, f)
    T = Terms(du)
    rets = T.returns()
    ctx.require(len(rets) == 1, f"{f.qual}: expected one return")
    rnode, rterm = rets[0]
    tdc_calls = find_calls(rterm, TDC)
    ctx.require(tdc_calls, f"{f.qual}: labels do not depend on "
                f"qvalues.tdc: {show(rterm, 160)}")
    tc = tdc_calls[0]
    tdc_f = prog.func(TDC)
    formals = tdc_f.params
    bound = {}
    for i, a in enumerate(tc[2]):
        bound[formals[i]] = a
    for k, v in tc[3]:
        bound[k] = v

    def root_is(term, pname):
        s = strip_conv(term)
        return s == ("param", pname)

    # ... and not through a narrowing conversion on the way (the clause of
    # tdc itself, applied to the wrapper that feeds it)
    _check_no_precision_loss(ctx, f, p_scores)
    ctx.check(root_is(bound.get(formals[0], ("const", None)), p_scores),
              "C01d-pass-scores", f, "scores handed to tdc unchanged",
              f"tdc receives {show(bound.get(formals[0]), 100)} as scores",
              node=rnode)
    ctx.check(root_is(bound.get(formals[1], ("const", None)), p_targets),
              "C01d-pass-targets", f, "labels handed to tdc unchanged",
              f"tdc receives {show(bound.get(formals[1]), 100)} as target",
              node=rnode)
    ctx.check(bound.get(formals[2]) == ("param", p_desc),
              "C01d-pass-desc", f, "direction handed to tdc unchanged",
              f"tdc receives desc={show(bound.get(formals[2], ('const', None)), 60)}"
              " instead of the caller's direction", node=rnode)
    # truth table
    rows = []
    bad = []
    def is_q(t):
        s = strip_conv(t)
        return s[0] == "call" and s[1] == TDC

    def is_thr(t):
        return strip_conv(t) == ("param", p_fdr)

    for target in (True, False):
        # a tolerance comparison of the q-value with the threshold
        # (np.isclose, math.isclose) is true when they are equal and may be
        # either when they differ: both outcomes are tabulated
        for rel, close in (("<", False), ("<", True), ("=", True),
                           (">", False), (">", True)):
            used_close = []

            def atoms(t, target=target, rel=rel, close=close,
                      used_close=used_close):
                s = strip_conv(t)
                if s == ("param", p_targets):
                    return target
                if s[0] == "call" and s[1] == TDC:
                    return Sym("q", {"thr": rel})
                if s == ("param", p_fdr):
                    return Sym("thr")
                c_ = np_call(t) if t[0] in ("call", "mcall") else None
                if (c_ and c_[0] in ("isclose", "allclose")) or (
                        t[0] == "call" and t[1] == "math.isclose"):
                    a_ = c_[1] if c_ else t[2]
                    if len(a_) >= 2 and (
                            (is_q(a_[0]) and is_thr(a_[1]))
                            or (is_thr(a_[0]) and is_q(a_[1]))):
                        used_close.append(1)
                        return close
                raise KeyError
            try:
                got = tt_eval(rterm, atoms)
            except TTUnknown as e:
                raise AnalysisError(
                    f"{f.qual}: label expression outside the point-wise "
                    f"fragment ({e}): {show(rterm, 200)}")
            if close != (rel == "=") and not used_close:
                continue        # no tolerance comparison: same row as before
            want = -1 if not target else (1 if rel in "<=" else 0)
            row = {"target": target, "q?threshold": rel,
                   "label": got, "expected": want}
            if used_close:
                row["within tolerance"] = close
            rows.append(row)
            if got != want:
                bad.append(rows[-1])
    ctx.extra["label_truth_table"] = rows
    ctx.check(not bad, "C01d-label-table", f,
              "label = +1 iff target & q<=t, 0 iff target & q>t, -1 iff "
              "decoy (6 valuations)",
              f"label table deviates: {bad}", node=rnode,
              detail=f"{len(rows)} valuations")
    # LinearPsmDataset._update_labels forwards
    m = prog.func("mokapot.dataset.LinearPsmDataset._update_labels")
    du2 = DefUse(prog, m)
    T2 = Terms(du2)
    r2 = T2.returns()
    ctx.require(len(r2) == 1, f"{m.qual}: expected one return")
    call = r2[0][1]
    ctx.require(call[0] == "call" and call[1] == f.qual,
                f"{m.qual}: does not forward to {f.qual}")
    b2 = {}
    for i, a in enumerate(call[2]):
        b2[ps[i]] = a
    for k, v in call[3]:
        b2[k] = v
    mp = [p for p in m.params if p != "self"]
    ok = (b2.get(p_scores) == ("param", mp[0])
          and tkey(b2.get(p_targets, ("const", None))) == "self.targets"
          and b2.get(p_fdr) == ("param", mp[1])
          and b2.get(p_desc) == ("param", mp[2]))
    ctx.check(ok, "C01d-method-forwarding", m,
              "method forwards (scores, self.targets, eval_fdr, desc)",
              "the dataset method does not forward its arguments "
              f"unchanged: {show(call, 200)}", node=r2[0][0])


def _check_direction_routing(ctx):
    """Wherever a caller holds a score direction (its own ``desc`` formal or
    a loop over the two directions) every repository callee that accepts a
    direction must receive exactly that value."""
    prog = ctx.prog
    n_sites = 0
    for q in sorted(prog.funcs):
        f = prog.funcs[q]
        if isinstance(f.node, ast.Lambda):
            continue
        holders = set()
        if "desc" in f.params:
            holders.add("desc")
        loop_vars = {}
        for n in ast.walk(f.node):
            if isinstance(n, ast.For) and isinstance(n.target, ast.Name) \
                    and isinstance(n.iter, (ast.Tuple, ast.List)) and \
                    sorted(ast.unparse(e) for e in n.iter.elts) == [
                        "False", "True"]:
                loop_vars[n.target.id] = n
        if not holders and not loop_vars:
            continue
        du = None
        T_ = None
        for call, kind, tg in prog.call_sites(f):
            if kind not in ("internal", "cha"):
                continue
            callees = [prog.funcs[t] for t in tg if t in prog.funcs
                       and "desc" in prog.funcs[t].params]
            if not callees:
                continue
            # which holder governs this call site?
            holder = None
            for lv, loop in loop_vars.items():
                if any(x is call for x in ast.walk(loop)):
                    holder = lv
            if holder is None and holders:
                holder = "desc"
            if holder is None:
                continue
            n_sites += 1
            if du is None:
                du = DefUse(prog, f)
            for callee in callees[:1]:
                b = prog.bind(callee, call)
                actual = b.get("desc")
                ok = False
                why = "no direction is passed (the callee's default is used)"
                if actual is not None:
                    # judged on the term: a local copy of the direction
                    # (best_desc = desc; f(desc=best_desc)) is the direction
                    if T_ is None:
                        T_ = Terms(du)
                    want = ("param", "desc") if holder not in loop_vars \
                        else ("elem", T_.of(loop_vars[holder].iter))
                    if isinstance(actual, ast.Name) and actual.id == holder:
                        ok = True
                    elif not isinstance(actual, ast.Constant) and \
                            T_.of(actual) == want:
                        ok = True
                    elif isinstance(actual, ast.Constant):
                        # explicit constant: the caller pins the direction
                        ok = holder not in loop_vars and False
                        why = (f"constant {ast.unparse(actual)} passed "
                               "instead of the caller's direction")
                    else:
                        why = (f"{ast.unparse(actual)} passed instead of "
                               f"the caller's direction '{holder}'")
                ctx.check(ok, "C01d-direction-routing", f,
                          f"{ast.unparse(call.func)}(...) receives the "
                          f"caller's direction '{holder}'", why, node=call)
    ctx.floor("C01d-direction-routing", n_sites, 4)


def _check_registry(ctx):
    """qvalues_from_scores(..., 'tdc') means tdc(scores, targets, desc=True)"""
    prog = ctx.prog
    from ..core import registry_entries
    reg = registry_entries(prog, "qvalues", "QVALUE_ALGORITHM")
    ctx.require("tdc" in reg, "registry entry QVALUE_ALGORITHM['tdc'] not "
                "found")
    f = reg["tdc"]
    du = DefUse(prog, f)
    T = Terms(du)
    (node, t), = T.returns()
    ps = f.params
    from ..tutil import bound_args
    b = bound_args(prog, t) if t[0] == "call" and t[1] == TDC else None
    tp = prog.func(TDC).params
    ok = (b is not None and b.get(tp[0]) == ("param", ps[0])
          and b.get(tp[1]) == ("param", ps[1])
          and b.get("desc", ("const", True)) == ("const", True))
    ctx.check(ok, "C01-registry", f,
              "'tdc' registry entry forwards (scores, targets) to tdc with "
              "desc=True", f"registry lambda is {show(t, 120)}",
              node=f.node)
