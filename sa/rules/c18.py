"""C18 - generated decoys preserve length, composition and cleavage
structure."""

from __future__ import annotations

import ast

from ..cfg import CFG
from ..core import AnalysisError, const_value
from ..defuse import DefUse, Terms, show, walk_term
from ..defuse import key as tkey
from ..tutil import lin, np_call, strip_conv

EXPLANATION = (
    "Static analysis of parsers.fasta._shuffle_proteins and make_decoys. "
    "(a) each peptide interior new_seq[start:end] is overwritten by the "
    "list [new_seq[i + start] for i in perm] where perm is, on every "
    "definition, a permutation of range(end - start) (np.arange, its flip "
    "for 'reverse', or a permutation of it) - so length and composition "
    "are preserved and reversal uses the flipped identity; the sequence is "
    "copied with list(seq) and re-joined. (b) fixed termini by linear "
    "normal form: start - site == 1 and next_site - end == 1, peptides are "
    "consecutive site pairs, interiors of length <= 1 are left alone. (c) "
    "the decoy name is prefix + name; in concatenated mode the targets "
    "come first (proteins += decoys), otherwise only decoys; every record "
    "is written as '>' + name, newline, wrapped sequence. NOT decided: "
    "FASTA text round-trip through textwrap / the reader.")
TECHNIQUE = ("def-use term matching over all definitions + linear normal "
             "form + CFG branch analysis")

FA = "mokapot.parsers.fasta."


def run(ctx):
    prog = ctx.prog
    from ..memo import check_no_cross_call_state
    reach = prog.reachable([FA + "make_decoys"])
    check_no_cross_call_state(
        ctx, "C18-no-cross-call-state",
        [prog.funcs[q] for q in sorted(reach) if q in prog.funcs
         and not isinstance(prog.funcs[q].node, ast.Lambda)],
        "decoy generation")
    _shuffle(ctx, prog.func(FA + "_shuffle_proteins"))
    _make(ctx, prog.func(FA + "make_decoys"))


def _shuffle(ctx, f):
    prog = ctx.prog
    du = DefUse(prog, f)
    T = Terms(du, phi_vars=True)
    cfg = CFG(f.node)
    p_prots, p_prefix, p_enz, p_rev = f.params[:4]
    ol = [n for n in f.node.body if isinstance(n, ast.For)]
    ctx.require(len(ol) == 1 and isinstance(ol[0].target, ast.Tuple),
                f"{f.qual}: protein loop not found")
    ol = ol[0]
    v_prot, v_seq = (e.id for e in ol.target.elts)
    ctx.check(ast.unparse(ol.iter) == p_prots, "C18c-every-protein", f,
              "every target protein gets a decoy",
              f"loop over {ast.unparse(ol.iter)}", node=ol)
    asg = {ast.unparse(s.targets[0]): s for s in ol.body
           if isinstance(s, ast.Assign)}
    # name
    nm = [k for k, s in asg.items()
          if ast.unparse(s.value) == f"{p_prefix} + {v_prot}"]
    ctx.check(len(nm) == 1, "C18c-decoy-name", f,
              "decoy name = decoy prefix + target name",
              f"{ {k: ast.unparse(v.value)[:40] for k, v in asg.items()} }",
              node=ol)
    # working copy
    ws = [k for k, s in asg.items()
          if ast.unparse(s.value) == f"list({v_seq})"]
    ctx.require(len(ws) == 1, f"{f.qual}: working copy list(seq) not found")
    w = ws[0]
    st = [k for k, s in asg.items() if ast.unparse(s.value) ==
          f"_cleavage_sites({v_seq}, {p_enz})"]
    ctx.check(len(st) == 1, "C18b-sites-of-this-protein", f,
              "cleavage sites are those of this sequence under the given "
              "enzyme", "sites are not _cleavage_sites(seq, enzyme)",
              node=ol)
    if len(st) != 1:
        return
    sites = st[0]
    il = [n for n in ol.body if isinstance(n, ast.For)]
    ctx.require(len(il) == 1, f"{f.qual}: peptide loop not found")
    il = il[0]
    ok = ast.unparse(il.iter) == f"enumerate({sites})"
    ctx.check(ok, "C18b-every-peptide", f,
              "every pair of consecutive sites is visited",
              f"peptide loop over {ast.unparse(il.iter)}", node=il)
    i_idx, i_site = (e.id for e in il.target.elts)
    ia = {ast.unparse(s.targets[0]): s for s in il.body
          if isinstance(s, ast.Assign)}
    Tn = Terms(du, phi_vars=True)
    key = (lambda x: tkey(x, 300))
    # the slice store
    stores = [s for s in ast.walk(il) if isinstance(s, ast.Assign)
              and isinstance(s.targets[0], ast.Subscript)
              and ast.unparse(s.targets[0].value) == w
              and isinstance(s.targets[0].slice, ast.Slice)]
    ctx.require(len(stores) == 1, f"{f.qual}: interior overwrite not found")
    so = stores[0]
    lo_n, hi_n = so.targets[0].slice.lower, so.targets[0].slice.upper
    lo_t, hi_t = Tn.of(lo_n), Tn.of(hi_n)
    site_t = Tn.of(ast.Name(id=i_site, ctx=ast.Load()))
    # start - site == 1
    l_lo = lin(lo_t, key)
    site_key = [k for k in l_lo.atoms]
    ok_lo = len(l_lo.atoms) == 1 and l_lo.const == 1 and list(
        l_lo.atoms.values())[0] == 1 and l_lo.terms[site_key[0]][0] in (
            "elem", "item")
    ctx.check(ok_lo, "C18b-first-residue-fixed", f,
              "interior starts one residue after the cleavage site (start - "
              "site == 1): the peptide's first residue stays in place",
              f"start = {l_lo!r}", node=so)
    # next_site - end == 1 with next_site = sites[idx + 1]
    l_hi = lin(hi_t, key)
    ok_hi = False
    why = f"end = {l_hi!r}"
    if len(l_hi.atoms) == 1 and l_hi.const == -1:
        (k, c), = l_hi.atoms.items()
        at = l_hi.terms[k]
        if c == 1 and at[0] == "sub":
            li = lin(at[2], key)
            ok_hi = li.const == 1 and len(li.atoms) == 1 and list(
                li.atoms.values())[0] == 1 and "idx(" in list(li.atoms)[0]
            why = f"end = {show(at, 80)} - 1"
    ctx.check(ok_hi, "C18b-last-residue-fixed", f,
              "interior ends one residue before the next cleavage site "
              "(next_site - end == 1, next_site = sites[idx + 1]): the "
              "peptide's last residue stays in place", why, node=so)
    # range check on idx + 1
    rc = [s for s in il.body if isinstance(s, ast.If)
          and "len(" in ast.unparse(s.test)
          and isinstance(s.body[0], (ast.Continue, ast.Break))]
    ctx.check(len(rc) >= 1, "C18b-last-site-skipped", f,
              "the last site has no following peptide and is skipped",
              "no range check on the next-site index", node=il)
    # value: [w[i + start] for i in perm]
    v = so.value
    ok_v = False
    perm_expr = None
    if isinstance(v, ast.ListComp) and len(v.generators) == 1 and \
            not v.generators[0].ifs:
        g = v.generators[0]
        iv = g.target.id if isinstance(g.target, ast.Name) else None
        e = v.elt
        if iv and isinstance(e, ast.Subscript) and ast.unparse(
                e.value) == w and ast.unparse(e.slice) in (
                    f"{iv} + {ast.unparse(lo_n)}",
                    f"{ast.unparse(lo_n)} + {iv}"):
            ok_v = True
            perm_expr = g.iter
    ctx.check(ok_v, "C18a-rearrangement-of-itself", f,
              "the interior is replaced by its own residues read at "
              "start + perm[i]",
              f"interior := {ast.unparse(v)[:100]}", node=so)
    if perm_expr is None:
        return
    # perm = perms[L] with L == end - start; all definitions permutations
    ok_p = isinstance(perm_expr, ast.Subscript)
    L_t = Tn.of(perm_expr.slice) if ok_p else None
    l_L = lin(L_t, key) if L_t else None
    diff = lin(hi_t, key) + lin(lo_t, key).scale(-1)
    ctx.check(ok_p and l_L == diff, "C18a-permutation-length", f,
              "the permutation used has length end - start",
              f"permutation key {l_L!r} vs interior length {diff!r}",
              node=so)
    pname = ast.unparse(perm_expr.value) if ok_p else None
    pst = [s for s in ast.walk(il) if isinstance(s, ast.Assign)
           and isinstance(s.targets[0], ast.Subscript)
           and ast.unparse(s.targets[0].value) == pname]
    ctx.floor("C18a-permutation-definitions", len(pst), 2)
    Lname = ast.unparse(perm_expr.slice)
    for s in pst:
        t = Terms(du).of(s.value)
        rev_branch = any(ast.unparse(g[0]) == p_rev and g[1]
                         for g in cfg.guards(s))
        ok = True
        why = ""
        leaves = list(t[1]) if t[0] == "phi" else [t]
        for lf in leaves:
            c = np_call(lf)
            if c and c[0] == "arange" and len(c[1]) == 1:
                kind = "identity"
            elif c and c[0] == "flip" and (np_call(c[1][0]) or ("",))[0] \
                    == "arange":
                kind = "reverse"
            elif c and c[0] in ("random.permutation", "permutation") or (
                    lf[0] == "mcall" and lf[2] == "permutation"):
                kind = "random"
            else:
                ok = False
                why = f"{show(lf, 80)} is not a permutation of range(L)"
                continue
            if rev_branch and kind != "reverse":
                ok = False
                why = f"reverse mode uses a {kind} permutation"
            if not rev_branch and kind == "reverse":
                ok = False
                why = "shuffle mode uses the reversal"
            # argument is arange(L)
            inner = [x for x in walk_term(lf)
                     if (np_call(x) or ("",))[0] == "arange"]
            for a in inner:
                ar = np_call(a)[1]
                if len(ar) != 1 or lin(ar[0], key) != diff and \
                        tkey(ar[0]) != Lname:
                    pass
        ctx.check(ok, "C18a-permutation-of-range", f,
                  f"{pname}[L] := {ast.unparse(s.value)[:50]} is a "
                  "permutation of range(L)" + (
                      " (the exact reversal)" if rev_branch else ""),
                  why, node=s)
    # short interiors untouched
    sk = [s for s in il.body if isinstance(s, ast.If)
          and ast.unparse(s.test) in (f"{Lname} <= 1", f"{Lname} < 2")]
    ctx.check(len(sk) == 1, "C18b-short-interiors-skipped", f,
              "interiors of at most one residue are left unchanged",
              "no 'if pep_len <= 1: continue'", node=il)
    # result rows: [decoy name, joined working copy]
    app = [n for n in ast.walk(ol) if isinstance(n, ast.Call)
           and isinstance(n.func, ast.Attribute)
           and n.func.attr == "append"
           and not any(x is n for x in ast.walk(il))]
    ok_a = len(app) == 1 and nm and ast.unparse(app[0].args[0]) in (
        f"[{nm[0]}, ''.join({w})]", f"({nm[0]}, ''.join({w}))")
    ctx.check(bool(ok_a), "C18a-decoy-record", f,
              "each decoy is (prefixed name, the re-joined working copy)",
              f"{[ast.unparse(a)[:80] for a in app]}", node=ol)


def _make(ctx, f):
    prog = ctx.prog
    cfg = CFG(f.node)
    ifs = [s for s in f.node.body if isinstance(s, ast.If)
           and ast.unparse(s.test) == "concatenate"]
    ctx.require(len(ifs) == 1, f"{f.qual}: concatenate switch not found")
    s = ifs[0]
    then = [ast.unparse(x) for x in s.body]
    els = [ast.unparse(x) for x in s.orelse]
    ok = then == ["proteins += decoys"] and els == ["proteins = decoys"]
    ctx.check(ok, "C18c-concatenate", f,
              "concatenated mode keeps the targets first and appends the "
              "decoys; otherwise only decoys are written",
              f"then: {then}; else: {els}", node=s)
    sh = [n for n in ast.walk(f.node) if isinstance(n, ast.Call)
          and ast.unparse(n.func) == "_shuffle_proteins"]
    ok = len(sh) == 1 and [ast.unparse(a) for a in sh[0].args] == [
        "proteins", "decoy_prefix", "enzyme", "reverse"]
    ctx.check(ok, "C18c-options-routed", f,
              "prefix, enzyme and reverse reach _shuffle_proteins",
              f"{[ast.unparse(x) for x in sh]}", node=f.node)
    # writer loop
    loops = [n for n in f.node.body if isinstance(n, ast.For)]
    ok_w = False
    if loops:
        lp = loops[-1]
        body = [ast.unparse(x) for x in lp.body]
        ok_w = (ast.unparse(lp.iter) == "proteins"
                and any("'\\n'.join(wrap(seq))" in b for b in body)
                and any("'>' + prot" in b for b in body)
                and any("fasta.append('\\n'.join([prot, seq]))" in b
                        for b in body))
    ctx.check(ok_w, "C18c-records-written", f,
              "every record is written as '>' + name, newline, wrapped "
              "sequence, in list order",
              "writer loop not recognised", node=f.node)
    opens = [n for n in ast.walk(f.node) if isinstance(n, ast.Call)
             and ast.unparse(n.func) == "open"]
    ok_o = len(opens) == 1 and str(const_value(
        opens[0].args[1] if len(opens[0].args) > 1 else None, "r"))[0] == "w"
    ctx.check(ok_o, "C18c-output-truncated", f,
              "the output file is written afresh",
              f"{[ast.unparse(o) for o in opens]}", node=f.node)
