"""C18 - generated decoys preserve length, composition and cleavage
structure."""

from __future__ import annotations

import ast

from ..cfg import CFG
from ..astutil import inside
from ..core import callee_is, AnalysisError, const_value, walk_own
from ..events import container_events, root_name
from ..paths import path_variants, return_cases, var_leaves
from ..defuse import DefUse, Terms, show, walk_term
from ..defuse import key as tkey
from ..tutil import (EvUnknown, module_constants, bound_args, ev_term, flat_text, items_as_subs, lin,
                     no_uids,
                     np_call, select_ifexp, seq_parts,
                     simp,
                     strip_conv, subst_params)

EXPLANATION = (
    "Static analysis of parsers.fasta._shuffle_proteins and make_decoys. "
    "(a) each peptide interior new_seq[start:end] is overwritten by the "
    "list [new_seq[i + start] for i in perm] where perm is, on every "
    "definition, a permutation of range(end - start) (np.arange, its flip "
    "for 'reverse', or a permutation of it) - so length and composition "
    "are preserved and reversal uses the flipped identity; the sequence is "
    "copied with list(seq) and re-joined. (b) fixed termini by linear "
    "normal form: start - site == 1 and next_site - end == 1, peptides are "
    "consecutive site pairs, interiors of length <= 1 are left alone. (c) "
    "the decoy name is prefix + name; in concatenated mode the targets "
    "come first (proteins += decoys), otherwise only decoys; every record "
    "is written as '>' + name, newline, wrapped sequence. Also: entry boundaries of the input FASTA (shared with C16a). "
    "Also: no early exit from the peptide loop is taken while a peptide is left (exit conditions evaluated over peptide index, site count and interior length). "
    "NOT decided: "
    "FASTA text round-trip through textwrap / the reader.")
TECHNIQUE = ("def-use term matching over all definitions + linear normal "
             "form + CFG branch analysis")

FA = "mokapot.parsers.fasta."


def run(ctx):
    prog = ctx.prog
    from ..memo import check_no_cross_call_state
    reach = prog.reachable([FA + "make_decoys"])
    check_no_cross_call_state(
        ctx, "C18-no-cross-call-state",
        [prog.funcs[q] for q in sorted(reach) if q in prog.funcs
         and not isinstance(prog.funcs[q].node, ast.Lambda)],
        "decoy generation")
    _shuffle(ctx, prog.func(FA + "_shuffle_proteins"))
    _make(ctx, prog.func(FA + "make_decoys"))
    # names and sequences of the targets are those of the input entries
    # (shared with C16a)
    from .c16 import entry_boundaries
    entry_boundaries(ctx, "C18c-entry-boundaries")


def _neg_one(t):
    return t == ("const", -1) or t == ("un", "-", ("const", 1))


def _pair_idiom(cfg, T, store_stmt, lo_atom, hi_atom, loop):
    """Which consecutive-site idiom produces (site, next site)?  Returns
    (SITES term, None) or (None, reason).

      A  for i, s in enumerate(S): ... S[i + 1]   guarded by  i + 1 < len(S)
      B  for s, n in zip(S[:-1], S[1:])
    """
    # B
    if lo_atom[0] == "zipelem" and hi_atom[0] == "zipelem" and \
            lo_atom[2] == hi_atom[2] and (lo_atom[1], hi_atom[1]) == (0, 1) \
            and len(lo_atom[2]) == 2:
        a, b = lo_atom[2]
        if a[0] == "sub" and b[0] == "sub" and a[1] == b[1] and \
                a[2][0] == "slice" and b[2][0] == "slice":
            none = ("const", None)
            ok = (a[2][1] in (none, ("const", 0)) and _neg_one(a[2][2])
                  and a[2][3] == none and b[2][1] == ("const", 1)
                  and b[2][2] == none and b[2][3] == none)
            if ok:
                return a[1], None
        # zip(S, S[1:]): zip stops with the shorter second argument
        none = ("const", None)
        if b[0] == "sub" and b[1] == a and b[2] == (
                "slice", ("const", 1), none, none):
            return a, None
        return None, "zip of something else than S[:-1] / S, S[1:]"
    # A
    if lo_atom[0] == "elem" and hi_atom[0] == "sub" and \
            hi_atom[1] == lo_atom[1]:
        S = lo_atom[1]
        d = lin(hi_atom[2]) + lin(("idx", S)).scale(-1)
        if not (d.const == 1 and not d.atoms):
            return None, "the next site is not sites[index + 1]"
        # range check: the store runs only when index + 1 < len(S)
        LEN = ("call", "builtins.len", (S,), ())
        conds = [(simp(T.of(t)), o)
                 for t, o in cfg.necessary_conditions(store_stmt)
                 if inside(t, loop)]
        bad = []
        for n_idx in (8, 9):

            def atoms(t, n_idx=n_idx):
                if t == LEN:
                    return 10
                if t == ("idx", S):
                    return n_idx
                raise KeyError(t)
            try:
                reach = True
                for t, o in conds:
                    try:
                        if bool(ev_term(t, atoms)) != o:
                            reach = False
                    except (EvUnknown, KeyError):
                        pass        # a condition about something else
                if reach != (n_idx + 1 < 10):
                    bad.append(n_idx)
            except Exception as e:      # pragma: no cover
                return None, str(e)
        if bad:
            return None, ("no range check on the next-site index: the last "
                          "site has no following peptide")
        return S, None
    # C  for i in range(len(S) - 1): ... S[i] ... S[i + 1]
    if lo_atom[0] == "sub" and hi_atom[0] == "sub" and \
            lo_atom[1] == hi_atom[1] and lo_atom[2][0] == "elem":
        S, k0, k1 = lo_atom[1], lo_atom[2], hi_atom[2]
        d = lin(k1) + lin(k0).scale(-1)
        if not (d.const == 1 and not d.atoms):
            return None, "the next site is not sites[index + 1]"
        LEN = ("call", "builtins.len", (S,), ())
        for n_sites in (1, 2, 3, 5):
            def atoms(t, n_sites=n_sites):
                if t == LEN:
                    return n_sites
                raise KeyError(t)
            from ..chunks import Unknown as _CU, ev as _cev
            try:
                got = list(_cev(k0[1], atoms))
            except (_CU, KeyError, TypeError) as e:
                raise AnalysisError(
                    "the index range of the peptide loop is outside the "
                    f"evaluated fragment: {str(e)[:80]}")
            if got != list(range(n_sites - 1)):
                return None, (f"with {n_sites} sites the peptide index runs "
                              f"over {got}, not over every consecutive pair")
        return S, None
    raise AnalysisError(
        "the way start and next site of a peptide are paired is written in "
        "a form rule C18b does not read")


def _shuffle(ctx, f):
    """Sink-driven: the slice store that rewrites a peptide's interior."""
    prog = ctx.prog
    du = DefUse(prog, f)
    T = Terms(du, phi_vars=True)
    cfg = CFG(f.node)
    p_prots, p_prefix, p_enz, p_rev = f.params[:4]
    evs = container_events(f.node, T, cfg)
    loops = [n for n in walk_own(f.node) if isinstance(n, ast.For)]
    ol = [n for n in loops if cfg.enclosing(n, (ast.For, ast.While)) is None]
    ctx.require(len(ol) == 1, f"{f.qual}: protein loop not found")
    ol = ol[0]
    ctx.check(T.of(ol.iter) == ("param", p_prots), "C18c-every-protein", f,
              "every target protein gets a decoy",
              f"loop over {ast.unparse(ol.iter)}", node=ol)
    EL = ("elem", ("param", p_prots))
    PROT, SEQ = ("item", EL, 0), ("item", EL, 1)
    # result rows: [decoy name, joined working copy]
    rets = [t for _r, t in T.returns()]
    ctx.require(len(rets) == 1 and rets[0][0] == "var",
                f"{f.qual}: result list not recognised")
    RES = rets[0][1]
    app = [e for e in evs if e.kind == "append" and root_name(e.recv) == RES]
    ok_a = False
    W = None
    if len(app) == 1 and len(app[0].args) == 1 and app[0].args[0][0] in (
            "list", "tuple") and len(app[0].args[0][1]) == 2:
        nm, sq = app[0].args[0][1]
        if sq[0] == "mcall" and sq[1] == ("const", "") and \
                sq[2] == "join" and len(sq[3]) == 1:
            W = root_name(sq[3][0])
        ok_name = nm == ("bin", "+", ("param", p_prefix), PROT)
        ctx.check(ok_name, "C18c-decoy-name", f,
                  "decoy name = decoy prefix + target name",
                  f"name is {show(nm, 80)}", node=app[0].node)
        ok_a = W is not None and not [
            c for c in cfg.necessary_conditions(app[0].stmt)
            if inside(c[0], ol)] and cfg.enclosing(
                app[0].stmt, (ast.For, ast.While)) is ol
    ctx.check(ok_a, "C18a-decoy-record", f,
              "each decoy is (prefixed name, the re-joined working copy), "
              "one per protein",
              f"{[show(a, 100) for e in app for a in e.args]}", node=ol)
    if not ok_a:
        return
    # the working copy starts as list(seq)
    winit = [T.of_def(d) for d in du.defs if d.name == W
             and d.kind == "assign"]
    ctx.check(winit == [("call", "builtins.list", (SEQ,), ())],
              "C18a-rearrangement-of-itself", f,
              "the working copy starts as the protein's own residues",
              f"working copy initialised as {[show(t, 60) for t in winit]}",
              node=ol)
    stores = [e for e in evs if root_name(e.recv) == W]
    ctx.require(len(stores) == 1 and stores[0].kind == "store"
                and stores[0].key[0] == "slice",
                f"{f.qual}: expected exactly one interior overwrite of the "
                f"working copy, found {[e.kind for e in stores]}")
    so = stores[0]
    il = cfg.enclosing(so.stmt, (ast.For,))
    ctx.require(il is not None and il is not ol and cfg.enclosing(
        il, (ast.For, ast.While)) is ol, f"{f.qual}: peptide loop not found")
    lo_t, hi_t, step_t = so.key[1:]
    l_lo, l_hi = lin(lo_t), lin(hi_t)

    def single(l):
        if len(l.atoms) == 1:
            (k, c), = l.atoms.items()
            if c == 1:
                return l.terms[k], l.const
        return None, None

    lo_atom, lo_c = single(l_lo)
    hi_atom, hi_c = single(l_hi)
    SITES = None
    why_pair = "interior bounds are not site + c"
    if lo_atom is not None and hi_atom is not None:
        SITES, why_pair = _pair_idiom(cfg, T, so.stmt, lo_atom, hi_atom, il)
    ctx.check(SITES is not None, "C18b-every-peptide", f,
              "every pair of consecutive sites is visited",
              why_pair or "", node=il)
    ctx.check(SITES is not None, "C18b-last-site-skipped", f,
              "the last site has no following peptide and is skipped",
              why_pair or "", node=il)
    if SITES is None:
        return
    want_sites = ("call", FA + "_cleavage_sites", (SEQ, ("param", p_enz)), ())
    ctx.check(SITES == want_sites and T.of(il.iter)[0] == "call"
              and any(x == SITES for x in walk_term(T.of(il.iter))),
              "C18b-sites-of-this-protein", f,
              "cleavage sites are those of this sequence under the given "
              "enzyme", f"sites are {show(SITES, 100)}", node=il)
    ctx.check(lo_c == 1 and step_t == ("const", None),
              "C18b-first-residue-fixed", f,
              "interior starts one residue after the cleavage site (start - "
              "site == 1): the peptide's first residue stays in place",
              f"start = {l_lo!r}", node=so.node)
    ctx.check(hi_c == -1, "C18b-last-residue-fixed", f,
              "interior ends one residue before the next cleavage site "
              "(next_site - end == 1): the peptide's last residue stays in "
              "place", f"end = {l_hi!r}", node=so.node)
    # value: [w[i + start] for i in perm]
    v = so.value
    ok_v = False
    PERM = None
    if v[0] == "comp" and v[1] == "list" and len(v[3]) == 1 and \
            not v[3][0][2]:
        PERM = v[3][0][1]
        e = v[2]
        # inner = w[start:end]; inner[i]  reads  w[start + i]
        if e[0] == "sub" and e[1][0] == "sub" and e[1][2][0] == "slice" \
                and root_name(e[1][1]) == W:
            sl = e[1][2]
            if sl[3] == ("const", None) and lin(sl[1]) == l_lo and \
                    lin(sl[2]) == l_hi:
                e = ("sub", e[1][1], ("bin", "+", e[2], sl[1]))
        if e[0] == "sub" and root_name(e[1]) == W and e[1][0] == "var":
            d = lin(e[2]) + l_lo.scale(-1)
            ok_v = d.const == 0 and [(d.terms[k], c) for k, c in
                                     d.atoms.items()] == [(("elem", PERM), 1)]
    ctx.check(ok_v, "C18a-rearrangement-of-itself", f,
              "the interior is replaced by its own residues read at "
              "start + perm[i]",
              f"interior := {show(v, 160)}", node=so.node)
    if not ok_v:
        return
    # perm = perms[L] with L == end - start
    diff = l_hi + l_lo.scale(-1)
    # the permutation comes out of a cache keyed by the interior length:
    # cache[L], cache.get(L), or the value just filed under cache[L]
    leaves = var_leaves(du, T, PERM) if PERM[0] in ("var", "phi") \
        else [PERM]
    reads, direct = [], []
    for lf in leaves:
        if lf[0] == "sub" and lf[1][0] == "var":
            reads.append((lf[1][1], lf[2]))
        elif lf[0] == "mcall" and lf[2] == "get" and lf[1][0] == "var" \
                and lf[3]:
            reads.append((lf[1][1], lf[3][0]))
        else:
            direct.append(lf)
    names = {nm for nm, _k in reads}
    ok_p = len(names) == 1 and all(lin(k) == diff for _n, k in reads)
    PERMS = next(iter(names)) if len(names) == 1 else None
    if ok_p and direct:
        filed = []
        for e in evs:
            if root_name(e.recv) == PERMS and e.kind == "store":
                filed.append(no_uids(e.value))
                filed.extend(no_uids(x) for x in var_leaves(du, T, e.value))
        ok_p = all(no_uids(d) in filed for d in direct)
    ctx.check(ok_p, "C18a-permutation-length", f,
              "the permutation used has length end - start",
              f"permutation is {[show(x, 80) for x in leaves]}; interior "
              f"length {diff!r}", node=so.node)
    if not ok_p:
        return
    # short interiors untouched: the store runs iff L > 1
    LEN_S = ("call", "builtins.len", (SITES,), ())
    conds = [(simp(T.of(t)), o) for t, o in
             cfg.necessary_conditions(so.stmt) if inside(t, il)]
    bad = []
    for L in (0, 1, 2, 3):

        def atoms(t, L=L):
            if lin(t) == diff:
                return L
            if t == LEN_S:
                return 10
            if t == ("idx", SITES):
                return 3
            raise KeyError(t)
        reach = True
        for t, o in conds:
            try:
                if bool(ev_term(t, atoms)) != o:
                    reach = False
            except (EvUnknown, KeyError):
                raise AnalysisError(
                    f"{f.qual}: the interior overwrite depends on "
                    f"{show(t, 80)}; rule C18b needs re-reading")
        if reach != (L > 1):
            bad.append((L, reach))
    ctx.check(not bad, "C18b-short-interiors-skipped", f,
              "interiors of at most one residue are left unchanged, longer "
              "ones are always rewritten",
              f"(interior length, rewritten) deviates: {bad}", node=il)
    # the peptide loop runs to its end: an early exit (break / return /
    # raise) may only be taken where nothing is left to visit
    exits = [n for n in ast.walk(il)
             if (isinstance(n, ast.Break) and cfg.enclosing(
                 n, (ast.For, ast.While)) is il)
             or isinstance(n, (ast.Return, ast.Raise))]
    early = []
    for x in exits:
        xc = [(simp(T.of(t)), o) for t, o in cfg.necessary_conditions(x)
              if inside(t, il)]
        for n_sites in (1, 2, 4):
            for i in range(n_sites - 1):
                for L in (0, 1, 2, 3):
                    def atoms(t, L=L, i=i, n_sites=n_sites):
                        if lin(t) == diff:
                            return L
                        if t == LEN_S:
                            return n_sites
                        if t == ("idx", SITES):
                            return i
                        raise KeyError(t)
                    try:
                        taken = all(bool(ev_term(t, atoms)) == o
                                    for t, o in xc)
                    except (EvUnknown, KeyError):
                        raise AnalysisError(
                            f"{f.qual}: an early exit from the peptide loop "
                            f"(line {x.lineno}) depends on a condition the "
                            "rule does not evaluate; rule C18b needs "
                            "re-reading")
                    if taken:
                        early.append((x.lineno, i, n_sites, L))
    ctx.check(not early, "C18b-peptide-loop-runs-to-the-end", f,
              f"no peptide is left out by an early exit from the peptide "
              f"loop ({len(exits)} exit statement(s) evaluated over site "
              "counts 1, 2, 4 and interior lengths 0..3)",
              f"(line, peptide index, number of sites, interior length) = "
              f"{early[:3]}: the loop is left before the last peptide, the "
              "peptides after it keep the target's residues in place",
              node=il)
    # definitions of perms[L]
    pst = [e for e in evs if root_name(e.recv) == PERMS and e.kind == "store"]
    ctx.floor("C18a-permutation-definitions", len(pst), 1)
    by_flag = {True: [], False: []}
    for e in pst:
        ctx.check(lin(e.key) == diff, "C18a-permutation-length", f,
                  "permutations are filed under their own length",
                  f"stored under {show(e.key, 80)}", node=e.node)
    # the values filed under perms[L], one reading per path through the
    # peptide loop (so that the value is seen together with the value of
    # ``reverse`` that selects it), directly or through a helper's paths
    from ..defuse import specialise

    class _V:
        pass
    variants = []
    for flag_ in (True, False):
        v_ = _V()
        v_.fnode = specialise(f.node, {p_rev: flag_})
        v_.flag = flag_
        variants.append(v_)
    for v in variants:
        vdu = DefUse(prog, f, fnode=v.fnode)
        vT = Terms(vdu, phi_vars=True)
        vflags = {v.flag}
        vev = [e for e in container_events(v.fnode, vT, CFG(v.fnode))
               if root_name(e.recv) == PERMS and e.kind == "store"]
        for e in vev:
            cases = [([], e.value, vdu, vT, {})]
            if e.value[0] == "call" and e.value[1] in prog.funcs:
                callee = prog.funcs[e.value[1]]
                b = bound_args(prog, e.value) or {}
                cases = []
                for c in return_cases(prog, callee):
                    cases.append(([(subst_params(t, b), o)
                                   for t, o in c.conds],
                                  c.term, c.du, c.T, b))
            for cconds, term, cdu, cT, b in cases:
                for flag in (True, False):
                    if vflags and flag not in vflags:
                        continue
                    if any(t == ("param", p_rev) and o != flag
                           for t, o in cconds):
                        continue
                    for lf in var_leaves(cdu, cT, term):
                        by_flag[flag].append((e, subst_params(lf, b), cdu,
                                              cT, b))

    def kind_of(lf, cdu, cT, b):
        def is_range(x):
            xs = [subst_params(y, b) for y in var_leaves(cdu, cT, x)] \
                if x[0] in ("var", "phi") else [x]
            return bool(xs) and all(
                (np_call(y) or ("",))[0] == "arange"
                and len(np_call(y)[1]) == 1
                and lin(np_call(y)[1][0]) == diff for y in xs)
        c = np_call(lf)
        if c and c[0] == "arange" and is_range(lf):
            return "identity"
        if c and c[0] == "flip" and len(c[1]) == 1 and is_range(c[1][0]):
            return "reverse"
        if lf[0] == "sub" and lf[2] == ("slice", ("const", None),
                                        ("const", None), ("const", -1)) \
                and is_range(lf[1]):
            return "reverse"
        if lf[0] == "sub" and lf[2][0] == "slice" and _neg_one(lf[2][3]) \
                and lf[2][1] == ("const", None) and lf[2][2] == (
                    "const", None) and is_range(lf[1]):
            return "reverse"
        if c and c[0] in ("random.permutation", "permutation") and \
                len(c[1]) >= 1 and is_range(c[1][-1]):
            return "random"
        return None

    for flag in (True, False):
        kinds = [(kind_of(lf, cdu, cT, b), lf, e)
                 for e, lf, cdu, cT, b in by_flag[flag]]
        unknown = [show(lf, 80) for k, lf, _e in kinds if k is None]
        ks = {k for k, _lf, _e in kinds}
        if flag:
            ok = bool(kinds) and ks == {"reverse"}
            why = (f"reverse mode uses {sorted(str(k) for k in ks)} "
                   f"{unknown}")
        else:
            ok = bool(kinds) and not unknown and ks <= {
                "identity", "random"} and "random" in ks
            why = (f"shuffle mode uses {sorted(str(k) for k in ks)} "
                   f"{unknown}")
        ctx.check(ok, "C18a-permutation-of-range", f,
                  f"{PERMS}[L] is a permutation of range(L)" + (
                      " (the exact reversal)" if flag else
                      " (random, or the identity when no other draw was "
                      "found)") + f" with reverse={flag}",
                  why, node=pst[0].node)


def _judge_splitter(prog, f, fnode, R, joined):
    """The lines of a record come from something other than
    textwrap.wrap(sequence): collect, per straight-line path through the
    record loop, the term of the list of lines and the conditions of the
    path, and let the bounded evaluator decide whether the lines always
    concatenate to the sequence.  R: term of the iterated records when the
    caller knows it, else None (then every loop with a branch in its body is
    tried).  Returns (verdict, message, R)."""
    from ..chunks import judge_partition
    T0 = Terms(DefUse(prog, f, fnode=fnode))
    if R is not None:
        loops = [n for n in ast.walk(fnode) if isinstance(n, ast.For)
                 and items_as_subs(T0.of(n.iter)) == R]
    else:
        loops = [n for n in ast.walk(fnode) if isinstance(n, ast.For)
                 and any(isinstance(x, ast.If) for b in n.body
                         for x in ast.walk(b))]
    last = ("unknown", "record loop not found", None)
    for loop in loops:
        last = _judge_loop(prog, f, fnode, loop, joined, judge_partition)
        if last[0] != "unknown":
            return last
    return last


def _judge_loop(prog, f, fnode, loop, joined, judge_partition):
    cases = []
    X = None
    Rs = set()
    for sv in path_variants(fnode, within=loop):
        sT = Terms(DefUse(prog, f, fnode=sv.fnode))
        ws = [n for n in ast.walk(sv.fnode) if isinstance(n, ast.Call)
              and isinstance(n.func, ast.Attribute)
              and n.func.attr == "write" and len(n.args) == 1]
        if len(ws) != 1:
            return "unknown", "write call not found on a path", None
        wt = items_as_subs(select_ifexp(
            select_ifexp(sT.of(ws[0].args[0]), ("param", "concatenate"),
                         True), ("param", "concatenate"), False))
        lst = joined(wt)
        parts = seq_parts(lst) if lst is not None else None
        if not (parts and len(parts) == 1 and parts[0][0] == "each"):
            return "unknown", "records not recognised on a path", None
        _k, elt, R2 = parts[0]
        Rs.add(R2)
        ft = flat_text(elt)
        rec = ("elem", R2)
        head = [("const", ">"), ("sub", rec, ("const", 0)),
                ("const", "\n")]
        if ft == head:
            lines_t = ("list", ())      # '\n'.join([]) folded to ''
        elif len(ft) == 4 and ft[:3] == head and \
                joined(ft[3]) is not None:
            lines_t = joined(ft[3])
        else:
            return "unknown", "record text not recognised on a path", None
        X = ("sub", rec, ("const", 1))
        conds = []
        for t_, o in sv.conds:
            conds.append((module_constants(
                prog, items_as_subs(sT.of(t_))), o))
        cases.append((conds, module_constants(prog, lines_t)))
    if not cases or X is None or len(Rs) != 1:
        return "unknown", "no single record stream through the loop", None
    v, msg = judge_partition(cases, X)
    return v, msg, next(iter(Rs))


def _make(ctx, f):
    """Sink-driven: what is written to the output file, per value of
    ``concatenate``."""
    prog = ctx.prog
    cfg = CFG(f.node)
    NL = ("const", "\n")

    def joined(t):
        """X of  '\\n'.join(X)"""
        if t[0] == "mcall" and t[1] == NL and t[2] == "join" and \
                len(t[3]) == 1:
            return t[3][0]
        return None

    seen = {}
    for v in path_variants(f.node):
        vT = Terms(DefUse(prog, f, fnode=v.fnode))
        flag = None
        for t, o in v.conds:
            tt = vT.of(t)
            while tt[0] == "un" and tt[1] == "not":
                tt, o = tt[2], not o
            if tt == ("param", "concatenate"):
                flag = o
        ws = [n for n in ast.walk(v.fnode) if isinstance(n, ast.Call)
              and isinstance(n.func, ast.Attribute)
              and n.func.attr == "write" and len(n.args) == 1]
        if not ws:
            continue
        ctx.require(len(ws) == 1, f"{f.qual}: several writes")
        wt = vT.of(ws[0].args[0])
        for fl in ([flag] if flag is not None else [True, False]):
            seen.setdefault(fl, []).append((items_as_subs(select_ifexp(
                wt, ("param", "concatenate"), fl)), v.fnode))
    ctx.require(set(seen) == {True, False}, f"{f.qual}: written text not "
                "determined for both values of concatenate")
    recs = {}
    ok_w = True
    why = ""
    splitters = []     # hand-written line splitters: (flag, fnode, R)
    for fl, terms in seen.items():
        for t, vnode in terms:
            lst = joined(t)
            parts = seq_parts(lst) if lst is not None else None
            if not (parts and len(parts) == 1 and parts[0][0] == "each"):
                # branches inside the record loop: judge path by path
                splitters.append((fl, vnode, None, t))
                continue
            _k, elt, R = parts[0]
            rec = ("elem", R)
            ft = flat_text(elt)
            head = [("const", ">"), ("sub", rec, ("const", 0)), NL]
            wrapped = ("call", "textwrap.wrap", (
                ("sub", rec, ("const", 1)),), ())
            if ft[:3] != head or len(ft) != 4 or joined(ft[3]) is None:
                ok_w = False
                why = f"a record is written as {show(elt, 200)}"
            elif joined(ft[3]) != wrapped:
                splitters.append((fl, vnode, R, t))
            recs.setdefault(fl, set()).add(R)
    for fl, vnode, R, t in splitters:
        verdict, msg, R2 = _judge_splitter(prog, f, vnode, R, joined)
        if verdict == "unknown":
            if R is None:
                ok_w = False
                why = f"written text is {show(t, 160)}"
                continue
            raise AnalysisError(
                f"{f.qual}: the sequence lines are produced by a "
                f"hand-written splitter that cannot be evaluated ({msg})")
        if R is None and R2 is not None:
            recs.setdefault(fl, set()).add(R2)
        if verdict == "violation":
            ok_w = False
            why = ("the sequence is cut into lines by hand and " + msg
                   + ": the written record is not the sequence")
    ctx.check(ok_w, "C18c-records-written", f,
              "every record is written as '>' + name, newline, wrapped "
              "sequence, in list order", why or "writer not recognised",
              node=f.node)
    ok = all(len(recs.get(fl, ())) == 1 for fl in (True, False))
    why = f"records written: { {k: [show(x, 120) for x in v] for k, v in recs.items()} }"
    DEC = None
    if ok:
        r_t, r_f = next(iter(recs[True])), next(iter(recs[False]))
        DEC = r_f
        tg = None
        if r_f[0] == "call" and r_f[1] == FA + "_shuffle_proteins":
            tg = (bound_args(prog, r_f) or {}).get(
                prog.func(FA + "_shuffle_proteins").params[0])
        ok = tg is not None and r_t == ("bin", "+", tg, r_f)
    ctx.check(ok, "C18c-concatenate", f,
              "concatenated mode keeps the targets first and appends the "
              "decoys; otherwise only decoys are written", why,
              node=f.node)
    ok = False
    if DEC is not None and DEC[0] == "call":
        b = bound_args(prog, DEC) or {}
        sp = prog.func(FA + "_shuffle_proteins").params
        ok = [b.get(p) for p in sp[1:4]] == [
            ("param", "decoy_prefix"), ("param", "enzyme"),
            ("param", "reverse")] and any(
                isinstance(x, tuple) and x[:2] == (
                    "call", FA + "_parse_fasta_files")
                for x in walk_term(b.get(sp[0], ("x",))))
    ctx.check(ok, "C18c-options-routed", f,
              "prefix, enzyme and reverse reach _shuffle_proteins",
              f"{show(DEC, 200) if DEC else None}", node=f.node)
    from ..effects import open_calls
    oc = open_calls(prog, f)
    opens = [c_ for c_, _m in oc]
    ok_o = len(oc) == 1 and str(oc[0][1] or "r")[:1] == "w"
    ctx.check(ok_o, "C18c-output-truncated", f,
              "the output file is written afresh",
              f"{[ast.unparse(o) for o in opens]}", node=f.node)
