"""C05 - results do not depend on chunk sizes, workers, timing or format."""

from __future__ import annotations

import ast

from ..astutil import cond_terms, requires_flag, size_dependent
from ..cfg import CFG
from ..core import delayed_task_of, callee_is, AnalysisError, const_value, walk_own
from ..tutil import lin, np_call
from ..defuse import MUTATORS, DefUse, Terms, show, walk_term
from ..defuse import key as tkey

EXPLANATION = (
    "Static analysis of every chunked stream and every joblib.Parallel "
    "site. (a) chunk-size agreement: in each function that zips a chunked "
    "file reader with create_chunks slices, both use the same chunk-size "
    "expression. (b) schedule independence (PAR): for each of the 7 "
    "Parallel sites the task function's mutated parameters are computed "
    "(transitively); every mutated actual is per-task distinct (generator "
    "element, fresh copy, slot indexed by the task's own enumerate index) "
    "or a shared list whose order is restored by a reindex on an explicit "
    "index before it reaches a result; fitted models are sorted by fold on "
    "every path and fold numbers are the enumerate index over the whole "
    "list of training sets. (c) no chunk-content-dependent failure: the "
    "per-chunk, per-fold subset handed to the dataset constructor with "
    "enforce_checks=False must not hit a row-count-dependent raise that "
    "the flag does not disable. (d) per-chunk work is chunk-decomposable: "
    "per-chunk de-duplication only under the de-duplication switch (shared "
    "with C03c), score calibration outside the chunk loop. (e) the six "
    "MOKAPOT_* chunk constants reach only chunk-size parameters and the "
    "batch-flush equality. (f) the Parquet chunk iterator re-bases each "
    "batch's row index by (batch number x requested chunk size) so the row "
    "index continues across chunks like the text reader's; both row "
    "Also: every worker-count parameter is only handed on as a worker count (who-may-use rule, shared with C08). "
    "iterators of merge_sort traverse every chunk completely. Also: the k-way merge selection and loop (shared with C14a) and the fold/chunk bookkeeping of _predict (shared with C02b/d) are clauses of this property. NOT decided: "
    "floating-point summation differences, estimator thread-safety.")
TECHNIQUE = ("parallel-effect analysis (mutated-parameter summaries + "
             "per-task distinctness) + CFG must-pass-through + constant "
             "use-site classification + raise/flag control analysis")


def run(ctx):
    from .c03 import (chunk_size_agreement, _dedup_switch,
                      _chunk_dedup_keeps_best)
    chunk_size_agreement(ctx, "C05a-chunk-size-agreement")
    _parallel_sites(ctx)
    _models_sorted(ctx)
    _empty_subset(ctx)
    _dedup_switch(ctx)
    _chunk_dedup_keeps_best(ctx)
    # the NaN scan must take the union over the row chunks (shared with
    # C10d): anything else depends on how the rows are chunked
    from .c10 import _nan_scan, PIN
    _nan_scan(ctx, ctx.prog.func(
        PIN + "drop_missing_values_and_fill_spectra_dataframe"))
    # the per-chunk de-duplication only removes rows the global competition
    # would remove anyway if that competition is exact (shared with C03b):
    # otherwise the result depends on which duplicates share a chunk
    from .c03 import _first_seen_wins, AC
    _first_seen_wins(ctx, ctx.prog.func(AC))
    _calibration_outside_chunk_loop(ctx)
    _chunk_constants(ctx)
    worker_count_only_forwarded(ctx, "C05b-worker-count-only-forwarded")
    _parquet_index(ctx)
    from .c14 import _row_iterator
    for q in ("mokapot.utils.csv_row_iterator",
              "mokapot.utils.parquet_row_iterator"):
        _row_iterator(ctx, ctx.prog.func(q))
    # the merge of the sorted chunk files must be an exact k-way merge: with
    # any slip in the selection the merged order - and with it every result
    # file - depends on how the rows were cut into chunks (shared with C14a)
    from .c14 import _get_next_row, _merge_sort
    _get_next_row(ctx, ctx.prog.func("mokapot.utils.get_next_row"))
    _merge_sort(ctx, ctx.prog.func("mokapot.utils.merge_sort"))
    # prediction chunks: each chunk gets the matching slice of the fold
    # vector, whatever the prediction chunk size (shared with C02b/d)
    from .c02 import _predict
    _predict(ctx, ctx.prog.func("mokapot.brew._predict"))


WORKER_PARAMS = ("max_workers", "n_jobs", "num_workers", "workers")


def worker_count_only_forwarded(ctx, rule):
    """The number of workers may decide how much runs at the same time and
    nothing else: every use of a worker-count parameter is a forwarding use
    (bound to a worker-count parameter of the callee - Parallel(n_jobs=...),
    a repository function's max_workers - or stored in an attribute of that
    name).  A comparison, an arithmetic use or any other argument position
    makes a value (a chunk size, a code path) depend on the worker count."""
    prog = ctx.prog
    n_uses = 0
    for q in sorted(prog.funcs):
        f = prog.funcs[q]
        if isinstance(f.node, ast.Lambda):
            continue
        mine = [p_ for p_ in f.params if p_ in WORKER_PARAMS]
        if not mine:
            continue
        parents = {}
        for n in ast.walk(f.node):
            for ch in ast.iter_child_nodes(n):
                parents[id(ch)] = n
        du = None
        for n in walk_own(f.node):
            if not (isinstance(n, ast.Name) and n.id in mine
                    and isinstance(n.ctx, ast.Load)):
                continue
            if du is None:
                du = DefUse(prog, f)
            if not any(d.kind == "param" for d in du.defs_of(n)):
                continue        # re-bound local of that name
            n_uses += 1
            par = parents.get(id(n))
            ok = False
            splat = _as_splatted_keyword(parents, n, f.node)
            if splat is not None:
                ok = splat in WORKER_PARAMS
            elif isinstance(par, ast.keyword) and par.arg in WORKER_PARAMS:
                ok = True
            elif isinstance(par, ast.keyword) or (
                    isinstance(par, ast.Call) and n in par.args):
                call = par if isinstance(par, ast.Call) else parents.get(
                    id(par))
                tgt = call
                # delayed(f)(.., max_workers) forwards to f
                _k, tg = prog.resolve_call(f, f.module, tgt)
                for q2 in tg or ():
                    g = prog.funcs.get(q2) or prog.funcs.get(
                        q2 + ".__init__")
                    if g is None:
                        continue
                    b = prog.bind(g, tgt)
                    if any(v is n and k in WORKER_PARAMS
                           for k, v in b.items()):
                        ok = True
            elif isinstance(par, ast.Assign) and par.value is n and all(
                    isinstance(t, ast.Attribute) and t.attr in WORKER_PARAMS
                    for t in par.targets):
                ok = True
            elif isinstance(par, ast.Expr):
                ok = True       # a bare mention (documentation stub)
            elif isinstance(par, ast.Call) and callee_is(
                    prog, f, par, "LOGGER.info", "LOGGER.debug",
                    "logging.info", "logging.debug"):
                ok = True
            ctx.check(ok, rule, f,
                      f"'{n.id}' (line {n.lineno}) is only handed on as a "
                      "worker count",
                      f"'{n.id}' is used in '{ast.unparse(par)[:70]}': a "
                      "value or a branch depends on the number of workers, "
                      "so results can differ between worker counts",
                      node=n)
    ctx.floor(rule + "-uses", n_uses, 4)


# ------------------------------------------------------------------ PAR
def _mutated_params(prog, f, memo, depth=0):
    """{param: [(description, node)]} of parameters the function mutates in
    place, directly or through repository callees (depth <= 3)."""
    if f.qual in memo:
        return memo[f.qual]
    memo[f.qual] = {}
    out: dict[str, list] = {}
    params = [p for p in f.params if not p.startswith("*")]
    if isinstance(f.node, ast.Lambda):
        return out

    def root_param(e):
        while isinstance(e, (ast.Subscript, ast.Attribute)):
            e = e.value
        if isinstance(e, ast.Name) and e.id in params:
            return e.id
        return None

    # names re-bound locally no longer alias the parameter at that point;
    # keep it simple: a parameter that is re-assigned before the mutation is
    # still reported (conservative)
    for n in walk_own(f.node):
        if isinstance(n, ast.Call) and isinstance(n.func, ast.Attribute):
            meth = n.func.attr
            inplace = meth in MUTATORS or any(
                kw.arg == "inplace" and const_value(kw.value) is True
                for kw in n.keywords)
            if inplace:
                p = root_param(n.func.value)
                if p:
                    out.setdefault(p, []).append(
                        (f"{ast.unparse(n.func)}(...)", n))
        elif isinstance(n, (ast.Assign, ast.AugAssign)):
            tgts = n.targets if isinstance(n, ast.Assign) else [n.target]
            for t in tgts:
                if isinstance(t, (ast.Subscript, ast.Attribute)):
                    p = root_param(t)
                    if p:
                        out.setdefault(p, []).append(
                            (f"{ast.unparse(t)} = ...", n))
    if depth < 3:
        for call, kind, tg in prog.call_sites(f):
            if kind != "internal":
                continue
            for q in tg:
                g = prog.funcs.get(q)
                if g is None or g is f:
                    continue
                gm = _mutated_params(prog, g, memo, depth + 1)
                if not gm:
                    continue
                b = prog.bind(g, call)
                for formal, muts in gm.items():
                    a = b.get(formal)
                    if a is None:
                        continue
                    p = root_param(a)
                    if p:
                        out.setdefault(p, []).append(
                            (f"via {g.qual.split('.')[-1]}({formal})", call))
    memo[f.qual] = out
    return out


# shared targets that are accepted, with the predicate that restores order
def _restored_by_reindex(ctx, prog):
    """train_psms[file][fold] lists are consumed only by
    concat_and_reindex_chunks, which re-orders by the explicit index."""
    f = prog.func("mokapot.parsers.pin.concat_and_reindex_chunks")
    du = DefUse(prog, f)
    T = Terms(du)
    rets = T.returns()
    ok = False
    why = "no return"
    if len(rets) == 1:
        t = rets[0][1]
        why = show(t, 200)
        if t[0] == "comp":
            elt = t[2]
            # pd.concat(df_fold).reindex(orig_idx_fold) zipped pairwise
            if elt[0] == "mcall" and elt[2] == "reindex" and elt[3] and \
                    elt[1][0] == "call" and elt[1][1] == "pandas.concat":
                a = elt[1][2][0]
                b = elt[3][0]
                ok = (a[0] == "zipelem" and b[0] == "zipelem"
                      and a[2] == b[2] and a[1] == 0 and b[1] == 1
                      and a[2][0] == ("param", f.params[0])
                      and a[2][1] == ("param", f.params[1]))
    return ok, why, f


def _parallel_sites(ctx):
    prog = ctx.prog
    memo: dict = {}
    sites = []
    for q in sorted(prog.funcs):
        f = prog.funcs[q]
        if isinstance(f.node, ast.Lambda):
            continue
        for n in walk_own(f.node):
            if isinstance(n, ast.Call) and isinstance(n.func, ast.Call) and \
                    prog.dotted(f, f.module, n.func.func) == \
                    "joblib.Parallel":
                sites.append((f, n))
    ctx.floor("C05b-parallel-sites", len(sites), 4)
    ok_re, why_re, re_f = _restored_by_reindex(ctx, prog)
    for f, site in sites:
        ctx.require(len(site.args) == 1 and isinstance(
            site.args[0], (ast.GeneratorExp, ast.ListComp)),
            f"{f.qual}: Parallel(...) argument is not a generator of tasks")
        gen = site.args[0]
        task = gen.elt
        ctx.require(isinstance(task, ast.Call) and isinstance(
            task.func, ast.Call) and prog.dotted(
                f, f.module, task.func.func) == "joblib.delayed",
            f"{f.qual}: task is not delayed(f)(...)")
        fexpr = task.func.args[0]
        kind, tg = prog.resolve_call(
            f, f.module, ast.Call(func=fexpr, args=task.args,
                                  keywords=task.keywords))
        loop_vars = set()
        enum_idx = {}
        for g in gen.generators:
            for nm in ast.walk(g.target):
                if isinstance(nm, ast.Name):
                    loop_vars.add(nm.id)
            if isinstance(g.iter, ast.Call) and ast.unparse(
                    g.iter.func) == "enumerate" and isinstance(
                        g.target, ast.Tuple):
                enum_idx[g.target.elts[0].id] = ast.unparse(g.iter.args[0])
        label = f"{ast.unparse(fexpr)} @ {f.qual.split('.')[-1]}"
        if kind != "internal":
            # method of a loop element (mod.predict): the receiver must be
            # the per-task element and arguments read-only library calls
            recv = fexpr.value if isinstance(fexpr, ast.Attribute) else None
            ok = isinstance(recv, ast.Name) and recv.id in loop_vars
            ctx.check(ok, "C05b-task-effects", f,
                      f"task {label}: method of the per-task element",
                      f"task callee {ast.unparse(fexpr)} is not resolvable "
                      "and not a method of the per-task element", node=site)
            continue
        callee = prog.funcs[tg[0]]
        muts = _mutated_params(prog, callee, memo)
        b = prog.bind(callee, task)
        if not muts:
            ctx.ok("C05b-task-effects", f,
                   f"task {label}: no in-place effects on its arguments "
                   "(results returned in task order)")
        for formal, how in sorted(muts.items()):
            a = b.get(formal)
            if a is None:
                continue
            atxt = ast.unparse(a)
            names = {n.id for n in ast.walk(a) if isinstance(n, ast.Name)}
            distinct = False
            reason = ""
            if isinstance(a, ast.Name) and a.id in loop_vars:
                distinct, reason = True, "per-task generator element"
            elif isinstance(a, ast.Call) and ast.unparse(a.func) in (
                    "copy.deepcopy", "copy.copy", "deepcopy"):
                distinct, reason = True, "fresh copy per task"
            elif isinstance(a, ast.BinOp) and names & loop_vars:
                distinct, reason = True, "path built from the task index"
            if not distinct:
                # slot indexed by another formal bound to the task's own
                # enumerate index:  scores[fold].append(...)
                slot_ok = True
                for desc, node in how:
                    recv = None
                    if isinstance(node, ast.Call) and isinstance(
                            node.func, ast.Attribute):
                        recv = node.func.value
                    elif isinstance(node, ast.Assign):
                        recv = node.targets[0]
                    idx_formal = None
                    if isinstance(recv, ast.Subscript) and isinstance(
                            recv.slice, ast.Name):
                        idx_formal = recv.slice.id
                    ia = b.get(idx_formal) if idx_formal else None
                    if not (ia is not None and isinstance(ia, ast.Name)
                            and ia.id in enum_idx):
                        # any other spelling of "the task's own position":
                        # zip(range(n), xs), range(len(xs)) ... (on terms)
                        from ..tutil import POS, align_positions
                        pa = None
                        if ia is not None:
                            Tf = Terms(DefUse(prog, f), phi_vars=True)
                            pa = align_positions(Tf.of(ia))
                        own_pos = pa == POS or (
                            pa is not None and pa[0] == "bin"
                            and pa[1] in ("+", "-") and (
                                (pa[2] == POS and pa[3][0] == "const")
                                or (pa[1] == "+" and pa[3] == POS
                                    and pa[2][0] == "const")))
                        if not own_pos:
                            slot_ok = False
                if slot_ok and how:
                    distinct = True
                    reason = "slot indexed by the task's enumerate index"
            if distinct:
                ctx.ok("C05b-task-effects", f,
                       f"task {label}: mutated argument '{formal}' <- "
                       f"{atxt[:40]}", reason)
                continue
            # shared target: must be in the accepted table
            accepted = None
            if callee.qual == "mokapot.parsers.pin.get_rows_from_dataframe" \
                    and formal == "train_psms":
                accepted = ok_re and _only_consumer_is_reindex(ctx, f, a)
                reason = ("shared per-fold lists; order restored by "
                          "concat(...).reindex(explicit index) in "
                          "concat_and_reindex_chunks")
                if not ok_re:
                    reason = ("the consumer concat_and_reindex_chunks no "
                              f"longer restores the row order: {why_re}")
            elif callee.qual == ("mokapot.parsers.pin."
                                 "drop_missing_values_and_fill_spectra_"
                                 "dataframe") and formal == "df_spectra_list":
                accepted = _single_writer(ctx, callee)
                reason = ("only the task whose column chunk contains all "
                          "identifier columns appends (guarded by the "
                          "subset test); chunks of one task are sequential")
            ctx.check(bool(accepted), "C05b-task-effects", f,
                      f"task {label}: shared mutated argument '{formal}' "
                      f"<- {atxt[:40]} has a schedule-independent result",
                      reason or
                      f"tasks mutate the shared object {atxt} "
                      f"({', '.join(d for d, _n in how)[:120]}); the order "
                      "of the effects depends on thread timing and nothing "
                      "restores it", node=site, detail=reason)


def _only_consumer_is_reindex(ctx, f, actual):
    """In parse_in_chunks: the shared list is read only by the reindexing
    task and nothing else before being returned."""
    name = actual.id if isinstance(actual, ast.Name) else None
    if name is None:
        return False
    uses = [n for n in ast.walk(f.node) if isinstance(n, ast.Name)
            and n.id == name and isinstance(n.ctx, ast.Load)]
    parents = {}
    for n in ast.walk(f.node):
        for ch in ast.iter_child_nodes(n):
            parents[id(ch)] = n
    prog = ctx.prog
    ok = True
    for u in uses:
        # allowed: an argument (positional or keyword) of the get_rows
        # task, or of the zip that feeds the reindexing task
        call = parents.get(id(u))
        while call is not None and not isinstance(call, ast.Call):
            if isinstance(call, (ast.stmt, ast.comprehension)):
                call = None
                break
            call = parents.get(id(call))
        if call is not None and (
                delayed_task_of(prog, f, call, "get_rows_from_dataframe")
                or callee_is(prog, f, call, "builtins.zip", "zip")):
            continue
        ok = False
    rets = [n for n in ast.walk(f.node) if isinstance(n, ast.Return)]
    for r in rets:
        if name in {n.id for n in ast.walk(r) if isinstance(n, ast.Name)}:
            ok = False
    return ok


def subset_test(term, outcome, small, big):
    """Does (term, outcome) say  set(small) <= set(big)  ?"""
    def setof(x):
        return ("call", "builtins.set", (("param", x),), ())
    if not outcome:
        return False
    if term[0] == "cmp" and term[1] == "<=" and term[2] == setof(small) \
            and term[3] == setof(big):
        return True
    if term[0] == "cmp" and term[1] == ">=" and term[3] == setof(small) \
            and term[2] == setof(big):
        return True
    if term[0] == "mcall" and term[2] == "issubset" and \
            term[1] == setof(small) and term[3] in (
                (setof(big),), (("param", big),)):
        return True
    return False


def _single_writer(ctx, callee):
    """The shared list is appended to only under 'all identifier columns are
    in this task's column chunk' - true for exactly one task."""
    cfg = CFG(callee.node)
    T = Terms(DefUse(ctx.prog, callee))
    p_reader, p_col, p_spec, p_list = callee.params
    apps = [n for n in ast.walk(callee.node) if isinstance(n, ast.Call)
            and isinstance(n.func, ast.Attribute)
            and n.func.attr in MUTATORS and isinstance(
                n.func.value, ast.Name) and n.func.value.id == p_list]
    if len(apps) != 1:
        return False
    return any(subset_test(t, o, p_spec, p_col)
               for t, o in cond_terms(cfg, T, apps[0]))


def _models_sorted(ctx):
    prog = ctx.prog
    f = prog.func("mokapot.brew.brew")
    cfg = CFG(f.node)
    # sink-driven: the list that is unzipped into (models, resets) is, on
    # every path, the result of an in-place sort or of sorted() by the
    # recorded fold  (no variable is named)
    du0 = DefUse(prog, f)
    T0 = Terms(du0)
    unzips = [n for n in ast.walk(f.node) if isinstance(n, ast.Call)
              and callee_is(prog, f, n, "zip", "builtins.zip")
              and len(n.args) == 1 and isinstance(n.args[0], ast.Starred)
              and not n.keywords]
    ctx.require(len(unzips) == 1, f"{f.qual}: the zip(*...) that separates "
                "models from reset flags was not found")
    lt = T0.of(unzips[0].args[0].value)

    def alts(t):
        if t[0] == "phi":
            return [y for x in t[1] for y in alts(x)]
        return [t]

    def sort_key(t):
        """key of the sort that produced t, '' when sorted without key,
        None when t is not the result of a sort"""
        if t[0] == "mut" and t[2] == "sort":
            return dict(t[4]).get("key", "")
        if t[0] == "call" and t[1] == "builtins.sorted" and t[2]:
            return dict(t[3]).get("key", "")
        return None

    def by_fold(k):
        return bool(k) and k[0] == "lambda" and len(k[1]) == 1 and \
            k[2][0] == "attr" and k[2][2] == "fold" and any(
                x == ("lparam", k[1][0]) for x in walk_term(k[2]))
    keys = [sort_key(a) for a in alts(lt)]
    ok = bool(keys) and all(by_fold(k) for k in keys)
    if any(k is None for k in keys):
        why = ("on some path the models are paired with the folds without "
               f"having been sorted: {show(lt, 120)}")
    else:
        why = "sort key is not the recorded fold"
    ctx.check(ok, "C05b-models-sorted-by-fold", f,
              "fitted (or supplied) models are sorted by their recorded "
              "fold on every path before they are paired with the folds",
              why, node=unzips[0])
    # fold numbers: enumerate index over the full list of training sets
    tasks = [n for n in ast.walk(f.node) if isinstance(n, ast.Call)
             and delayed_task_of(prog, f, n, "_fit_model")]
    ctx.require(len(tasks) == 1, f"{f.qual}: _fit_model task not found")
    gen = None
    for n in ast.walk(f.node):
        if isinstance(n, (ast.GeneratorExp, ast.ListComp)) and \
                n.elt is tasks[0]:
            gen = n
    fm = prog.func("mokapot.brew._fit_model")
    b = prog.bind(fm, tasks[0])
    du = DefUse(prog, f)
    T = Terms(du)
    ok_f = False
    why = "generator not found"
    if gen is not None and len(gen.generators) == 1:
        g = gen.generators[0]
        it = T.of(g.iter)
        fold_a = b.get("fold")
        ts_a = b.get("train_set")
        ok_f = (it[0] == "call" and it[1] == "builtins.enumerate"
                and len(it[2]) == 1
                and it[2][0][0] == "call"
                and it[2][0][1] == "mokapot.parsers.pin.parse_in_chunks"
                and isinstance(g.target, ast.Tuple)
                and isinstance(fold_a, ast.Name)
                and fold_a.id == g.target.elts[0].id
                and isinstance(ts_a, ast.Name)
                and ts_a.id == g.target.elts[1].id
                and not g.ifs)
        why = (f"fold={ast.unparse(fold_a) if fold_a else None} over "
               f"{show(it, 100)}")
    # the Parallel call must not sit in a loop (batches restart numbering)
    in_loop = cfg.enclosing(tasks[0], (ast.For, ast.While)) is not None
    ctx.check(ok_f and not in_loop, "C05b-fold-numbering", f,
              "each model is fitted on training set k and told fold k, k "
              "being the enumerate index over the whole list of training "
              "sets",
              why + ("; the fitting call sits inside a loop, so the "
                     "numbering restarts" if in_loop else ""),
              node=tasks[0])
    fdu = DefUse(prog, fm)
    fT = Terms(fdu)
    st = [(a, fT.of(v)) for (r, a, v, s) in fdu.attr_stores
          if r == fm.params[2] and a == "fold"]
    FOLD = ("param", fm.params[3])
    ok_s = False
    if len(st) == 1:
        lf = lin(st[0][1])
        ok_s = lf.const in (0, 1) and [
            (lf.terms[k], c) for k, c in lf.atoms.items()] == [(FOLD, 1)]
    ctx.check(ok_s, "C05b-fold-recorded", fm,
              "the fitted model records the fold number it was given",
              f"model.fold = {[show(v, 60) for _a, v in st]}",
              node=fm.node)


# ------------------------------------------------------------------ c
def _empty_subset(ctx):
    prog = ctx.prog
    f = prog.func("mokapot.brew._predict")
    cfg = CFG(f.node)
    calls = [n for n in ast.walk(f.node) if isinstance(n, ast.Call)
             and callee_is(prog, f, n, "_create_psms")]
    ctx.require(len(calls) == 1, f"{f.qual}: _create_psms call not found")
    call = calls[0]
    chunk_loops = [lp for lp in cfg.enclosing_all(call, (ast.For,))
                   if "file_iterator" in ast.unparse(lp.iter)]
    ctx.require(chunk_loops, f"{f.qual}: per-chunk loop not found")
    cp = prog.func("mokapot.brew._create_psms")
    b = prog.bind(cp, call)
    flag = b.get("enforce_checks")
    off = flag is not None and const_value(flag) is False
    ctx.check(off, "C05c-checks-off-per-chunk", f,
              "the per-chunk, per-fold dataset is built with "
              "enforce_checks=False",
              "per-chunk slices are built with the target/decoy presence "
              "checks enabled: a chunk without targets or decoys of a fold "
              "aborts the run", node=call)
    # the subset may be empty: it is a boolean-mask subset of the chunk
    giv = prog.func("mokapot.brew.get_index_values")
    du = DefUse(prog, giv)
    T = Terms(du)
    rt = T.returns()[0][1]
    masked = any(x[0] == "sub" and x[2][0] == "cmp" for x in walk_term(rt))
    ctx.require(masked, f"{giv.qual}: fold slice is no longer a boolean-mask "
                "subset; rule C05c needs re-reading")
    # raises in the constructor that depend on the row count
    init = prog.func("mokapot.dataset.LinearPsmDataset.__init__")
    icfg = CFG(init.node)
    iT = Terms(DefUse(prog, init))
    n_raises = 0
    for r in [n for n in ast.walk(init.node) if isinstance(n, ast.Raise)]:
        conds = cond_terms(icfg, iT, r)
        size_dep = [c for c in conds if size_dependent(c[0])]
        if not size_dep:
            continue
        n_raises += 1
        # is the raise only reachable when enforce_checks is true?
        under_flag = requires_flag(conds, "enforce_checks", True)
        txt = show(size_dep[-1][0], 80)
        ctx.check(under_flag, "C05c-empty-subset-raises", init,
                  f"raise guarded by '{txt}' is disabled by "
                  "enforce_checks=False",
                  f"LinearPsmDataset.__init__ raises under '{txt}' even "
                  "with enforce_checks=False; brew._predict builds one "
                  "dataset per (chunk, fold), so a prediction chunk that "
                  "happens to contain no PSM of some fold aborts the run",
                  node=r)
    ctx.floor("C05c-size-dependent-raises", n_raises, 1)


# ------------------------------------------------------------------ d
def _calibration_outside_chunk_loop(ctx):
    prog = ctx.prog
    f = prog.func("mokapot.brew._predict")
    cfg = CFG(f.node)
    calls = [n for n in ast.walk(f.node) if isinstance(n, ast.Call)
             and callee_is(prog, f, n, "calibrate_scores")]
    ctx.require(len(calls) == 1, f"{f.qual}: calibrate_scores not found")
    loops = cfg.enclosing_all(calls[0], (ast.For, ast.While))
    bad = [lp for lp in loops if "file_iterator" in ast.unparse(
        getattr(lp, "iter", lp))]
    ctx.check(not bad, "C05d-calibration-per-fold-not-per-chunk", f,
              "scores are calibrated once per fold over all chunks, not "
              "per chunk",
              "calibration sits inside the loop over file chunks: the "
              "anchors would be computed per chunk", node=calls[0])
    # predictions of all chunks are collected before: hstack over the list
    T = Terms(DefUse(prog, f), phi_vars=True)
    cb = prog.bind(prog.func("mokapot.dataset.calibrate_scores"), calls[0])
    a0 = T.of(cb["scores"]) if cb.get("scores") is not None else (
        "unknown", "")
    c0 = np_call(a0)
    ctx.check(bool(c0) and c0[0] in ("hstack", "concatenate"),
              "C05d-all-chunks-collected", f,
              "calibration sees the concatenation of every chunk's "
              "predictions of the fold",
              f"calibrated value is {show(a0, 100)}", node=calls[0])


# ------------------------------------------------------------------ e
CHUNK_PARAM_CALLEES = {
    "get_chunked_data_iterator", "read_data", "create_chunks",
    "create_chunks_with_identifier", "iter_batches", "parse_in_chunks",
    "merge_readers", "MergedTabularDataReader",
}


def _enclosing_func(prog, mod, node):
    encl = None
    for g_ in prog.funcs.values():
        if g_.module is mod and not isinstance(g_.node, ast.Lambda) and any(
                x is node for x in ast.walk(g_.node)):
            if encl is None or any(x is g_.node for x in ast.walk(encl.node)):
                encl = g_
    return encl


def _as_splatted_keyword(parents, n, root):
    """name of the keyword under which ``n`` reaches a call when it is a
    value of a dictionary display that is only ever unpacked with ** into
    calls ({"chunk_size": N, ...} -> f(**options)); else None"""
    par = parents.get(id(n))
    if not isinstance(par, ast.Dict):
        return None
    key = None
    for k, v in zip(par.keys, par.values):
        if v is n and isinstance(k, ast.Constant) and isinstance(
                k.value, str):
            key = k.value
    if key is None:
        return None
    up = parents.get(id(par))
    if isinstance(up, ast.keyword) and up.arg is None:
        return key
    if isinstance(up, ast.Assign) and len(up.targets) == 1 and isinstance(
            up.targets[0], ast.Name):
        name = up.targets[0].id
        uses = [x for x in ast.walk(root) if isinstance(x, ast.Name)
                and x.id == name and isinstance(x.ctx, ast.Load)]
        if uses and all(isinstance(parents.get(id(u)), ast.keyword)
                        and parents[id(u)].arg is None for u in uses):
            return key
    return None


def _judge_chunk_use(prog, mod, parents, n, depth):
    """Is this occurrence of a chunk-size value used only to decide how rows
    are batched?  (ok, why not).  A local name bound to the value
    (``chunk_size = CONFIDENCE_CHUNK_SIZE``) is followed to its uses."""
    par = parents.get(id(n))
    ok = False
    why = f"used in {ast.unparse(par)[:80] if par else '?'}"
    splat = _as_splatted_keyword(parents, n, mod.tree)
    if splat is not None:
        ok = splat in ("chunk_size", "batch_size", "reader_chunk_size") \
            or "chunk" in splat or "batch" in splat
    elif isinstance(par, ast.keyword):
        call = parents.get(id(par))
        ok = par.arg in ("chunk_size", "batch_size",
                         "reader_chunk_size") and isinstance(call, ast.Call)
        if not ok and isinstance(call, ast.Call):
            ok = _bound_to_chunk_param(prog, mod, call, n)
    elif isinstance(par, ast.Call) and n in par.args:
        fn = ast.unparse(par.func).split(".")[-1]
        ok = fn in CHUNK_PARAM_CALLEES or fn == "range"
        if not ok:
            # positional argument bound to a chunk-size parameter of a
            # repository function
            ok = _bound_to_chunk_param(prog, mod, par, n)
    elif isinstance(par, ast.Compare) and len(par.ops) == 1 and \
            isinstance(par.ops[0], (ast.Eq, ast.NotEq, ast.Lt,
                                    ast.LtE, ast.Gt, ast.GtE)):
        # batch-flush test: counter / len(batch) against the chunk size
        # only decides when rows are handed on
        other = par.comparators[0] if par.left is n else par.left
        ok = isinstance(other, ast.Name) or (
            isinstance(other, ast.Call) and isinstance(
                other.func, ast.Name) and other.func.id == "len") \
            or isinstance(other, (ast.Subscript, ast.Attribute))
    elif isinstance(par, ast.BinOp) and isinstance(
            par.op, ast.Add) and isinstance(
                parents.get(id(par)), ast.Slice):
        ok = True  # x[i:i + chunk size]: hand-written chunking
    elif isinstance(par, ast.Assign) and par.value is n and len(
            par.targets) == 1 and isinstance(
                par.targets[0], ast.Name) and depth < 3:
        # a local name for the value: every use that this binding reaches
        # is judged in its place
        encl = _enclosing_func(prog, mod, par)
        if encl is not None:
            du = DefUse(prog, encl)
            mine = [d for d in du.defs if d.value is n]
            uses = []
            for d, nodes in du.uses_by_def().items():
                if d in mine:
                    uses.extend(nodes)
            if mine:
                ok = True
                for u in uses:
                    o2, w2 = _judge_chunk_use(prog, mod, parents, u,
                                              depth + 1)
                    if not o2:
                        ok, why = False, (
                            f"bound to '{par.targets[0].id}', which is "
                            f"{w2}")
                        break
    return ok, why


def _bound_to_chunk_param(prog, mod, call, n):
    encl = _enclosing_func(prog, mod, call)
    if encl is None:
        return False
    _kind, tg_ = prog.resolve_call(encl, mod, call)
    for q_ in tg_ or ():
        g_ = prog.funcs.get(q_) or prog.funcs.get(q_ + ".__init__")
        if g_ is None:
            continue
        b_ = prog.bind(g_, call)
        for k_, v_ in b_.items():
            if v_ is n and ("chunk" in k_ or "batch" in k_):
                return True
    return False


def _chunk_constants(ctx):
    prog = ctx.prog
    cm = prog.module("constants")
    consts = sorted(cm.assigns)
    ctx.floor("C05e-constants", len(consts), 6)
    n_uses = 0
    for mod in prog.modules.values():
        if mod.name == "mokapot.constants":
            continue
        if not any(tgt.startswith("mokapot.constants")
                   for tgt in mod.imports.values()):
            continue
        parents = {}
        for n in ast.walk(mod.tree):
            for ch in ast.iter_child_nodes(n):
                parents[id(ch)] = n
        for n in ast.walk(mod.tree):
            # a use of one of the constants, however it was imported
            # (from .constants import X / from . import constants; constants.X)
            if not (isinstance(n, (ast.Name, ast.Attribute))
                    and isinstance(n.ctx, ast.Load)):
                continue
            if isinstance(parents.get(id(n)), ast.Attribute) and \
                    parents[id(n)].value is n:
                continue
            try:
                dn = prog.dotted(None, mod, n)
            except Exception:  # noqa: BLE001
                dn = None
            if not (dn and dn.startswith("mokapot.constants.")
                    and dn.rsplit(".", 1)[1] in consts):
                continue
            n_uses += 1
            par = parents.get(id(n))
            ok, why = _judge_chunk_use(prog, mod, parents, n, 0)
            fq = mod.name
            cname = dn.rsplit(".", 1)[1]
            ctx.check(ok, "C05e-chunk-constant-use", fq,
                      f"{cname} used as a chunk size "
                      f"({mod.relpath}:{n.lineno})",
                      f"{cname} {why}: a streaming chunk size influences a "
                      "value other than how rows are batched")
    ctx.floor("C05e-constant-uses", n_uses, 6)


# ------------------------------------------------------------------ f
def _parquet_index(ctx):
    prog = ctx.prog
    f = prog.func(
        "mokapot.tabular_data.ParquetFileReader.get_chunked_data_iterator")
    du = DefUse(prog, f)
    T = Terms(du, phi_vars=True)
    p_cs = f.params[1]
    sets = [n for n in ast.walk(f.node) if (
        isinstance(n, ast.Assign) and isinstance(
            n.targets[0], ast.Attribute) and n.targets[0].attr == "index")
        or (isinstance(n, ast.AugAssign) and isinstance(
            n.target, ast.Attribute) and n.target.attr == "index"
            and isinstance(n.op, ast.Add))]
    ctx.require(len(sets) == 1, f"{f.qual}: index re-basing not found; "
                "idiom not recognised")
    if isinstance(sets[0], ast.AugAssign):
        # x.index += k  is  x.index = x.index + k  (an Index is immutable)
        v = ("bin", "+", ("attr", T.of(sets[0].target.value), "index"),
             T.of(sets[0].value))
    else:
        v = T.of(sets[0].value)
    ok = False
    why = show(v, 160)
    if v[0] == "bin" and v[1] == "+":
        a, b = v[2], v[3]
        for base, off in ((a, b), (b, a)):
            if base[0] == "attr" and base[2] == "index":
                if off[0] == "bin" and off[1] == "*":
                    fs = {off[2], off[3]}
                    idx = [x for x in fs if x[0] == "idx"]
                    cs = [x for x in fs if x == ("param", p_cs)]
                    if idx and cs:
                        it = idx[0][1]
                        # enumerate over iter_batches(chunk_size, ...)
                        ok = (it[0] == "mcall" and it[2] == "iter_batches"
                              and (it[3][:1] == (("param", p_cs),)
                                   or dict(it[4]).get("batch_size") ==
                                   ("param", p_cs)))
                        why = f"offset {show(off, 80)} over {show(it, 80)}"
                    else:
                        why = (f"offset is {show(off, 80)}: batches are "
                               "exactly the requested chunk size except "
                               "the last, so the offset of batch i must be "
                               "i * chunk_size")
                elif off[0] == "var":
                    # running offset incremented by len(df) after use
                    ds = T.var_defs[off]
                    inc = [d for d in ds if d.kind == "aug"]
                    init = [d for d in ds if d.kind == "assign"]
                    ok = bool(inc) and all(
                        tkey(T.of(d.value)).startswith("len(")
                        for d in inc) and all(
                        T.of(d.value) == ("const", 0) for d in init)
                    why = "running offset"
    ctx.check(ok, "C05f-parquet-index-continues", f,
              "Parquet batches are re-indexed to global row numbers "
              "(batch number x requested chunk size)", why, node=sets[0])
    ys = [n for n in ast.walk(f.node) if isinstance(n, ast.Yield)]
    cfg = CFG(f.node)
    ok_y = len(ys) == 1 and cfg.every_path_passes(
        cfg.node_of(cfg.enclosing(ys[0], (ast.For,))).id,
        cfg.node_of(ys[0]).id, {cfg.node_of(sets[0]).id})
    ctx.check(ok_y, "C05f-parquet-index-before-yield", f,
              "every batch is re-indexed before it is yielded",
              "a batch can be yielded without the index offset",
              node=ys[0] if ys else f.node)
