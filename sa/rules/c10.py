"""C10 - every well-formed PIN/Parquet PSM table parses into a faithful
dataset."""

from __future__ import annotations

import ast
import itertools
import json
import subprocess

from ..cfg import CFG
from ..core import AnalysisError, const_value
from ..defuse import DefUse, Terms, show, walk_term

EXPLANATION = (
    "Static analysis of parsers.pin.read_percolator / "
    "create_chunks_with_identifier / "
    "drop_missing_values_and_fill_spectra_dataframe, parsers.helpers.find_*, "
    "utils.convert_targets_column / create_chunks and "
    "OnDiskPsmDataset.__init__. (a) identifier columns stay in one column "
    "chunk: the guard of create_chunks_with_identifier is evaluated "
    "exhaustively over the finite grid feature count 0..80 x identifier "
    "width 1..5 x chunk size 1..25 against the slicing arithmetic of "
    "create_chunks: whenever the 'append and chunk together' branch is "
    "taken the identifier must fall inside one chunk; the other branch "
    "keeps it as its own chunk. (b) label table: bool passes through, "
    "1 -> True, 0/-1 -> False, anything else raises. (c) reserved columns "
    "are looked up case-insensitively, required ones raise when missing, "
    "the spectrum key is exactly [file, scan, retention time, mass] "
    "filtered on 'is not None', roles handed to the dataset come from "
    "their own lookups, features are the non-reserved columns minus - "
    "unconditionally - those reported with missing values. (d) every "
    "feature is NaN-scanned exactly once (slice partition of "
    "create_chunks) over every row chunk (no early exit), and the "
    "identifier columns are collected from every row chunk. (e) every "
    "column role stored by OnDiskPsmDataset.__init__ is existence-checked. "
    "(f) attributes of pandas.errors used by the parser exist in the "
    "installed pandas or are accessed defensively. NOT decided: dtype "
    "inference, file order of rows.")
TECHNIQUE = ("exhaustive finite-domain evaluation of an arithmetic guard "
             "(LEN) + slice-partition check (STRIDE) + truth table + "
             "constant propagation through wrappers + sibling agreement")

PIN = "mokapot.parsers.pin."
HLP = "mokapot.parsers.helpers."


def run(ctx):
    prog = ctx.prog
    _identifier_chunks(ctx, prog.func(PIN + "create_chunks_with_identifier"))
    _create_chunks(ctx, prog.func("mokapot.utils.create_chunks"))
    _label_table(ctx, prog.func("mokapot.utils.convert_targets_column"))
    _helpers(ctx)
    _read_percolator(ctx, prog.func(PIN + "read_percolator"))
    _nan_scan(ctx, prog.func(
        PIN + "drop_missing_values_and_fill_spectra_dataframe"))
    _existence_checks(ctx, prog.func(
        "mokapot.dataset.OnDiskPsmDataset.__init__"))
    _env(ctx)


class _Arith:
    def __init__(self, env):
        self.env = env

    def ev(self, e):
        if isinstance(e, ast.Constant):
            return e.value
        if isinstance(e, ast.Name):
            return self.env[e.id]
        if isinstance(e, ast.Call) and ast.unparse(e.func) == "len":
            return self.env["len(" + ast.unparse(e.args[0]) + ")"]
        if isinstance(e, ast.BinOp):
            a, b = self.ev(e.left), self.ev(e.right)
            return {ast.Add: lambda: a + b, ast.Sub: lambda: a - b,
                    ast.Mod: lambda: a % b, ast.Mult: lambda: a * b,
                    ast.FloorDiv: lambda: a // b}[type(e.op)]()
        if isinstance(e, ast.UnaryOp) and isinstance(e.op, ast.Not):
            return not self.ev(e.operand)
        if isinstance(e, ast.UnaryOp) and isinstance(e.op, ast.USub):
            return -self.ev(e.operand)
        if isinstance(e, ast.BoolOp):
            vals = [self.ev(v) for v in e.values]
            return all(vals) if isinstance(e.op, ast.And) else any(vals)
        if isinstance(e, ast.Compare):
            left = self.ev(e.left)
            for op, c in zip(e.ops, e.comparators):
                r = self.ev(c)
                ok = {ast.Lt: left < r, ast.LtE: left <= r,
                      ast.Gt: left > r, ast.GtE: left >= r,
                      ast.Eq: left == r, ast.NotEq: left != r}[type(op)]
                if not ok:
                    return False
                left = r
            return True
        raise AnalysisError(f"expression outside the arithmetic fragment: "
                            f"{ast.unparse(e)}")


def _identifier_chunks(ctx, f):
    p_data, p_id, p_cs = f.params
    ifs = [s for s in f.node.body if isinstance(s, ast.If)]
    ctx.require(len(ifs) == 1, f"{f.qual}: expected a single if/else")
    s = ifs[0]
    pre = [x for x in f.node.body if isinstance(x, ast.Assign)
           and x.lineno < s.lineno]

    def branch_kind(body):
        rets = [x for x in body if isinstance(x, ast.Return)]
        if len(rets) != 1:
            return None
        # inline simple local assignments of the branch
        loc = {ast.unparse(a.targets[0]): ast.unparse(a.value) for a in body
               if isinstance(a, ast.Assign)}
        txt = ast.unparse(rets[0].value)
        for k, v in loc.items():
            txt = txt.replace(k, f"({v})")
        txt = txt.replace(" ", "")
        if txt in (f"create_chunks(({p_data}+{p_id}),{p_cs})",
                   f"create_chunks({p_data}+{p_id},{p_cs})"):
            return "together"
        if txt == f"create_chunks({p_data},{p_cs})+[{p_id}]":
            return "separate"
        return None

    kt, ke = branch_kind(s.body), branch_kind(s.orelse)
    ctx.check({kt, ke} == {"together", "separate"},
              "C10a-branch-forms", f,
              "one branch chunks features + identifier together, the other "
              "keeps the identifier as a chunk of its own",
              f"then-branch: {kt}, else-branch: {ke}", node=s)
    if {kt, ke} != {"together", "separate"}:
        return
    bad = []
    n_eval = 0
    for n_data, n_id, c in itertools.product(range(0, 81), range(1, 6),
                                             range(1, 26)):
        env = {f"len({p_data})": n_data, f"len({p_id})": n_id, p_cs: c}
        ar = _Arith(env)
        for a in pre:
            env[ast.unparse(a.targets[0])] = ar.ev(a.value)
        g = bool(ar.ev(s.test))
        n_eval += 1
        taken = kt if g else ke
        if taken == "together":
            n = n_data + n_id
            # create_chunks cuts at multiples of c: identifier occupies
            # positions n - n_id .. n - 1
            together = (n - n_id) // c == (n - 1) // c
            if not together:
                bad.append((n_data, n_id, c))
    ctx.extra["identifier_guard_grid"] = {"evaluations": n_eval,
                                          "violations": len(bad)}
    ctx.check(not bad, "C10a-identifier-in-one-chunk", f,
              f"for all {n_eval} (features, identifier width, chunk size) "
              "triples the identifier columns end up in a single column "
              "chunk",
              f"guard '{ast.unparse(s.test)}' sends e.g. (features, "
              f"identifier width, chunk size) = {bad[:4]} to the chunk-"
              "together branch although a chunk boundary cuts through the "
              f"identifier columns ({len(bad)} triples): no chunk then "
              "holds all spectrum/label columns and parsing fails with 'No "
              "objects to concatenate'", node=s)
    # call site
    rp = ctx.prog.func(PIN + "read_percolator")
    calls = [n for n in ast.walk(rp.node) if isinstance(n, ast.Call)
             and ast.unparse(n.func) == "create_chunks_with_identifier"]
    ctx.require(len(calls) == 1, f"{rp.qual}: call not found")
    b = ctx.prog.bind(f, calls[0])
    got = {k: ast.unparse(v) for k, v in b.items()}
    ok = got == {p_data: "features", p_id: "spectra + [labels]",
                 p_cs: "CHUNK_SIZE_COLUMNS_FOR_DROP_COLUMNS"}
    ctx.check(ok, "C10a-call-site", rp,
              "features are chunked with the spectrum key + label as the "
              "identifier", f"{got}", node=calls[0])


def _create_chunks(ctx, f):
    prog = ctx.prog
    du = DefUse(prog, f)
    T = Terms(du)
    (rnode, t), = T.returns()
    p_data, p_cs = f.params
    ok = False
    if t[0] == "comp" and t[1] == "list" and len(t[3]) == 1:
        names, it, conds = t[3][0]
        i = ("elem", it)
        ok_it = it == ("call", "builtins.range", (
            ("const", 0), ("call", "builtins.len", (("param", p_data),), ()),
            ("param", p_cs)), ())
        ok_elt = t[2] == ("sub", ("param", p_data), ("slice", i, (
            "bin", "+", i, ("param", p_cs)), ("const", None)))
        ok = ok_it and ok_elt and not conds
    ctx.check(ok, "C10d-slice-partition", f,
              "create_chunks cuts data[i:i+w] for i in range(0, len, w): "
              "consecutive slices, start 0, stride equal to the width - "
              "every element in exactly one chunk",
              f"returns {show(t, 160)}", node=rnode)


def _label_table(ctx, f):
    p_data, p_col = f.params
    cfg = CFG(f.node)
    # bool passes through
    early = [n for n in ast.walk(f.node) if isinstance(n, ast.Return)
             and any("dtype == bool" in ast.unparse(g[0]) and g[1]
                     for g in cfg.guards(n))]
    ctx.check(len(early) == 1 and ast.unparse(early[0].value) == p_data,
              "C10b-bool-passthrough", f,
              "boolean label columns pass through unchanged",
              "no early return for boolean labels", node=f.node)
    lab = [n for n in f.node.body if isinstance(n, ast.Assign)
           and ast.unparse(n.value) == f"{p_data}[{p_col}].astype(int)"]
    ctx.require(len(lab) == 1, f"{f.qual}: integer label vector not found")
    L = ast.unparse(lab[0].targets[0])
    raises = [n for n in ast.walk(f.node) if isinstance(n, ast.Raise)]
    ctx.require(len(raises) == 1, f"{f.qual}: expected one raise")
    gs = cfg.guards(raises[0])
    sets = [n for n in f.node.body if isinstance(n, ast.Assign)
            and isinstance(n.targets[0], ast.Subscript)]
    ctx.require(len(sets) == 1, f"{f.qual}: label store not found")
    rows, bad = [], []
    for v in (-2, -1, 0, 1, 2):
        env = {L: v}

        class E(_Arith):
            def ev(self, e):
                if isinstance(e, ast.Call) and ast.unparse(e.func) in (
                        "any", "all"):
                    return bool(self.ev(e.args[0]))
                return super().ev(e)

        ar = E(env)
        raised = all(bool(ar.ev(t)) == pol for t, pol in gs)
        out = None if raised else bool(ar.ev(sets[0].value))
        want_raise = abs(v) > 1
        want = None if want_raise else (v == 1)
        rows.append({"label": v, "raises": raised, "target": out})
        if raised != want_raise or out != want:
            bad.append(rows[-1])
    ctx.extra["label_table"] = rows
    ctx.check(not bad, "C10b-label-table", f,
              "1 -> target, 0 and -1 -> decoy, anything else is rejected "
              "(5 valuations)", f"deviates: {bad}", node=sets[0])
    ctx.check(ast.unparse(sets[0].targets[0]) == f"{p_data}[{p_col}]",
              "C10b-label-stored-in-place", f,
              "the converted labels replace the label column",
              ast.unparse(sets[0].targets[0]), node=sets[0])


def _helpers(ctx):
    prog = ctx.prog
    fc = prog.func(HLP + "find_column")
    want = {
        "find_required_column": {"required": "True", "unique": "True",
                                 "ignore_case": "True"},
        "find_columns": {"required": "False", "unique": "False",
                         "ignore_case": "True"},
        "find_optional_column": {"required": "col is not None",
                                 "unique": "True",
                                 "ignore_case": "col is None"},
    }
    for name, exp in want.items():
        f = prog.func(HLP + name)
        calls = [n for n in ast.walk(f.node) if isinstance(n, ast.Call)
                 and ast.unparse(n.func) == "find_column"]
        ctx.require(len(calls) == 1, f"{f.qual}: find_column call missing")
        b = prog.bind(fc, calls[0])
        got = {k: ast.unparse(b[k]) for k in exp if k in b}
        ctx.check(got == exp, "C10c-lookup-wrappers", f,
                  f"{name} -> find_column({exp})", f"got {got}",
                  node=calls[0])
        first = ast.unparse(b["col"]) if "col" in b else None
        okc = first == ("col or default" if name == "find_optional_column"
                        else "col")
        ctx.check(okc, "C10c-lookup-wrappers", f,
                  f"{name} searches for the requested name",
                  f"searches for {first}", node=calls[0])
    # find_column itself
    cfg = CFG(fc.node)
    cmp_defs = [n for n in ast.walk(fc.node)
                if isinstance(n, ast.FunctionDef) and n is not fc.node]
    low = [d for d in cmp_defs if ".lower() ==" in ast.unparse(d)
           and any(ast.unparse(g[0]) == "ignore_case" and g[1]
                   for g in cfg.guards(d))]
    ctx.check(len(low) == 1, "C10c-case-insensitive", fc,
              "with ignore_case both names are lower-cased before "
              "comparison", "case-insensitive comparison missing",
              node=fc.node)
    raises = [n for n in ast.walk(fc.node) if isinstance(n, ast.Raise)]
    gtxt = [[ast.unparse(g[0]) for g in cfg.guards(r) if g[1]]
            for r in raises]
    ok = ["required and len(found_columns) == 0"] in gtxt and [
        "len(found_columns) > 1", "unique"] in gtxt
    ctx.check(ok, "C10c-missing-or-ambiguous-raises", fc,
              "a missing required column and an ambiguous unique column "
              "raise", f"raise guards: {gtxt}", node=fc.node)


RESERVED = {"specid": "specid", "peptides": "peptide", "proteins":
            "proteins", "labels": "label", "scan": "scannr"}
ROLES = {
    "target_column": "labels", "spectrum_columns": "spectra",
    "peptide_column": "peptides", "protein_column": "proteins",
    "feature_columns": "_feature_columns", "metadata_columns": "nonfeat",
    "level_columns": "level_columns", "filename_column": "filename",
    "scan_column": "scan", "specId_column": "specid",
    "calcmass_column": "calcmass", "expmass_column": "expmass",
    "rt_column": "ret_time", "charge_column": "charge",
    "columns": "columns", "filename": "perc_file",
    "spectra_dataframe": "df_spectra",
    "metadata_column_types": "nonfeat_types",
}


def _read_percolator(ctx, f):
    asg = {}
    for n in f.node.body:
        if isinstance(n, ast.Assign) and isinstance(n.targets[0], ast.Name):
            asg.setdefault(n.targets[0].id, []).append(n)
    for var, name in RESERVED.items():
        a = asg.get(var, [])
        ok = len(a) == 1 and ast.unparse(a[0].value) == \
            f"find_required_column('{name}', columns)"
        ctx.check(ok, "C10c-reserved-lookups", f,
                  f"'{name}' is a required, case-insensitive lookup",
                  f"{var} = {[ast.unparse(x.value) for x in a]}",
                  node=f.node)
    opt = {"filename": ("filename_column", "filename"),
           "calcmass": ("calcmass_column", "calcmass"),
           "expmass": ("expmass_column", "expmass"),
           "ret_time": ("rt_column", "ret_time")}
    for var, (par, default) in opt.items():
        a = asg.get(var, [])
        ok = len(a) == 1 and ast.unparse(a[0].value) == \
            f"find_optional_column({par}, columns, '{default}')"
        ctx.check(ok, "C10c-optional-lookups", f,
                  f"'{default}' is an optional lookup (explicit name or "
                  "case-insensitive default)",
                  f"{var} = {[ast.unparse(x.value) for x in a]}",
                  node=f.node)
    sp = asg.get("spectra", [])
    ok = len(sp) == 1 and ast.unparse(sp[0].value) == \
        "[c for c in [filename, scan, ret_time, expmass] if c is not None]"
    ctx.check(ok, "C10c-spectrum-key", f,
              "spectrum key = the available ones of file, scan, retention "
              "time, mass - in that order",
              f"{[ast.unparse(x.value) for x in sp]}", node=f.node)
    ft = asg.get("features", [])
    ok = len(ft) == 1 and ast.unparse(ft[0].value) == \
        "[c for c in columns if c not in nonfeat]"
    ctx.check(ok, "C10c-features-are-non-reserved", f,
              "features are the columns that are not reserved, in file "
              "order", f"{[ast.unparse(x.value) for x in ft]}", node=f.node)
    nf = asg.get("nonfeat", [])
    ok = len(nf) == 1 and ast.unparse(nf[0].value) == \
        "[specid, scan, peptides, proteins, labels]"
    ctx.check(ok, "C10c-reserved-set", f,
              "the reserved set starts as id, scan, peptide, proteins, "
              "label", f"{[ast.unparse(x.value) for x in nf]}", node=f.node)
    # final feature list: unconditional filter by the NaN report
    cfg = CFG(f.node)
    fcs = [n for n in ast.walk(f.node) if isinstance(n, ast.Assign)
           and ast.unparse(n.targets[0]) == "_feature_columns"]
    ok = len(fcs) == 1 and not cfg.guards(fcs[0]) and ast.unparse(
        fcs[0].value).replace("\n", "") == (
        "tuple([feature for feature in features if feature not in "
        "features_to_drop])")
    ctx.check(ok, "C10c-nan-features-dropped", f,
              "the final features are - unconditionally - the features not "
              "reported with missing values",
              f"_feature_columns = "
              f"{[ast.unparse(x.value)[:90] for x in fcs]} under "
              f"{[[ast.unparse(g[0]) for g in cfg.guards(x)] for x in fcs]}"
              ": a reported column can stay among the features",
              node=fcs[0] if fcs else f.node)
    # the NaN report: flatten of the non-empty task results
    ftd = asg.get("features_to_drop", [])
    txts = [ast.unparse(x.value).replace("\n", "") for x in ftd]
    ok = len(ftd) == 3 and txts[1] == \
        "[drop for drop in features_to_drop if drop]" and txts[2] == \
        "flatten(features_to_drop)"
    ctx.check(ok, "C10c-nan-report-complete", f,
              "the report of NaN columns is the concatenation of every "
              "column chunk's report", f"{txts}", node=f.node)
    # dataset roles
    ctor = [n for n in ast.walk(f.node) if isinstance(n, ast.Call)
            and ast.unparse(n.func) == "OnDiskPsmDataset"]
    ctx.require(len(ctor) == 1, f"{f.qual}: dataset constructor not found")
    got = {k.arg: ast.unparse(k.value) for k in ctor[0].keywords}
    for formal, src in ROLES.items():
        ctx.check(got.get(formal) == src, "C10c-dataset-roles", f,
                  f"OnDiskPsmDataset({formal}=...) <- {src}",
                  f"{formal} = {got.get(formal)}", node=ctor[0])
    # spectra dataframe: concatenation of the collected identifier chunks,
    # labels converted
    ds = asg.get("df_spectra", [])
    ok = len(ds) == 1 and ast.unparse(ds[0].value).replace("\n", "") == \
        "convert_targets_column(pd.concat(df_spectra_list), " \
        "target_column=labels)"
    ctx.check(ok, "C10c-one-entry-per-row", f,
              "the dataset's spectrum/label table is the concatenation of "
              "all collected row chunks with converted labels",
              f"{[ast.unparse(x.value)[:100] for x in ds]}", node=f.node)
    # every column chunk is scanned
    task = [n for n in ast.walk(f.node) if isinstance(n, ast.Call)
            and isinstance(n.func, ast.Call) and "delayed(drop_missing" in
            ast.unparse(n.func)]
    ok = False
    if len(task) == 1:
        kw = {k.arg: ast.unparse(k.value) for k in task[0].keywords}
        gen = None
        for n in ast.walk(f.node):
            if isinstance(n, ast.GeneratorExp) and n.elt is task[0]:
                gen = n
        ok = (kw == {"reader": "reader", "column": "c",
                     "spectra": "spectra + [labels]",
                     "df_spectra_list": "df_spectra_list"}
              and gen is not None
              and ast.unparse(gen.generators[0].iter) == "feat_slices"
              and not gen.generators[0].ifs)
    ctx.check(ok, "C10d-every-column-chunk-scanned", f,
              "one scan task per column chunk, with the same identifier "
              "columns the chunks were built with",
              "scan tasks do not cover feat_slices one to one", node=f.node)


def _nan_scan(ctx, f):
    p_reader, p_col, p_spec, p_list = f.params
    loops = [n for n in f.node.body if isinstance(n, ast.For)]
    ctx.require(len(loops) == 1, f"{f.qual}: row-chunk loop not found")
    lp = loops[0]
    early = [n for n in ast.walk(lp) if isinstance(n, (ast.Break,
                                                        ast.Return,
                                                        ast.Continue))]
    ctx.check(not early, "C10d-all-row-chunks", f,
              "every row chunk is read (no early exit from the row loop)",
              "the loop over the row chunks can stop early: the identifier "
              "columns of the remaining rows are never collected, so the "
              "dataset has fewer entries than the file has rows, and NaNs "
              "further down are missed", node=lp)
    fi = [n for n in f.node.body if isinstance(n, ast.Assign)
          and ast.unparse(n.targets[0]) == "file_iterator"]
    ok = len(fi) == 1 and ast.unparse(fi[0].value).replace("\n", "") \
        .replace(" ", "") == (
        f"{p_reader}.get_chunked_data_iterator(chunk_size="
        f"CHUNK_SIZE_ROWS_FOR_DROP_COLUMNS,columns={p_col})")
    ctx.check(ok, "C10d-row-chunks-of-this-column-chunk", f,
              "rows are streamed for exactly this column chunk",
              f"{[ast.unparse(x.value)[:100] for x in fi]}", node=f.node)
    cfg = CFG(f.node)
    app = [n for n in ast.walk(lp) if isinstance(n, ast.Call)
           and ast.unparse(n.func) == f"{p_list}.append"]
    ok_a = len(app) == 1 and ast.unparse(app[0].args[0]) == \
        f"feature[{p_spec}]"
    if ok_a:
        gs = [ast.unparse(g[0]) for g in cfg.guards(app[0]) if g[1]]
        ok_a = gs == [f"set({p_spec}) <= set({p_col})"]
    ctx.check(ok_a, "C10d-identifier-collected-per-row-chunk", f,
              "the chunk holding all identifier columns contributes them "
              "for every row chunk",
              f"{[ast.unparse(a)[:60] for a in app]}", node=lp)
    acc = [n for n in lp.body if isinstance(n, ast.Assign)
           and ast.unparse(n.targets[0]) == "na_mask"]
    ok_m = len(acc) == 1 and "feature.isna().any(axis=0)" in ast.unparse(
        acc[0].value) and "na_mask" in ast.unparse(acc[0].value) and not \
        cfg.guards(acc[0])[:-0 or None] or False
    ok_m = len(acc) == 1 and "feature.isna().any(axis=0)" in ast.unparse(
        acc[0].value) and "[na_mask," in ast.unparse(acc[0].value).replace(
            " ", "")
    ctx.check(ok_m, "C10d-nan-accumulated", f,
              "each row chunk's per-column NaN flags are accumulated",
              f"{[ast.unparse(a.value)[:90] for a in acc]}", node=lp)
    tail = [ast.unparse(s) for s in f.node.body if s.lineno > lp.lineno]
    ok_t = "na_mask = na_mask.any(axis=0)" in tail and any(
        "return list(na_mask[na_mask].index)" in t for t in tail)
    ctx.check(ok_t, "C10d-nan-columns-reported", f,
              "a column is reported iff any row chunk saw a NaN in it",
              f"{tail}", node=f.node)


def _existence_checks(ctx, f):
    roles = []
    for (r, a, v, st) in DefUse(ctx.prog, f).attr_stores:
        if r == "self" and (a.endswith("_column") or a.endswith("_columns")
                            or a == "columns"):
            roles.append(a)
    checked = set()
    for n in ast.walk(f.node):
        if isinstance(n, ast.Call) and ast.unparse(n.func) in (
                "check_column", "check_columns") and n.args:
            t = ast.unparse(n.args[0])
            if t.startswith("self."):
                kind = ast.unparse(n.func)
                checked.add((t[5:], kind))
    n_ok = 0
    for a in roles:
        plural = a.endswith("columns")
        want = "check_columns" if plural else "check_column"
        ok = (a, want) in checked
        n_ok += ok
        ctx.check(ok, "C10e-existence-checks", f,
                  f"column role self.{a} is existence-checked with {want}",
                  f"self.{a} is stored but never passed to {want}: a "
                  "missing column is only noticed much later (or never)",
                  node=f.node)
    ctx.floor("C10e-roles", len(roles), 15)
    cc = f.nested.get("check_column")
    ctx.require(cc is not None, f"{f.qual}: check_column helper not found")
    cfg = CFG(cc.node)
    raises = [n for n in ast.walk(cc.node) if isinstance(n, ast.Raise)]
    ok = len(raises) == 1 and [ast.unparse(g[0]) for g in cfg.guards(
        raises[0]) if g[1]] == ["column and column not in columns"]
    ctx.check(ok, "C10e-check-raises", cc,
              "check_column raises for a named column that is not in the "
              "file", "check_column no longer raises", node=cc.node)


def _env(ctx):
    prog = ctx.prog
    used = []
    for q, f in prog.funcs.items():
        if not q.startswith(PIN) or isinstance(f.node, ast.Lambda):
            continue
        for n in ast.walk(f.node):
            if isinstance(n, ast.Attribute) and ast.unparse(
                    n.value) == "pd.errors":
                used.append((f, n, n.attr, "direct"))
            if isinstance(n, ast.Call) and ast.unparse(n.func) == \
                    "getattr" and n.args and ast.unparse(
                        n.args[0]) == "pd.errors":
                used.append((f, n, const_value(n.args[1]), "getattr"))
    if not used:
        ctx.ok("C10f-pandas-errors", PIN + "read_percolator",
               "no pandas.errors attribute used")
        return
    try:
        out = subprocess.run(
            ["/venv/bin/python", "-c",
             "import json, pandas as pd; print(json.dumps({'v': "
             "pd.__version__, 'names': dir(pd.errors)}))"],
            capture_output=True, text=True, timeout=120)
        info = json.loads(out.stdout.strip().splitlines()[-1])
    except Exception as e:  # noqa: BLE001
        ctx.note(f"installed pandas not inspectable ({e}); clause f skipped")
        return
    for f, n, name, how in used:
        ok = how == "getattr" and len(n.args) == 3 or name in info["names"]
        ctx.check(ok, "C10f-pandas-errors", f,
                  f"pandas.errors.{name} ({how})",
                  f"pandas.errors.{name} does not exist in the installed "
                  f"pandas {info['v']} and is accessed without a fallback: "
                  "every read_pin call raises AttributeError", node=n)
