"""C10 - every well-formed PIN/Parquet PSM table parses into a faithful
dataset."""

from __future__ import annotations

import ast
import itertools
import json
import subprocess

from ..cfg import CFG, cond_strings
from ..paths import path_variants
from ..tutil import (bound_args, callee_of, concat_parts, fuse_comps,
                     normalise, seq_concat, simp)
from ..astutil import cond_terms, inside
from ..core import callee_is, AnalysisError, const_value, walk_own
from .c05 import subset_test
from ..defuse import DefUse, Terms, show, specialise, walk_term
from ..inline import inline_nested_closures
from ..tutil import (EvUnknown, TTUnknown, ev_term, items_as_subs, np_call,
                     tt_eval)

EXPLANATION = (
    "Static analysis of parsers.pin.read_percolator / "
    "create_chunks_with_identifier / "
    "drop_missing_values_and_fill_spectra_dataframe, parsers.helpers.find_*, "
    "utils.convert_targets_column / create_chunks and "
    "OnDiskPsmDataset.__init__. (a) identifier columns stay in one column "
    "chunk: the guard of create_chunks_with_identifier is evaluated "
    "exhaustively over the finite grid feature count 0..80 x identifier "
    "width 1..5 x chunk size 1..25 against the slicing arithmetic of "
    "create_chunks: whenever the 'append and chunk together' branch is "
    "taken the identifier must fall inside one chunk; the other branch "
    "keeps it as its own chunk. (b) label table: bool passes through, "
    "1 -> True, 0/-1 -> False, anything else raises. (c) reserved columns "
    "are looked up case-insensitively, required ones raise when missing, "
    "the spectrum key is exactly [file, scan, retention time, mass] "
    "filtered on 'is not None', roles handed to the dataset come from "
    "their own lookups, features are the non-reserved columns minus - "
    "unconditionally - those reported with missing values. (d) every "
    "feature is NaN-scanned exactly once (slice partition of "
    "create_chunks) over every row chunk (no early exit), and the "
    "identifier columns are collected from every row chunk. (e) every "
    "column role stored by OnDiskPsmDataset.__init__ is existence-checked. "
    "(f) attributes of pandas.errors used by the parser exist in the "
    "installed pandas or are accessed defensively. Also: whole-file read and chunked read of the Parquet reader convert Arrow data with the same arguments (shared with C13). "
    "NOT decided: dtype "
    "inference, file order of rows.")
TECHNIQUE = ("exhaustive finite-domain evaluation of an arithmetic guard "
             "(LEN) + slice-partition check (STRIDE) + truth table + "
             "constant propagation through wrappers + sibling agreement")

PIN = "mokapot.parsers.pin."
HLP = "mokapot.parsers.helpers."


def run(ctx):
    prog = ctx.prog
    _identifier_chunks(ctx, prog.func(PIN + "create_chunks_with_identifier"))
    _create_chunks(ctx, prog.func("mokapot.utils.create_chunks"))
    _label_table(ctx, prog.func("mokapot.utils.convert_targets_column"))
    _helpers(ctx)
    _read_percolator(ctx, prog.func(PIN + "read_percolator"))
    _nan_scan(ctx, prog.func(
        PIN + "drop_missing_values_and_fill_spectra_dataframe"))
    _existence_checks(ctx, prog.func(
        "mokapot.dataset.OnDiskPsmDataset.__init__"))
    # the NaN scan reads through the chunk iterator, everything downstream
    # through read(): shared clause with C13
    from .c13 import conversions_agree
    conversions_agree(ctx, "C10d-conversion-agrees")
    _env(ctx)


def _identifier_chunks(ctx, f):
    prog = ctx.prog
    p_data, p_id, p_cs = f.params
    CC = "mokapot.utils.create_chunks"

    def kind_of(t):
        b = bound_args(prog, t)
        if b is not None and t[1] == CC and b.get("chunk_size") == (
                "param", p_cs) and b.get("data") == (
                "bin", "+", ("param", p_data), ("param", p_id)):
            return "together"
        if t[0] == "mut" and t[2] == "append" and t[3] == (
                ("param", p_id),):
            t = ("bin", "+", t[1], ("list", (("param", p_id),)))
        if t[0] == "bin" and t[1] == "+" and t[3] == (
                "list", (("param", p_id),)):
            b = bound_args(prog, t[2])
            if b is not None and t[2][1] == CC and b.get("data") == (
                    "param", p_data) and b.get("chunk_size") == (
                    "param", p_cs):
                return "separate"
        return None

    variants = []
    for v in path_variants(f.node):
        vT = Terms(DefUse(prog, f, fnode=v.fnode))
        rs = vT.returns()
        if not rs:
            continue
        ctx.require(len(rs) == 1, f"{f.qual}: a path with several returns")
        variants.append((v, kind_of(rs[0][1]), rs[0][1],
                         [(vT.of(t_), o_) for t_, o_ in v.conds]))
    kinds = [k for _v, k, _t, _c in variants]
    ctx.check(set(kinds) == {"together", "separate"}, "C10a-branch-forms", f,
              "every path either chunks features + identifier together or "
              "keeps the identifier as a chunk of its own",
              "paths return " + str([k or show(t, 100)
                                     for _v, k, t, _c in variants]),
              node=f.node)
    if set(kinds) != {"together", "separate"}:
        return
    from ..chunks import Unknown as _Unknown, ev as _ev
    LEN_D = ("call", "builtins.len", (("param", p_data),), ())
    LEN_I = ("call", "builtins.len", (("param", p_id),), ())
    bad = []
    n_eval = 0
    for n_data, n_id, c in itertools.product(range(0, 81), range(1, 6),
                                             range(1, 26)):
        n_eval += 1

        def atoms(t, n_data=n_data, n_id=n_id, c=c):
            if t == LEN_D:
                return n_data
            if t == LEN_I:
                return n_id
            if t == ("param", p_cs):
                return c
            raise KeyError(t)
        taken = []
        try:
            for v, k, _t, conds in variants:
                if all(bool(_ev(t_, atoms)) == o_ for t_, o_ in conds):
                    taken.append(k)
        except (_Unknown, KeyError) as e:
            raise AnalysisError(
                f"{f.qual}: the branch condition is outside the evaluated "
                f"arithmetic fragment: {str(e)[:100]}")
        ctx.require(len(taken) == 1, f"{f.qual}: {len(taken)} paths taken "
                    f"for (features, identifier width, chunk size) = "
                    f"{(n_data, n_id, c)}")
        if taken[0] == "together":
            n = n_data + n_id
            # create_chunks cuts at multiples of c: identifier occupies
            # positions n - n_id .. n - 1
            together = (n - n_id) // c == (n - 1) // c
            if not together:
                bad.append((n_data, n_id, c))
    ctx.extra["identifier_guard_grid"] = {"evaluations": n_eval,
                                          "violations": len(bad)}
    guard = " / ".join(
        " and ".join(s_ for t, o in v.conds for s_ in cond_strings(t, o))
        for v, k, _t, _c in variants if k == "together")
    ctx.check(not bad, "C10a-identifier-in-one-chunk", f,
              f"for all {n_eval} (features, identifier width, chunk size) "
              "triples the identifier columns end up in a single column "
              "chunk",
              f"guard '{guard}' sends e.g. (features, "
              f"identifier width, chunk size) = {bad[:4]} to the chunk-"
              "together branch although a chunk boundary cuts through the "
              f"identifier columns ({len(bad)} triples): no chunk then "
              "holds all spectrum/label columns and parsing fails with 'No "
              "objects to concatenate'", node=f.node)
    # call site
    rp = ctx.prog.func(PIN + "read_percolator")
    calls = [n for n in ast.walk(rp.node) if isinstance(n, ast.Call)
             and callee_is(prog, rp, n, "create_chunks_with_identifier")]
    ctx.require(len(calls) == 1, f"{rp.qual}: call not found")
    rT = Terms(DefUse(prog, rp))
    b = {k: rT.of(v) for k, v in prog.bind(f, calls[0]).items()}
    ctor = [n for n in ast.walk(rp.node) if isinstance(n, ast.Call)
            and callee_is(prog, rp, n, "OnDiskPsmDataset")]
    ctx.require(len(ctor) == 1, f"{rp.qual}: dataset constructor not found")
    kw = {k.arg: rT.of(k.value) for k in ctor[0].keywords}
    idt = b.get(p_id)
    ok = (idt is not None and idt == ("bin", "+", kw.get("spectrum_columns"),
                                      ("list", (kw.get("target_column"),)))
          and b.get(p_cs) == (
              "name", "mokapot.constants.CHUNK_SIZE_COLUMNS_FOR_DROP_COLUMNS")
          and b.get(p_data, ("x",))[0] == "comp")
    ctx.check(ok, "C10a-call-site", rp,
              "features are chunked with the spectrum key + label as the "
              "identifier",
              str({k: show(v, 120) for k, v in b.items()}), node=calls[0])


def _create_chunks(ctx, f):
    prog = ctx.prog
    du = DefUse(prog, f)
    T = Terms(du)
    (rnode, t), = T.returns()
    p_data, p_cs = f.params
    ok = False
    if t[0] == "comp" and t[1] == "list" and len(t[3]) == 1:
        names, it, conds = t[3][0]
        i = ("elem", it)
        ok_it = it == ("call", "builtins.range", (
            ("const", 0), ("call", "builtins.len", (("param", p_data),), ()),
            ("param", p_cs)), ())
        ok_elt = t[2] == ("sub", ("param", p_data), ("slice", i, (
            "bin", "+", i, ("param", p_cs)), ("const", None)))
        ok = ok_it and ok_elt and not conds
    ctx.check(ok, "C10d-slice-partition", f,
              "create_chunks cuts data[i:i+w] for i in range(0, len, w): "
              "consecutive slices, start 0, stride equal to the width - "
              "every element in exactly one chunk",
              f"returns {show(t, 160)}", node=rnode)


def _label_table(ctx, f):
    """Truth table of convert_targets_column over label vectors, evaluated
    on the terms of its guards and of the value it stores (temporaries,
    early return versus nesting, any() versus .any() do not matter)."""
    from ..chunks import Unknown, Vec, ev
    from ..events import container_events
    prog = ctx.prog
    p_data, p_col = f.params
    cfg = CFG(f.node)
    du = DefUse(prog, f)
    T = Terms(du)
    DATA = ("param", p_data)
    COL = ("sub", DATA, ("param", p_col))
    DT = ("attr", COL, "dtype")
    evs = [e for e in container_events(f.node, T, cfg)
           if e.kind == "store"]
    sets = [e for e in evs if e.recv == DATA or (
        e.recv[0] in ("store",) and e.recv[1] == DATA)]
    raises = [n for n in walk_own(f.node) if isinstance(n, ast.Raise)]
    rets = [n for n in walk_own(f.node) if isinstance(n, ast.Return)]
    ctx.require(raises and sets and rets,
                f"{f.qual}: raise / label store / return not found")

    def atoms_for(vec, is_bool):
        def atoms(t):
            if t == COL:
                return Vec(vec)
            if t[0] == "mcall" and t[1] == COL and t[2] == "astype":
                return Vec(int(x) for x in vec)
            if t[0] == "cmp" and t[1] in ("==", "!=", "is", "is not") and \
                    DT in (t[2], t[3]):
                other = t[3] if t[2] == DT else t[2]
                if other in (("free", "bool"), ("name", "builtins.bool"),
                             ("name", "numpy.bool_"), ("const", "bool")):
                    return is_bool if t[1] in ("==", "is") else not is_bool
            if t[0] == "call" and t[1] in (
                    "pandas.api.types.is_bool_dtype",
                    "pandas.core.dtypes.common.is_bool_dtype") and \
                    t[2] and t[2][0] in (COL, DT):
                return is_bool
            raise KeyError(t)
        return atoms

    def reached(node, at):
        return all(bool(ev(t, at)) == o for t, o in cond_terms(cfg, T, node))

    def is_frame(t):
        """the caller's frame object (possibly with the column replaced)"""
        if t[0] == "phi":
            return all(is_frame(x) for x in t[1])
        while t[0] in ("store", "mutsub", "mut"):
            t = t[1]
        return t == DATA

    rows, bad = [], []
    vals = (-2, -1, 0, 1, 2)
    vectors = [(a_,) for a_ in vals] + [(a_, b_) for a_ in vals
                                        for b_ in vals]
    try:
        for vec in vectors:
            at = atoms_for(vec, False)
            raised = any(reached(r, at) for r in raises)
            out = None
            if not raised:
                st = [e for e in sets if reached(e.stmt, at)]
                if len(st) == 1:
                    o = ev(st[0].value, at)
                    out = [bool(x) for x in o] if isinstance(o, Vec) \
                        else None
            want_raise = any(abs(v) > 1 for v in vec)
            want = None if want_raise else [v == 1 for v in vec]
            rows.append({"labels": list(vec), "raises": raised,
                         "target": out})
            if raised != want_raise or out != want:
                bad.append(rows[-1])
        # boolean columns pass through: nothing raised, nothing stored
        atb = atoms_for((True, False), True)
        changed = [e for e in sets if reached(e.stmt, atb)]
        ok_b = not any(reached(r, atb) for r in raises) and not changed \
            and any(reached(r, atb) and is_frame(T.of(r.value))
                    for r in rets if r.value is not None)
    except (Unknown, KeyError) as e:
        raise AnalysisError(f"{f.qual}: a guard is outside the evaluated "
                            f"fragment: {str(e)[:100]}")
    ctx.check(ok_b, "C10b-bool-passthrough", f,
              "boolean label columns pass through unchanged",
              "a boolean label column is converted, rejected or not "
              "returned", node=f.node)
    ctx.extra["label_table"] = rows[:5]
    ctx.check(not bad, "C10b-label-table", f,
              "1 -> target, 0 and -1 -> decoy, a column containing anything "
              f"else is rejected ({len(vectors)} label vectors)",
              f"deviates: {bad[:4]}", node=sets[0].node)
    ctx.check(all(e.key == ("param", p_col) for e in sets)
              and all(is_frame(T.of(r.value))
                      for r in rets if r.value is not None),
              "C10b-label-stored-in-place", f,
              "the converted labels replace the label column of the frame "
              "that is returned",
              f"{[show(e.key, 40) for e in sets]}", node=sets[0].node)


def _helpers(ctx):
    prog = ctx.prog
    fc = prog.func(HLP + "find_column")
    want = {
        "find_required_column": {"required": "True", "unique": "True",
                                 "ignore_case": "True"},
        "find_columns": {"required": "False", "unique": "False",
                         "ignore_case": "True"},
        "find_optional_column": {"required": "col is not None",
                                 "unique": "True",
                                 "ignore_case": "col is None"},
    }
    from ..astutil import CondUnknown, eval_cond
    for name in want:
        f = prog.func(HLP + name)
        fcfg = CFG(f.node)
        calls = [n for n in ast.walk(f.node) if isinstance(n, ast.Call)
                 and callee_is(prog, f, n, "find_column")]
        ctx.require(calls, f"{f.qual}: find_column call missing")
        p_c = f.params[0]
        p_def = f.params[2] if len(f.params) > 2 else None
        vals = (None, "Name", "") if name == "find_optional_column" \
            else ("Name",)
        bad = []
        for val in vals:
            env = {p_c: val}
            if p_def:
                env[p_def] = "dflt"
            hit = []
            for c in calls:
                try:
                    if all(bool(eval_cond(t, env)) == o
                           for t, o in fcfg.necessary_conditions(c)):
                        hit.append(c)
                except (CondUnknown, KeyError):
                    hit.append(c)
            if len(hit) != 1:
                bad.append((val, f"{len(hit)} calls"))
                continue
            b = prog.bind(fc, hit[0])
            got = {}
            fT = Terms(DefUse(prog, f))

            def atoms(t, env=env):
                if t[0] == "param" and t[1] in env:
                    return env[t[1]]
                raise KeyError(t)
            try:
                for k in ("col", "required", "unique", "ignore_case"):
                    if k in b:
                        got[k] = ev_term(fT.of(b[k]), atoms)
                    else:
                        got[k] = const_value(fc.defaults().get(k))
            except (EvUnknown, KeyError) as e:
                raise AnalysisError(
                    f"{f.qual}: a lookup condition is outside the evaluated "
                    f"fragment: {str(e)[:80]}")
                continue
            if name == "find_required_column":
                exp = {"col": val, "required": True, "unique": True,
                       "ignore_case": True}
            elif name == "find_columns":
                exp = {"col": val, "required": False, "unique": False,
                       "ignore_case": True}
            else:
                exp = {"col": val or "dflt", "required": val is not None,
                       "unique": True, "ignore_case": val is None}
            got = {k: (bool(v) if k != "col" else v) for k, v in got.items()}
            if got != exp:
                bad.append((val, got))
        ctx.check(not bad, "C10c-lookup-wrappers", f,
                  f"{name} -> find_column with the documented name, "
                  "required / unique / ignore_case flags "
                  f"({len(vals)} valuations of the requested name)",
                  f"(requested name, what find_column receives): {bad}",
                  node=calls[0])
    # find_column itself: one specialised copy per value of ignore_case (the
    # flag may pick one of two nested comparison functions, or sit inside
    # conditional expressions - both are resolved before terms are built)
    p_col, p_cols = fc.params[0], fc.params[1]
    for ic in (True, False):
        fn = inline_nested_closures(specialise(fc.node, {"ignore_case": ic}))
        vdu = DefUse(prog, fc, fnode=fn)
        vT = Terms(vdu)
        vcfg = CFG(fn)
        rets = [(r, vT.of(r.value) if r.value is not None
                 else ("const", None))
                for r in ast.walk(fn) if isinstance(r, ast.Return)]
        raises = [r for r in ast.walk(fn) if isinstance(r, ast.Raise)]
        found = set()
        for _r, t in rets:
            for x in walk_term(t):
                if isinstance(x, tuple) and x and x[0] == "comp" and \
                        len(x[3]) == 1 and x[3][0][1] == ("param", p_cols) \
                        and x[2] == ("elem", ("param", p_cols)):
                    found.add(x)
        ctx.require(len(found) == 1, f"{fc.qual}: list of matching columns "
                    f"not recognised (ignore_case={ic})")
        FOUND = next(iter(found))
        conds = FOUND[3][0][2]
        el, cl = ("elem", ("param", p_cols)), ("param", p_col)

        def low(x):
            return ("mcall", x, "lower", (), ())

        want = {low(el), low(cl)} if ic else {el, cl}
        ok = len(conds) == 1 and conds[0][0] == "cmp" and \
            conds[0][1] == "==" and {conds[0][2], conds[0][3]} == want
        ctx.check(ok, "C10c-case-insensitive", fc,
                  "with ignore_case both names are lower-cased before "
                  "comparison; without, they are compared as they are",
                  f"ignore_case={ic}: a column matches when "
                  f"{[show(c, 120) for c in conds]}", node=fc.node)
        # raises and results over required x unique x number of matches
        LEN = ("call", "builtins.len", (FOUND,), ())

        def atoms_for(r, u, n):
            def atoms(t):
                if t == ("param", "required"):
                    return r
                if t == ("param", "unique"):
                    return u
                if t == LEN:
                    return n
                if t == FOUND:
                    return ["m"] * n
                raise KeyError(t)
            return atoms

        from ..chunks import Unknown as _Unk, ev as _ev
        bad = []
        try:
            for r in (True, False):
                for u in (True, False):
                    for n in (0, 1, 2, 3):
                        at = atoms_for(r, u, n)

                        def decide(test, at=at):
                            return bool(_ev(vT.of(test), at))
                        vis = vcfg.visited_under(vcfg.entry.id, decide)
                        rej = any(vcfg.node_of(x).id in vis for x in raises)
                        want_rej = (r and n == 0) or (u and n > 1)
                        if rej != want_rej:
                            bad.append(("raise", r, u, n, rej))
                            continue
                        if rej:
                            continue
                        hit = [t for x, t in rets
                               if vcfg.node_of(x).id in vis]
                        res = None
                        if len(hit) == 1:
                            res = hit[0]
                            while res[0] == "ifexp":
                                res = res[2] if _ev(res[1], at) else res[3]
                        if u:
                            exp = ("sub", FOUND, ("const", 0)) if n > 0 \
                                else ("const", None)
                        else:
                            exp = FOUND
                        if res is not None:
                            res = items_as_subs(res)
                        if res != exp:
                            bad.append(("result", r, u, n,
                                        show(res, 60) if res else None))
        except (_Unk, KeyError) as e:
            raise AnalysisError(
                f"{f.qual}: a condition of find_column is outside the "
                f"evaluated fragment: {str(e)[:100]}")
        ctx.check(not [b_ for b_ in bad if b_[0] != "result"],
                  "C10c-missing-or-ambiguous-raises", fc,
                  "a missing required column and an ambiguous unique column "
                  "raise, nothing else does (16 valuations of required x "
                  "unique x number of matches)",
                  f"(kind, required, unique, matches, got): {bad[:4]}",
                  node=fc.node)
        ctx.check(not [b_ for b_ in bad if b_[0] == "result"],
                  "C10c-lookup-result", fc,
                  "unique lookups return the single match (None when there "
                  "is none), non-unique lookups the list of matches",
                  f"(kind, required, unique, matches, got): {bad[:4]}",
                  node=fc.node)


RESERVED = {"specid": "specid", "peptides": "peptide", "proteins":
            "proteins", "labels": "label", "scan": "scannr"}
ROLES = {
    "target_column": "labels", "spectrum_columns": "spectra",
    "peptide_column": "peptides", "protein_column": "proteins",
    "feature_columns": "_feature_columns", "metadata_columns": "nonfeat",
    "level_columns": "level_columns", "filename_column": "filename",
    "scan_column": "scan", "specId_column": "specid",
    "calcmass_column": "calcmass", "expmass_column": "expmass",
    "rt_column": "ret_time", "charge_column": "charge",
    "columns": "columns", "filename": "perc_file",
    "spectra_dataframe": "df_spectra",
    "metadata_column_types": "nonfeat_types",
}


def _read_percolator(ctx, f):
    """Everything is read off the terms that reach the OnDiskPsmDataset
    constructor (the sink): local names, temporaries, loop-versus-
    comprehension and the order of independent statements do not matter."""
    prog = ctx.prog
    du = DefUse(prog, f)
    T = Terms(du)
    cfg = CFG(f.node)
    H = "mokapot.parsers.helpers."
    ctor = [n for n in ast.walk(f.node) if isinstance(n, ast.Call)
            and callee_is(prog, f, n, "OnDiskPsmDataset")]
    ctx.require(len(ctor) == 1, f"{f.qual}: dataset constructor not found")
    dsf = prog.func("mokapot.dataset.OnDiskPsmDataset.__init__")
    got = {k: normalise(T.of(v))
           for k, v in prog.bind(dsf, ctor[0]).items()}
    COLS = got.get("columns")
    ctx.require(COLS is not None and COLS[0] == "mcall"
                and COLS[2] == "get_column_names",
                f"{f.qual}: column list does not come from the reader")

    def req(name):
        return {"col": ("const", name), "columns": COLS}

    def opt(par, default):
        return {"col": ("param", par), "columns": COLS,
                "default": ("const", default)}

    def is_lookup(t, fn, want):
        b = bound_args(prog, t) if t is not None else None
        return b is not None and t[1] == H + fn and b == want

    roles = {
        "target_column": ("find_required_column", req("label")),
        "peptide_column": ("find_required_column", req("peptide")),
        "protein_column": ("find_required_column", req("proteins")),
        "scan_column": ("find_required_column", req("scannr")),
        "specId_column": ("find_required_column", req("specid")),
        "filename_column": ("find_optional_column",
                            opt("filename_column", "filename")),
        "calcmass_column": ("find_optional_column",
                            opt("calcmass_column", "calcmass")),
        "expmass_column": ("find_optional_column",
                           opt("expmass_column", "expmass")),
        "rt_column": ("find_optional_column", opt("rt_column", "ret_time")),
        "charge_column": ("find_optional_column",
                          opt("charge_column", "charge_column")),
    }
    for formal, (fn, want) in roles.items():
        t = got.get(formal)
        rule = "C10c-reserved-lookups" if fn == "find_required_column" \
            else "C10c-optional-lookups"
        ctx.check(is_lookup(t, fn, want), rule, f,
                  f"OnDiskPsmDataset({formal}=...) is the "
                  + ("required, case-insensitive lookup of "
                     f"{want['col'][1]!r}" if fn == "find_required_column"
                     else f"optional lookup ({want['col'][1]} or "
                     f"{want['default'][1]!r})"),
                  f"{formal} = {show(t, 160) if t else None}", node=ctor[0])
    ctx.check(got.get("filename") == ("param", f.params[0]),
              "C10c-dataset-roles", f,
              "the dataset remembers the file it was parsed from",
              f"filename = {show(got.get('filename'), 80)}", node=ctor[0])

    def lookup(fn, want):
        return next((t for t in got.values() if is_lookup(t, fn, want)),
                    None)

    L = {k: got.get(k) for k in roles}
    # ---- spectrum key
    sp = got.get("spectrum_columns")
    want_elems = (L["filename_column"], L["scan_column"],
                  L["rt_column"], L["expmass_column"])
    ok = False
    if sp is not None and sp[0] == "comp" and sp[1] in ("list", "tuple") \
            and len(sp[3]) == 1:
        src = sp[3][0][1]
        if src[0] in ("list", "tuple") and src[1] == want_elems:
            ok = sp[2] == ("elem", src) and sp[3][0][2] == (
                ("cmp", "is not", ("elem", src), ("const", None)),)
    ctx.check(ok, "C10c-spectrum-key", f,
              "spectrum key = the available ones of file, scan, retention "
              "time, mass - in that order",
              f"spectrum_columns = {show(sp, 300) if sp else None}",
              node=ctor[0])
    # ---- reserved set
    NONFEAT = got.get("metadata_columns")

    def spine(t):
        if t[0] == "phi":
            return [y for x in t[1] for y in spine(x)]
        if t[0] == "bin" and t[1] == "+":
            return spine(t[2])
        if t[0] == "mut":
            return spine(t[1])
        if t[0] == "rec":
            return []
        return [t]

    five = ("list", (L["specId_column"], L["scan_column"],
                     L["peptide_column"], L["protein_column"],
                     L["target_column"]))
    sp_n = spine(NONFEAT) if NONFEAT else []
    # [a, b, c, d, e, *more] counts as starting with the five as well
    sp_n = [("list", tuple(x for k, x in seq_concat(y)[:5]))
            if y[0] == "list" and len(y[1]) > 5 and all(
                k == "item" for k, _x in seq_concat(y)[:5]) else y
            for y in sp_n]
    ctx.check(bool(sp_n) and all(x == five for x in sp_n),
              "C10c-reserved-set", f,
              "the reserved set starts as id, scan, peptide, proteins, "
              "label", f"metadata_columns starts as "
              f"{[show(x, 200) for x in sp_n[:2]]}", node=ctor[0])
    # ---- every optional reserved column that was found is in the set:
    # the lookup result (the term handed to the constructor) occurs in the
    # expression of the reserved set - a column left out becomes a feature
    if NONFEAT is not None:
        members = set(walk_term(NONFEAT))
        for formal in ("filename_column", "calcmass_column",
                       "expmass_column", "rt_column"):
            t = got.get(formal)
            if t is None:
                continue
            ctx.check(t in members, "C10c-optional-columns-reserved",
                      f, f"the {formal} lookup is a member of the reserved "
                      "(metadata) set",
                      f"{show(t, 90)} does not occur in metadata_columns = "
                      f"{show(NONFEAT, 200)}: when the table has that "
                      "column it is handed to the model as a feature",
                      node=ctor[0])
    # ---- features: file columns that are not reserved, minus the NaN
    # report, unconditionally
    fc = got.get("feature_columns")
    inner = fc
    if inner is not None and inner[0] == "call" and \
            inner[1] == "builtins.tuple" and len(inner[2]) == 1:
        inner = inner[2][0]
    ok_f = ok_d = False
    DROP = FEATS = None
    if inner is not None and inner[0] == "comp" and len(inner[3]) == 1:
        FEATS = inner[3][0][1]
        conds = inner[3][0][2]
        if inner[2] == ("elem", FEATS) and len(conds) == 1 and \
                conds[0][0] == "cmp" and conds[0][1] == "not in" and \
                conds[0][2] == ("elem", FEATS):
            DROP = conds[0][3]
            ok_d = True
        if FEATS[0] == "comp" and len(FEATS[3]) == 1 and \
                FEATS[3][0][1] == COLS and FEATS[2] == ("elem", COLS):
            c2 = FEATS[3][0][2]
            ok_f = len(c2) == 1 and c2[0][:3] == (
                "cmp", "not in", ("elem", COLS)) and c2[0][3] == NONFEAT
    ctx.check(ok_f, "C10c-features-are-non-reserved", f,
              "features are the columns that are not reserved, in file "
              "order", f"features = {show(FEATS, 200) if FEATS else None}",
              node=ctor[0])
    ctx.check(ok_d,
              "C10c-nan-features-dropped", f,
              "the final features are - unconditionally - the features not "
              "reported with missing values",
              f"feature_columns = {show(fc, 200) if fc else None}"
              + ": a reported column can stay among the features",
              node=ctor[0])
    # ---- the NaN report: flatten of the non-empty task results
    TASKS = None
    ok_r = False
    if DROP is not None:
        b = bound_args(prog, DROP)
        if b is not None and DROP[1] == "mokapot.utils.flatten" and \
                len(b) == 1:
            src = list(b.values())[0]
            if src[0] == "comp" and len(src[3]) == 1 and \
                    src[2] == ("elem", src[3][0][1]) and \
                    src[3][0][2] == (("elem", src[3][0][1]),):
                TASKS = src[3][0][1]
                ok_r = TASKS[0] == "callv" and len(TASKS[2]) == 1
    ctx.check(ok_r, "C10c-nan-report-complete", f,
              "the report of NaN columns is the concatenation of every "
              "column chunk's (non-empty) report",
              f"report = {show(DROP, 200) if DROP else None}", node=ctor[0])
    # ---- level columns and column types
    lv = got.get("level_columns")

    def fcols(name):
        return {"col": ("const", name), "columns": COLS}

    parts = seq_concat(lv) if lv else []
    ok_l = len(parts) == 4 and parts[0] == ("item", L["peptide_column"]) \
        and all(p[0] == "splice" and is_lookup(p[1], "find_columns",
                                                fcols(nm))
                for p, nm in zip(parts[1:], ("modifiedpeptide", "precursor",
                                             "peptidegroup")))
    ctx.check(ok_l, "C10c-dataset-roles", f,
              "level columns = peptide column, then modified-peptide, "
              "precursor and peptide-group columns",
              f"level_columns = {show(lv, 200) if lv else None}",
              node=ctor[0])
    mt = got.get("metadata_column_types")
    ok_m = False
    if mt is not None and mt[0] == "comp" and len(mt[3]) == 1 and \
            not mt[3][0][2] and mt[3][0][1] == NONFEAT:
        e = mt[2]
        ok_m = (e[0] == "sub" and e[1][0] == "mcall"
                and e[1][2] == "get_column_types" and e[1][1] == COLS[1]
                and e[2] == ("mcall", COLS, "index",
                             (("elem", NONFEAT),), ()))
        if not ok_m and e[0] == "sub" and e[2][0] == "sub" and \
                e[2][2] == ("elem", NONFEAT):
            # position looked up in a first-occurrence table:
            #   for i, c in enumerate(columns): table.setdefault(c, i)
            tab = e[2][1]
            ok_m = (e[1][0] == "mcall" and e[1][2] == "get_column_types"
                    and e[1][1] == COLS[1] and any(
                        isinstance(x, tuple) and x and x[0] == "mut"
                        and x[2] == "setdefault" and x[3] == (
                            ("elem", COLS), ("idx", COLS))
                        for x in walk_term(tab)))
    ctx.check(ok_m, "C10c-dataset-roles", f,
              "metadata column types are looked up by the position of each "
              "metadata column in the file header",
              f"metadata_column_types = {show(mt, 200) if mt else None}",
              node=ctor[0])
    # ---- every column chunk is scanned
    task = [n for n in ast.walk(f.node) if isinstance(n, ast.Call)
            and isinstance(n.func, ast.Call) and "delayed(drop_missing" in
            ast.unparse(n.func)]
    ok = False
    LIST_defs = None
    why = "scan task not found"
    if len(task) == 1:
        sf = prog.func(PIN + "drop_missing_values_and_fill_spectra_dataframe")
        ba = prog.bind(sf, task[0])
        kw = {k: normalise(T.of(v)) for k, v in ba.items()}
        p_reader, p_col, p_spec, p_list = sf.params
        SL = kw[p_col][1] if kw.get(p_col, ("x",))[0] == "elem" else None
        gen = cfg.enclosing(task[0], (ast.GeneratorExp, ast.ListComp))
        ok_gen = gen is not None and len(gen.generators) == 1 and \
            not gen.generators[0].ifs
        bs = bound_args(prog, SL) if SL else None
        if bs:
            bs = {k: normalise(v) for k, v in bs.items()}
        ident = ("bin", "+", sp, ("list", (L["target_column"],)))
        ok = (ok_gen and bs is not None
              and SL[1] == PIN + "create_chunks_with_identifier"
              and bs.get("data") == FEATS
              and bs.get("identifier_column") == ident
              and kw.get(p_spec) == ident
              and kw.get(p_reader) == COLS[1])
        why = (f"tasks over {show(SL, 160) if SL else None} with spectra="
               f"{show(kw.get(p_spec), 100)}")
        if isinstance(ba.get(p_list), ast.Name):
            LIST_defs = {d.uid for d in du.defs_of(ba[p_list])}
        if TASKS is not None and ok:
            # the report is built from exactly these tasks
            tt_ = normalise(T.of(task[0]))
            ok = any(x == tt_ for x in walk_term(TASKS))
            if not ok:
                why = "the NaN report is not built from the scan tasks"
    ctx.check(ok, "C10d-every-column-chunk-scanned", f,
              "one scan task per column chunk (features plus identifier "
              "columns), with the same identifier columns the chunks were "
              "built with", why, node=f.node)
    # ---- spectra dataframe: concatenation of the collected identifier
    # chunks, labels converted
    sd = got.get("spectra_dataframe")
    ok = False
    b = bound_args(prog, sd) if sd else None
    if b is not None and sd[1] == "mokapot.utils.convert_targets_column":
        data_t = b.get("data")
        ok = b.get("target_column") == L["target_column"] and \
            data_t is not None and callee_of(data_t) is not None and \
            callee_of(data_t)[0] == "pandas.concat"
        cats = [n for n in ast.walk(f.node) if isinstance(n, ast.Call)
                and callee_is(prog, f, n, "pd.concat", "pandas.concat")
                and n.args and isinstance(n.args[0], ast.Name)]
        ok = ok and len(cats) == 1 and LIST_defs is not None and bool(
            LIST_defs & {d.uid for d in du.defs_of(cats[0].args[0])})
        if ok and task:
            # concatenated after all tasks have run
            ok = cfg.every_path_passes(
                cfg.entry.id, cfg.node_of(cfg.stmt_of(cats[0])).id,
                {cfg.node_of(cfg.stmt_of(task[0])).id})
    ctx.check(ok, "C10c-one-entry-per-row", f,
              "the dataset's spectrum/label table is the concatenation of "
              "all collected row chunks with converted labels",
              f"spectra_dataframe = {show(sd, 200) if sd else None}",
              node=ctor[0])


def _nan_scan(ctx, f):
    prog = ctx.prog
    p_reader, p_col, p_spec, p_list = f.params
    du = DefUse(prog, f)
    T = Terms(du, phi_vars=True)
    cfg = CFG(f.node)
    loops = [n for n in walk_own(f.node) if isinstance(n, ast.For)]
    ctx.require(len(loops) == 1, f"{f.qual}: row-chunk loop not found")
    lp = loops[0]
    early = [n for n in ast.walk(lp) if isinstance(n, (ast.Break,
                                                        ast.Return,
                                                        ast.Continue))]
    ctx.check(not early, "C10d-all-row-chunks", f,
              "every row chunk is read (no early exit from the row loop)",
              "the loop over the row chunks can stop early: the identifier "
              "columns of the remaining rows are never collected, so the "
              "dataset has fewer entries than the file has rows, and NaNs "
              "further down are missed", node=lp)
    it = T.of(lp.iter)
    if it[0] == "call" and it[1] == "builtins.enumerate" and it[2]:
        it = it[2][0]
    ok = (it[0] == "mcall" and it[1] == ("param", p_reader)
          and it[2] == "get_chunked_data_iterator")
    if ok:
        kw = dict(zip(("chunk_size", "columns"), it[3]))
        kw.update(dict(it[4]))
        ok = kw.get("columns") == ("param", p_col) and kw.get(
            "chunk_size") == ("name", "mokapot.constants."
                              "CHUNK_SIZE_ROWS_FOR_DROP_COLUMNS")
    ctx.check(ok, "C10d-row-chunks-of-this-column-chunk", f,
              "rows are streamed for exactly this column chunk",
              f"row loop iterates {show(it, 160)}", node=lp)
    ROW = ("elem", it)

    def root(t):
        """the object a frame term denotes, in-place edits forgotten"""
        while True:
            if t[0] == "mut":
                t = t[1]
            elif t[0] == "var":
                inits = [T.of_def(d) for d in du.defs if d.name == t[1]
                         and d.uid in t[2] and d.kind not in (
                             "mut", "store", "augstore", "delitem")]
                if len(inits) != 1:
                    return t
                t = inits[0]
            elif t[0] == "phi":
                rs = {root(x) for x in t[1]}
                if len(rs) != 1:
                    return t
                t = next(iter(rs))
            else:
                return t

    app = [n for n in ast.walk(lp) if isinstance(n, ast.Call)
           and isinstance(n.func, ast.Attribute)
           and n.func.attr == "append" and isinstance(
               n.func.value, ast.Name) and n.func.value.id == p_list]
    ok_a = False
    if len(app) == 1 and len(app[0].args) == 1:
        at = T.of(app[0].args[0])
        conds = [(t, o) for t, o in cond_terms(cfg, T, app[0])
                 if inside_expr(cfg, t, lp)]
        ok_a = (at[0] == "sub" and root(at[1]) == ROW
                and at[2] == ("param", p_spec)
                and len(cond_terms(cfg, T, app[0])) == 1
                and subset_test(*cond_terms(cfg, T, app[0])[0],
                                p_spec, p_col))
    ctx.check(ok_a, "C10d-identifier-collected-per-row-chunk", f,
              "the chunk holding all identifier columns contributes them "
              "for every row chunk",
              f"{[ast.unparse(a)[:60] for a in app]} under "
              f"{[cfg.conditions(a) for a in app]}", node=lp)
    # per-column NaN flags, accumulated over the row chunks
    acc = []
    for d in du.defs:
        if d.kind == "assign" and d.node is not None and inside(
                d.node, lp) and isinstance(d.node, ast.Assign):
            t = T.of_def(d)
            c = np_call(t)
            if c and c[0] in ("concat", "pandas.concat") and c[1] and \
                    c[1][0][0] == "list":
                acc.append((d, c))
    ok_m = False
    VAR = None
    if len(acc) == 1:
        d, c = acc[0]
        parts = c[1][0][1]
        if len(parts) == 2 and parts[0][0] == "var" and \
                parts[0][1] == d.name and c[2].get("ignore_index") == (
                    "const", True):
            VAR = d.name
            x = np_call(parts[1])
            if x and x[0].endswith("DataFrame") and x[1] and \
                    x[1][0][0] == "list" and len(x[1][0][1]) == 1:
                y = x[1][0][1][0]
                ok_m = (y[0] == "mcall" and y[2] == "any"
                        and dict(y[4]).get("axis", y[3][0] if y[3] else None)
                        == ("const", 0)
                        and y[1][0] == "mcall" and y[1][2] == "isna"
                        and root(y[1][1]) == ROW)
        ok_m = ok_m and not [x for x in cfg.necessary_conditions(d.node)
                             if inside_expr(cfg, x[0], lp)]
    ctx.check(ok_m, "C10d-nan-accumulated", f,
              "each row chunk's per-column NaN flags are accumulated, "
              "unconditionally",
              f"{[show(T.of_def(d), 200) for d, _c in acc]}", node=lp)
    # report: columns whose flag is set in any row chunk
    rets = [(r, t) for r, t in T.returns()]
    ok_t = False
    why = str([show(t, 120) for _r, t in rets])
    if VAR is not None:
        def is_var(t):
            return t[0] == "var" and t[1] == VAR

        def col_any(t):
            return (t[0] == "mcall" and t[2] == "any" and is_var(t[1])
                    and dict(t[4]).get("axis", t[3][0] if t[3] else None)
                    == ("const", 0))

        good = none = 0
        for r, t in rets:
            cs = cond_terms(cfg, T, r)
            if t == ("const", None):
                none += 1
                continue
            inner = t
            if inner[0] == "call" and inner[1] == "builtins.list" and \
                    len(inner[2]) == 1:
                inner = inner[2][0]
            if inner[0] == "attr" and inner[2] == "index" and \
                    inner[1][0] == "sub" and col_any(inner[1][1]) and \
                    inner[1][2] == inner[1][1] and len(cs) == 1 and \
                    cs[0][1] is True and cs[0][0][0] == "mcall" and \
                    cs[0][0][2] == "any" and cs[0][0][1] == inner[1][1]:
                good += 1
        ok_t = good == 1 and good + none == len(rets)
    ctx.check(ok_t, "C10d-nan-columns-reported", f,
              "a column is reported iff any row chunk saw a NaN in it",
              why, node=f.node)


def inside_expr(cfg, expr, root_stmt):
    return any(x is expr for x in ast.walk(root_stmt))


def _existence_checks(ctx, f):
    roles = []
    for (r, a, v, st) in DefUse(ctx.prog, f).attr_stores:
        if r == "self" and (a.endswith("_column") or a.endswith("_columns")
                            or a == "columns"):
            roles.append(a)
    checked = set()
    for n in ast.walk(f.node):
        if isinstance(n, ast.Call) and ast.unparse(n.func) in (
                "check_column", "check_columns") and n.args:
            t = ast.unparse(n.args[0])
            if t.startswith("self."):
                kind = ast.unparse(n.func)
                checked.add((t[5:], kind))
    # table-driven form: for group in (self.a_columns, [self.b_column], ...):
    #   for column in group: if column and column not in FILE: raise
    fT = Terms(DefUse(ctx.prog, f))
    fcfg = CFG(f.node)
    table_form = False
    for r in [n for n in walk_own(f.node) if isinstance(n, ast.Raise)]:
        for t, o in cond_terms(fcfg, fT, r):
            parts = list(t[2]) if t[0] == "bool" and t[1] == "and" and o \
                else [t]
            for c in parts:
                if o and c[0] == "cmp" and c[1] == "not in" and \
                        c[2][0] == "elem" and c[2][1][0] == "elem" and \
                        c[2][1][1][0] in ("tuple", "list") and any(
                            isinstance(x, tuple) and x[:1] == ("mcall",)
                            and x[2] == "get_column_names"
                            for x in walk_term(c[3])):
                    table_form = True
                    stored = {}
                    for (r_, a_, v_, _st) in DefUse(ctx.prog, f).attr_stores:
                        if r_ == "self":
                            stored.setdefault(fT.of(v_), set()).add(a_)

                    def role_of(x):
                        if x[0] == "attr" and x[1] == ("param", "self"):
                            return {x[2]}
                        return stored.get(x, set())

                    for item in c[2][1][1][1]:
                        if item[0] == "list" and len(item[1]) == 1:
                            for a_ in role_of(item[1][0]):
                                checked.add((a_, "check_column"))
                        else:
                            for a_ in role_of(item):
                                checked.add((a_, "check_columns"))
    n_ok = 0
    for a in roles:
        plural = a.endswith("columns")
        want = "check_columns" if plural else "check_column"
        ok = (a, want) in checked
        n_ok += ok
        ctx.check(ok, "C10e-existence-checks", f,
                  f"column role self.{a} is existence-checked with {want}",
                  f"self.{a} is stored but never passed to {want}: a "
                  "missing column is only noticed much later (or never)",
                  node=f.node)
    ctx.floor("C10e-roles", len(roles), 15)
    cc = f.nested.get("check_column")
    if cc is None and table_form:
        ctx.ok("C10e-check-raises", f, "table-driven existence check "
               "raises for a named column that is not in the file")
        return
    ctx.require(cc is not None, f"{f.qual}: check_column helper not found")
    # truth table: the helper raises iff a column name was given and it is
    # not among the file's columns - however the test is spelled (one
    # conjunction, a guard clause with early return, nested ifs)
    from ..chunks import Unknown as _Unknown, ev as _ev
    cfg = CFG(cc.node)
    cT = Terms(DefUse(ctx.prog, cc))
    raises = {cfg.node_of(n).id for n in ast.walk(cc.node)
              if isinstance(n, ast.Raise)}
    p_col = [p_ for p_ in cc.params][0]
    bad, rows = [], []
    for val in (None, "", "present", "absent"):
        def atoms(t, val=val):
            if t == ("param", p_col):
                return val
            if t[0] in ("free", "name", "var", "param") and isinstance(
                    t[1], str) and t[1].split(".")[-1] == "columns":
                return ["present", "other"]
            raise KeyError(t)

        def decide(test):
            try:
                return bool(_ev(cT.of(test), atoms))
            except (_Unknown, KeyError):
                return None
        vis = cfg.visited_under(cfg.entry.id, decide)
        got = bool(raises & vis)
        want = val == "absent"
        rows.append((val, got))
        if got != want:
            bad.append((val, got))
    ctx.check(bool(raises) and not bad, "C10e-check-raises", cc,
              "check_column raises for a named column that is not in the "
              "file (and only then)",
              "check_column no longer raises exactly for a named, missing "
              f"column: (column, raises) = {bad or rows}", node=cc.node)


def _env(ctx):
    prog = ctx.prog
    used = []
    for q, f in prog.funcs.items():
        if not q.startswith(PIN) or isinstance(f.node, ast.Lambda):
            continue
        for n in ast.walk(f.node):
            if isinstance(n, ast.Attribute) and ast.unparse(
                    n.value) == "pd.errors":
                used.append((f, n, n.attr, "direct"))
            if isinstance(n, ast.Call) and ast.unparse(n.func) == \
                    "getattr" and n.args and ast.unparse(
                        n.args[0]) == "pd.errors":
                used.append((f, n, const_value(n.args[1]), "getattr"))
    if not used:
        ctx.ok("C10f-pandas-errors", PIN + "read_percolator",
               "no pandas.errors attribute used")
        return
    try:
        out = subprocess.run(
            ["/venv/bin/python", "-c",
             "import json, pandas as pd; print(json.dumps({'v': "
             "pd.__version__, 'names': dir(pd.errors)}))"],
            capture_output=True, text=True, timeout=120)
        info = json.loads(out.stdout.strip().splitlines()[-1])
    except Exception as e:  # noqa: BLE001
        ctx.note(f"installed pandas not inspectable ({e}); clause f skipped")
        return
    for f, n, name, how in used:
        ok = how == "getattr" and len(n.args) == 3 or name in info["names"]
        ctx.check(ok, "C10f-pandas-errors", f,
                  f"pandas.errors.{name} ({how})",
                  f"pandas.errors.{name} does not exist in the installed "
                  f"pandas {info['v']} and is accessed without a fallback: "
                  "every read_pin call raises AttributeError", node=n)
