"""C08 - fixed seed gives bit-identical results across runs and sessions."""

from __future__ import annotations

import ast

from ..cfg import CFG
from ..core import callee_is, AnalysisError, const_value, walk_own
from ..defuse import DefUse, Terms, show, walk_term

EXPLANATION = (
    "Static effect / taint analysis over everything reachable (call graph) "
    "from brew, assign_confidence, read_fasta and mokapot.main. (a) no "
    "ambient randomness: no call draws from the global NumPy / random "
    "state, no pandas .sample without random_state, every generator method "
    "(permutation/shuffle/choice/integers...) is invoked on a value rooted "
    "at an rng parameter or attribute, every Model constructed on the way "
    "is seeded from the caller's generator, and the seed parameters are "
    "routed from each entry point to their consumers. (b) no hash-order "
    "dependence: the builtin hash() is not used; every set whose elements "
    "may be strings (provenance: everything except row-number sets) only "
    "reaches order-free consumers (membership, len, sorted, set algebra, "
    "commutative per-element updates) - list()/join()/Series/iteration "
    "with order-sensitive bodies are reported. (c) fitted or supplied "
    "Also: worker-count parameters are only handed on (shared with C05). "
    "models are sorted by recorded fold on every path. Also: the spectrum hash behind the fold assignment is a function of the key columns' values (shared with C02c). NOT decided: "
    "bit-level reproducibility of BLAS / scikit-learn.")
TECHNIQUE = ("effect scan + call-graph reachability + set-provenance taint "
             "(ORDER) + receiver-root analysis of generator calls + CFG "
             "must-pass-through")

ENTRY = ["mokapot.brew.brew", "mokapot.confidence.assign_confidence",
         "mokapot.parsers.fasta.read_fasta", "mokapot.mokapot.main"]
GEN_METHODS = {"permutation", "shuffle", "choice", "integers", "random",
               "normal", "uniform", "standard_normal", "permuted"}
GLOBAL_OK = {"numpy.random.default_rng", "numpy.random.Generator",
             "numpy.random.SeedSequence", "numpy.random.seed",
             "numpy.random.PCG64", "numpy.random.RandomState"}

# sets of row numbers (ints): iteration order does not depend on
# PYTHONHASHSEED.  One line of reason per function.
INT_SET_FUNCS = {
    "mokapot.brew.make_train_sets": "sets of row numbers (range / fold "
                                    "index arrays)",
    "mokapot.parsers.pin.get_rows_from_dataframe": "sets of row numbers "
                                                   "(training indices, "
                                                   "chunk.index)",
}
# order-sensitive consumption that is harmless, with the reason (verified
# by a dedicated check below where stated)
def _is_group_candidates(t):
    return any(isinstance(x, tuple) and x and x[0] in ("call", "mcall")
               and str(x[1] if x[0] == "call" else x[2]).endswith(
                   "intersection") for x in walk_term(t))


def _is_column_difference(t):
    return any(isinstance(x, tuple) and x and x[0] == "bin" and x[1] == "-"
               and all(isinstance(y, tuple) and y[0] == "call"
                       and y[1] == "builtins.set" for y in x[2:4])
               for x in walk_term(t))


# accepted order-dependent consumptions, keyed by function and by what the
# set IS (a predicate on its reconstructed term), never by a variable name
ORDER_EXCEPTIONS = [
    ("mokapot.parsers.fasta._group_proteins", _is_group_candidates,
     "each matching group is renamed independently; only the insertion "
     "order of the returned dict depends on the order, and read_fasta "
     "uses that dict through len() only (checked)"),
    ("mokapot.parsers.pin.drop_missing_values_and_fill_spectra_dataframe",
     _is_column_difference,
     "column order of the NaN mask only; rows are aligned by column name "
     "in pd.concat and the result is consumed by membership tests"),
]


def run(ctx):
    prog = ctx.prog
    reach = prog.reachable(ENTRY)
    _ambient_randomness(ctx, reach)
    _models_seeded(ctx)
    _generator_roots(ctx, reach)
    _seed_routing(ctx)
    _no_builtin_hash(ctx, reach)
    _set_order(ctx, reach)
    from .c05 import _models_sorted, _parallel_sites
    _models_sorted(ctx)
    # thread completion order must not reach a result (shared with C05b)
    _parallel_sites(ctx)
    # ... and the worker count must not reach anything but the pool size
    from .c05 import worker_count_only_forwarded
    worker_count_only_forwarded(ctx, "C08b-worker-count-only-forwarded")
    # fold assignment is a pure function of the spectrum key's *values*:
    # the hash is taken over the key columns' values, not over object
    # addresses or a per-process salt (shared with C02c)
    from .c02 import _split
    _split(ctx, prog.func("mokapot.dataset.OnDiskPsmDataset._split"))


# ------------------------------------------------------------------ a
def _ambient_randomness(ctx, reach):
    prog = ctx.prog
    n_global_pkg = 0
    n_sample = 0
    for q in sorted(prog.funcs):
        f = prog.funcs[q]
        if isinstance(f.node, ast.Lambda):
            continue
        for call, kind, tg in prog.call_sites(f):
            name = tg[0] if tg else ""
            if kind == "external" and (
                    name.startswith("numpy.random.")
                    or name.startswith("random.")):
                if name in GLOBAL_OK:
                    continue
                n_global_pkg += 1
                if q in reach:
                    ctx.fail("C08a-global-rng", f,
                             f"{ast.unparse(call.func)}(...)",
                             f"{name} draws from the process-wide random "
                             "state: the result changes between runs with "
                             "the same seed", node=call)
                else:
                    ctx.note(f"global RNG use in {q} ({name}) - not "
                             "reachable from the entry points")
            if isinstance(call.func, ast.Attribute) and \
                    call.func.attr == "sample" and kind in ("method",
                                                            "cha"):
                n_sample += 1
                kws = {k.arg: k.value for k in call.keywords}
                rs = kws.get("random_state")
                ok = rs is not None and const_value(rs, "x") is not None
                if ok:
                    roots = DefUse(prog, f).backward_roots(rs)
                    ok = any(k == "param" for k, _n in roots)
                if q in reach:
                    ctx.check(ok, "C08a-seeded-sample", f,
                              f"{ast.unparse(call.func)}(..., random_state="
                              f"{ast.unparse(rs) if rs is not None else None})",
                              ".sample() without a random_state rooted at a "
                              "seed parameter shuffles with pandas' global "
                              "state", node=call)
    ctx.floor("C08a-sample-sites", n_sample, 2)
    ctx.control("global-RNG scanner sees the unseeded permutation in "
                "make_decoys", n_global_pkg >= 1,
                f"{n_global_pkg} global RNG call(s) package-wide")
    ctx.ok("C08a-global-rng", "mokapot.brew.brew",
           f"no global-state random call among {len(reach)} reachable "
           "functions")


def _generator_roots(ctx, reach):
    prog = ctx.prog
    n = 0
    for q in sorted(reach):
        f = prog.funcs.get(q)
        if f is None or isinstance(f.node, ast.Lambda):
            continue
        du = None
        for call in walk_own(f.node):
            if not (isinstance(call, ast.Call) and isinstance(
                    call.func, ast.Attribute)
                    and call.func.attr in GEN_METHODS):
                continue
            recv = call.func.value
            txt = ast.unparse(recv)
            if txt.startswith("np.random") or txt == "random":
                continue  # handled by the global scan
            if call.func.attr in ("choice", "random", "normal", "uniform") \
                    and not ("rng" in txt or "random" in txt.lower()):
                continue  # unrelated .choice()/.random() methods
            n += 1
            if du is None:
                du = DefUse(prog, f)
            roots = du.backward_roots(recv)
            ok = any(k == "param" and ("rng" in nm or nm == "self")
                     for k, nm in roots)
            if ok and ("param", "self") in roots:
                ok = "rng" in txt
            ctx.check(ok, "C08a-generator-from-seed", f,
                      f"{txt}.{call.func.attr}(...) uses a generator rooted "
                      "at an rng parameter",
                      f"generator {txt} is rooted at {sorted(roots)}: it is "
                      "not derived from the caller's seed", node=call)
    ctx.floor("C08a-generator-calls", n, 3)


def _models_seeded(ctx):
    prog = ctx.prog
    f = prog.func("mokapot.brew.brew")
    du = DefUse(prog, f)
    ctors = [n for n in ast.walk(f.node) if isinstance(n, ast.Call)
             and callee_is(prog, f, n, "PercolatorModel", "Model")]
    for c in ctors:
        kws = {k.arg: k.value for k in c.keywords}
        rs = kws.get("rng")
        ok = rs is not None and ("param", "rng") in du.backward_roots(rs)
        ctx.check(ok, "C08a-default-model-seeded", f,
                  f"{ast.unparse(c)} is seeded from brew's rng",
                  f"brew builds its default model with {ast.unparse(c)}: "
                  "PercolatorModel draws the random_state of its "
                  "hyper-parameter KFold from an unseeded generator at "
                  "construction, before brew assigns model.rng",
                  node=c)
    # model.rng is re-seeded from brew's generator
    st = [(a, v) for (r, a, v, s) in du.attr_stores
          if r == "model" and a == "rng"]
    ok = len(st) == 1 and ("param", "rng") in du.backward_roots(st[0][1])
    ctx.check(ok, "C08a-model-rng-assigned", f,
              "the model's generator is replaced by brew's generator",
              f"model.rng assignments: {[ast.unparse(v) for _a, v in st]}",
              node=f.node)
    pm = prog.func("mokapot.model.PercolatorModel.__init__")
    dp = DefUse(prog, pm)
    kf = [n for n in ast.walk(pm.node) if isinstance(n, ast.Call)
          and callee_is(prog, pm, n, "KFold")]
    ok_k = False
    for k in kf:
        rs = {x.arg: x.value for x in k.keywords}.get("random_state")
        ok_k = rs is not None and ("param", "rng") in dp.backward_roots(rs)
    ctx.check(ok_k, "C08a-kfold-seeded", pm,
              "the hyper-parameter KFold is seeded from the model's rng "
              "parameter", "KFold random_state is not derived from rng",
              node=pm.node)
    svc = [n for n in ast.walk(pm.node) if isinstance(n, ast.Call)
           and callee_is(prog, pm, n, "LinearSVC")]
    ok_s = bool(svc) and all(
        const_value({x.arg: x.value for x in s.keywords}.get(
            "random_state")) is not None for s in svc)
    ctx.check(ok_s, "C08a-svm-seeded", pm,
              "LinearSVC has a fixed random_state",
              "LinearSVC without random_state", node=pm.node)


def _is_seed(t, want):
    """does the argument term carry the caller's seed / generator?"""
    kind, name = want
    # a generator / state constructed from the seed carries it
    while t[0] == "call" and t[1] in (
            "numpy.random.default_rng", "numpy.random.RandomState",
            "numpy.random.SeedSequence", "numpy.random.Generator",
            "numpy.random.PCG64") and len(t[2]) == 1 and not t[3]:
        t = t[2][0]
    if kind == "param":
        return t == ("param", name)
    if kind == "self":
        return t == ("attr", ("param", "self"), name)
    if kind == "config":
        return t[0] == "attr" and t[2] == name and t[1][0] == "call" and \
            t[1][1] == "mokapot.config.Config"
    return False


SEED_ROUTES = [
    # (caller, callee simple name, where the caller holds the seed)
    ("mokapot.brew.brew", "_split", ("param", "rng")),
    ("mokapot.brew.brew", "make_train_sets", ("param", "rng")),
    ("mokapot.mokapot.main", "brew", ("config", "seed")),
    ("mokapot.mokapot.main", "PercolatorModel", ("config", "seed")),
    ("mokapot.confidence.assign_confidence", "LinearConfidence",
     ("param", "rng")),
    ("mokapot.confidence.LinearConfidence.__init__", "__init__",
     ("param", "rng")),
    ("mokapot.confidence.LinearConfidence._assign_confidence",
     "picked_protein", ("self", "_rng")),
    ("mokapot.picked_protein.picked_protein", "groupby_max",
     ("param", "rng")),
    ("mokapot.picked_protein.picked_protein", "group_without_decoys",
     ("param", "rng")),
    ("mokapot.picked_protein.group_without_decoys", "match_decoy",
     ("param", "rng")),
]
_SEED_FORMALS = ("rng", "random_state", "seed")


def _seed_routing(ctx):
    """At every listed call site the callee's seed parameter (rng /
    random_state / seed) is bound - positionally or by keyword, directly or
    through a temporary - to the seed the caller holds."""
    prog = ctx.prog
    for caller_q, callee, want in SEED_ROUTES:
        f = prog.func(caller_q)
        T = Terms(DefUse(prog, f))
        calls = []
        for n in walk_own(f.node):
            if not isinstance(n, ast.Call):
                continue
            fn = n.func
            simple = fn.attr if isinstance(fn, ast.Attribute) else (
                fn.id if isinstance(fn, ast.Name) else None)
            if simple == callee:
                calls.append(n)
        ctx.require(calls, f"{caller_q}: call of {callee} not found")
        for c in calls:
            kind, tg = prog.resolve_call(f, f.module, c)
            cands = [prog.funcs.get(q) or prog.funcs.get(q + ".__init__")
                     for q in (tg or [])]
            cands = [g for g in cands if g is not None and any(
                p_ in _SEED_FORMALS for p_ in g.params)]
            got = None
            for g in cands:
                b = prog.bind(g, c)
                for p_ in _SEED_FORMALS:
                    if p_ in b:
                        got = T.of(b[p_])
                if got is not None:
                    break
            if not cands:
                # callee not resolvable (method of a parameter's class):
                # any argument may carry the seed
                args = [T.of(a) for a in c.args] + [
                    T.of(k.value) for k in c.keywords if k.arg]
                got = next((a for a in args if _is_seed(a, want)), None)
            ctx.check(got is not None and _is_seed(got, want),
                      "C08a-seed-routing", f,
                      f"{callee}(...) receives the seed/generator "
                      f"{'.'.join(want)}",
                      f"{callee} is called with rng="
                      f"{show(got, 60) if got is not None else None}: the "
                      "seed is not passed on, so the callee falls back to "
                      "an unseeded or default generator", node=c)
    # groupby_max shuffles with its rng
    g = prog.func("mokapot.utils.groupby_max")
    s = [n for n in ast.walk(g.node) if isinstance(n, ast.Call)
         and isinstance(n.func, ast.Attribute) and n.func.attr == "sample"]
    ok = len(s) == 1 and {k.arg: ast.unparse(k.value)
                          for k in s[0].keywords}.get("random_state") == \
        g.params[-1]
    ctx.check(ok, "C08a-tie-shuffle-seeded", g,
              "the tie-breaking shuffle of groupby_max uses its rng "
              "argument", "groupby_max samples without its rng", node=g.node)


# ------------------------------------------------------------------ b
def _no_builtin_hash(ctx, reach):
    prog = ctx.prog
    n = 0
    for q in sorted(reach):
        f = prog.funcs.get(q)
        if f is None:
            continue
        for call, kind, tg in prog.call_sites(f):
            if kind == "external" and tg == ["builtins.hash"]:
                n += 1
                ctx.fail("C08b-salted-hash", f,
                         f"{ast.unparse(call)[:60]}",
                         "the builtin hash() of strings is salted per "
                         "interpreter (PYTHONHASHSEED): anything ordered or "
                         "partitioned by it changes between sessions",
                         node=call)
    if not n:
        ctx.ok("C08b-salted-hash", "mokapot.brew.brew",
               "no builtin hash() in reachable code")


SET_BINOPS = {"-", "&", "|", "^"}
SET_METHODS = {"union", "intersection", "difference",
               "symmetric_difference", "copy"}
ORDER_FREE_CALLS = {"builtins.sorted", "builtins.len", "builtins.set",
                    "builtins.frozenset", "builtins.any", "builtins.all",
                    "builtins.sum", "builtins.min", "builtins.max",
                    "builtins.isinstance"}
ORDER_SENSITIVE_CALLS = {"builtins.list", "builtins.tuple",
                         "pandas.Series", "numpy.array", "numpy.asarray",
                         "builtins.enumerate", "builtins.zip",
                         "builtins.iter", "pandas.DataFrame",
                         "pandas.Index"}


def _is_set_expr(e, env_sets):
    """syntactic set-typed expression"""
    if isinstance(e, (ast.Set, ast.SetComp)):
        return True
    if isinstance(e, ast.Call):
        fn = ast.unparse(e.func)
        if fn in ("set", "frozenset", "set.intersection", "set.union"):
            return True
        if isinstance(e.func, ast.Attribute) and e.func.attr in SET_METHODS \
                and _is_set_expr(e.func.value, env_sets):
            return True
    if isinstance(e, ast.BinOp) and type(e.op) in (ast.Sub, ast.BitAnd,
                                                   ast.BitOr, ast.BitXor):
        return _is_set_expr(e.left, env_sets) and _is_set_expr(
            e.right, env_sets) or (
            _is_set_expr(e.left, env_sets) or _is_set_expr(e.right, env_sets)
        ) and type(e.op) is not ast.Sub
    if isinstance(e, ast.Name) and e.id in env_sets:
        return True
    if isinstance(e, ast.Subscript) and isinstance(e.value, ast.Name) and \
            e.value.id in env_sets.get("__dict_of_sets__", ()):
        return True
    return False


def _set_order(ctx, reach):
    prog = ctx.prog
    n_sets = 0
    findings = 0
    term_cache = {}
    for q in sorted(reach):
        f = prog.funcs.get(q)
        if f is None or isinstance(f.node, ast.Lambda):
            continue
        if q in INT_SET_FUNCS:
            ctx.ok("C08b-set-order", f, "row-number sets",
                   INT_SET_FUNCS[q])
            continue
        # local names bound to sets / dicts of sets
        env_sets: dict = {}
        dict_of_sets = set()
        for n in walk_own(f.node):
            if isinstance(n, ast.Assign) and isinstance(
                    n.targets[0], ast.Name):
                if _is_set_expr(n.value, env_sets):
                    env_sets[n.targets[0].id] = n
                if isinstance(n.value, ast.Call) and ast.unparse(
                        n.value) == "defaultdict(set)":
                    dict_of_sets.add(n.targets[0].id)
        created_dicts = set(dict_of_sets)  # defaultdicts made here: a
        # subscript by the loop variable inserts keys in iteration order
        if q == "mokapot.parsers.fasta._group_proteins":
            dict_of_sets |= {"peptides", "proteins", "grouped"}
        if q == "mokapot.parsers.fasta.read_fasta":
            dict_of_sets |= {"peptides"}
            env_sets.setdefault("peps", None)   # digest() returns a set
        env_sets["__dict_of_sets__"] = dict_of_sets
        parents = {}
        for n in ast.walk(f.node):
            for ch in ast.iter_child_nodes(n):
                parents[id(ch)] = n

        def set_like(e):
            if _is_set_expr(e, env_sets):
                return True
            # values of dict-of-sets reached through .items() / .values()
            if isinstance(e, ast.Name):
                for lp in ast.walk(f.node):
                    if isinstance(lp, (ast.For, ast.comprehension)) and \
                            isinstance(lp.iter, ast.Call) and isinstance(
                                lp.iter.func, ast.Attribute) and \
                            lp.iter.func.attr in ("items", "values") and \
                            isinstance(lp.iter.func.value, ast.Name) and \
                            lp.iter.func.value.id in dict_of_sets:
                        tgt = lp.target
                        names = [x.id for x in ast.walk(tgt)
                                 if isinstance(x, ast.Name)]
                        if lp.iter.func.attr == "items" and len(
                                names) == 2 and e.id == names[1]:
                            return True
                        if lp.iter.func.attr == "values" and e.id in names:
                            return True
            return False

        for n in walk_own(f.node):
            uses = []
            if isinstance(n, ast.Call):
                fn = ast.unparse(n.func)
                dn = prog.dotted(f, f.module, n.func) or (
                    "builtins." + fn if fn in ("list", "tuple", "sorted",
                                               "iter", "enumerate", "zip",
                                               "len", "set", "any", "all")
                    else fn)
                for a in n.args:
                    if set_like(a):
                        n_sets += 1
                        par = parents.get(id(n))
                        par_free = isinstance(par, ast.Call) and (
                            prog.dotted(f, f.module, par.func)
                            or "builtins." + ast.unparse(par.func)
                        ) in ORDER_FREE_CALLS
                        if dn in ORDER_SENSITIVE_CALLS and not par_free:
                            uses.append((a, f"{fn}(set)"))
                if isinstance(n.func, ast.Attribute) and \
                        n.func.attr == "join" and n.args and set_like(
                            n.args[0]):
                    uses.append((n.args[0], "str.join(set)"))
                if isinstance(n.func, ast.Attribute) and \
                        n.func.attr == "pop" and not n.args and set_like(
                            n.func.value):
                    uses.append((n.func.value, "set.pop()"))
            elif isinstance(n, (ast.For, ast.comprehension)):
                if set_like(n.iter):
                    n_sets += 1
                    if isinstance(n, ast.For):
                        creates_keys = any(
                            isinstance(x, ast.Subscript)
                            and isinstance(x.value, ast.Name)
                            and x.value.id in created_dicts
                            and isinstance(n.target, ast.Name)
                            and ast.unparse(x.slice) == n.target.id
                            for st in n.body for x in ast.walk(st))
                        if creates_keys:
                            uses.append((n.iter, "for ... in set creating "
                                         "dict keys"))
                        elif not _order_free_body(n.body):
                            uses.append((n.iter, "for ... in set"))
                    else:
                        comp = parents.get(id(n))
                        consumer = parents.get(id(comp))
                        free = isinstance(comp, ast.SetComp) or (
                            isinstance(consumer, ast.Call) and (
                                prog.dotted(f, f.module, consumer.func)
                                or "builtins." + ast.unparse(consumer.func)
                            ) in ORDER_FREE_CALLS)
                        # set.intersection(*[... for p in peps]) is free
                        if isinstance(consumer, ast.Starred):
                            free = True
                        if not free:
                            uses.append((n.iter, "[... for x in set]"))
            for e, how in uses:
                # singleton guard: next(iter(s)) under len(s) == 1
                if how == "iter(set)":
                    cfg = CFG(f.node)
                    et = ast.unparse(e)
                    if {f"1 == len({et})", f"len({et}) == 1"} & set(
                            cfg.conditions(cfg.stmt_of(n))):
                        ctx.ok("C08b-set-order", f,
                               f"{ast.unparse(n)[:50]} on a singleton")
                        continue
                    # ... or under the same test as a comprehension filter
                    up, guarded = parents.get(id(n)), False
                    while up is not None and not isinstance(up, ast.stmt):
                        if isinstance(up, (ast.ListComp, ast.SetComp,
                                           ast.DictComp, ast.GeneratorExp)):
                            for g_ in up.generators:
                                for c_ in g_.ifs:
                                    if ast.unparse(c_) in (
                                            f"len({et}) == 1",
                                            f"1 == len({et})"):
                                        guarded = True
                        up = parents.get(id(up))
                    if guarded:
                        ctx.ok("C08b-set-order", f,
                               f"{ast.unparse(n)[:50]} on a singleton "
                               "(comprehension filter)")
                        continue
                key = None
                stmt = n
                while stmt is not None and not isinstance(stmt, ast.stmt):
                    stmt = parents.get(id(stmt))
                tgt = ""
                if isinstance(stmt, ast.Assign):
                    tgt = ast.unparse(stmt.targets[0])
                for fq, pred, reason in ORDER_EXCEPTIONS:
                    if fq == q:
                        if q not in term_cache:
                            term_cache[q] = Terms(DefUse(prog, f))
                        try:
                            if pred(term_cache[q].of(e)):
                                key = reason
                        except Exception:       # term not reconstructible
                            pass
                if key:
                    ctx.ok("C08b-set-order", f,
                           f"{how}: {ast.unparse(e)[:50]} -> {tgt}", key)
                    continue
                findings += 1
                ctx.fail("C08b-set-order", f,
                         f"{how}: {ast.unparse(e)[:60]}",
                         f"a set whose elements may be strings is consumed "
                         f"in iteration order ({how}): that order changes "
                         "with PYTHONHASHSEED, so the result differs "
                         "between interpreter sessions; use sorted(...)",
                         node=n)
    ctx.floor("C08b-set-sites", n_sets, 3)
    if not findings:
        ctx.ok("C08b-set-order", "mokapot.parsers.fasta.read_fasta",
               f"{n_sets} set consumption sites, all order-free or "
               "accepted with a reason")
    # the exception for _group_proteins rests on read_fasta using the
    # returned dict through len() only
    rf = prog.func("mokapot.parsers.fasta.read_fasta")
    asg = [n for n in ast.walk(rf.node) if isinstance(n, ast.Assign)
           and "_group_proteins" in ast.unparse(n.value)]
    ctx.require(len(asg) == 1 and isinstance(asg[0].targets[0], ast.Tuple),
                f"{rf.qual}: _group_proteins call not found")
    gname = asg[0].targets[0].elts[0].id
    after = False
    bad = []
    for st in rf.node.body:
        if st is asg[0]:
            after = True
            continue
        if not after:
            continue
        for nm in ast.walk(st):
            if isinstance(nm, ast.Name) and nm.id == gname:
                par = None
                for x in ast.walk(st):
                    for ch in ast.iter_child_nodes(x):
                        if ch is nm:
                            par = x
                if not (isinstance(par, ast.Call) and ast.unparse(
                        par.func) == "len"):
                    bad.append(ast.unparse(par)[:60] if par else "?")
    ctx.check(not bad, "C08b-group-dict-order-unused", rf,
              "the dict of groups returned by _group_proteins is only "
              "measured with len()",
              f"the hash-ordered dict of groups is used in {bad}",
              node=asg[0])


def _order_free_body(body):
    """Loop body consisting only of commutative per-element updates:
    x.add/remove/discard, dict[k].add/remove, membership-guarded versions,
    and counters."""
    for st in body:
        if isinstance(st, ast.Expr) and isinstance(st.value, ast.Call) and \
                isinstance(st.value.func, ast.Attribute) and \
                st.value.func.attr in ("add", "remove", "discard"):
            continue
        if isinstance(st, ast.If) and not st.orelse and isinstance(
                st.test, ast.Compare) and isinstance(
                    st.test.ops[0], (ast.In, ast.NotIn)) and \
                _order_free_body(st.body):
            continue
        if isinstance(st, ast.AugAssign) and isinstance(st.op, ast.Add) \
                and isinstance(st.value, ast.Constant):
            continue
        if isinstance(st, ast.Pass):
            continue
        # per-element alias of a container slot:  s = d[k]
        if isinstance(st, ast.Assign) and len(st.targets) == 1 and \
                isinstance(st.targets[0], ast.Name) and isinstance(
                    st.value, (ast.Subscript, ast.Name, ast.Attribute)) \
                and not any(isinstance(x, ast.Call)
                            for x in ast.walk(st.value)):
            continue
        return False
    return True
