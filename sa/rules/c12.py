"""C12 - training feeds the estimator rows and labels of the same PSM.

Decided clauses:
  a  shuffle bookkeeping in Model.fit (ALIGN, cases shuffle in {True,False}):
     estimator.fit(X, y) and _find_hyperparameters(X, y) get co-indexed
     rows/labels; the score vector handed to psms._update_labels is in the
     dataset's input order; the loop-carried label vector keeps its space.
  b  encoding of positives / negatives (truth table over label in {-1,0,+1})
     in fit and _find_hyperparameters.
  c  prediction selects features by the stored names before scaling, and the
     stored names are the training column order.
"""

from __future__ import annotations

import ast

from ..align import IN, Align, Arr, Opaque, Scalar, fmt_space, same_space
from ..cfg import CFG
from ..core import callee_is, AnalysisError
from ..defuse import DefUse, Terms, show, specialise, walk_term
from ..defuse import key as tkey
from ..tutil import (TTUnknown, bound_args, lin, np_call, strip_conv,
                     tt_eval)

EXPLANATION = (
    "Static analysis of mokapot.model.Model.fit, _find_hyperparameters and "
    "Model.decision_function. (a) abstract interpretation over the "
    "row-alignment domain, case-split on self.shuffle: the feature matrix "
    "and label vector given to estimator.fit and to the hyper-parameter "
    "search are in the same row space under the same mask; the scores "
    "handed to psms._update_labels are back in the dataset's input order "
    "(inverse permutation applied only where the permutation was); the "
    "labels carried round the training loop return to the space they "
    "entered with. (b) finite truth table over label in {-1,0,+1}: a row "
    "is used iff label != 0 and its class is 1 iff label == +1, in both "
    "fit and _find_hyperparameters. (c) decision_function selects "
    "psms.features by self.features (names) before scaler.transform, "
    "self.features is taken from the same frame whose values are scaled in "
    "fit, and a feature-set mismatch raises. Also: the label definition of C01d (shared clause). "
    "NOT decided: solver "
    "tolerance, pickling of third-party estimators.")
TECHNIQUE = ("abstract interpretation over a row-alignment domain with flag "
             "case split + finite truth table + def-use term matching")

FIT = "mokapot.model.Model.fit"
FH = "mokapot.model._find_hyperparameters"
GS = "mokapot.model._get_scores"
GSL = "mokapot.model._get_starting_labels"


def _sources(pname):
    feats = ("attr", ("param", pname), "features")

    def src(t):
        if t == ("attr", feats, "values") or t == feats:
            return Arr(IN, q=("features",))
        if t == ("attr", ("param", pname), "targets"):
            return Arr(IN, q=("targets",))
        from ..tutil import positional
        ps_ = positional(t)
        if ps_ and ps_[0][0] == "call" and ps_[0][1] == GSL:
            # element 0 of the result are the labels, the others scalars
            return Arr(IN, q=("labels",)) if ps_[1] == 0 else Scalar()
        return None

    return src


def _summaries():
    def get_scores(al, t, args, kwargs):
        v = al.ev(args[1]) if len(args) > 1 else Opaque("no X")
        if isinstance(v, Arr):
            return Arr(v.space, q=("scores",))
        return Opaque("_get_scores of non-array")

    def find_hp(al, t, args, kwargs):
        avs = [al.ev(a) for a in args]
        al.events.add("find_hyperparameters", args=avs,
                      terms=list(args))
        return Scalar()

    def update_labels(al, t, base_t, args, kwargs):
        if base_t[0] != "param":
            return None
        v = al.ev(args[0]) if args else Opaque("no scores")
        al.events.add("update_labels", scores=v, term=show(t, 200))
        return Arr(IN, q=("labels",))

    return {GS: get_scores, FH: find_hp, "._update_labels": update_labels}


def run(ctx):
    prog = ctx.prog
    fit = prog.func(FIT)
    _check_fit_alignment(ctx, fit)
    _check_encoding(ctx, fit, prog.func(FH))
    _check_prediction(ctx, prog.func("mokapot.model.Model.decision_function"),
                      fit)
    _check_label_thresholds(ctx, fit)
    # what "positive" means: +1 iff target with q <= threshold, from the
    # scores as given (shared clause with C01)
    from .c01 import _check_update_labels
    _check_update_labels(ctx)


def _check_label_thresholds(ctx, fit):
    """Positives are the targets accepted at the TRAINING FDR in the score's
    own direction: in Model.fit, in the starting labels and in the search
    for the best feature (the latter two shared with C07a)."""
    prog = ctx.prog
    T = Terms(DefUse(prog, fit))
    TRAIN = ("attr", ("param", "self"), "train_fdr")
    n = 0
    for c in ast.walk(fit.node):
        if isinstance(c, ast.Call) and isinstance(c.func, ast.Attribute) \
                and c.func.attr == "_update_labels":
            n += 1
            t = T.of(c)
            kws = dict(t[4])
            fdr = kws.get("eval_fdr", t[3][1] if len(t[3]) > 1 else None)
            desc = kws.get("desc", t[3][2] if len(t[3]) > 2 else
                           ("const", True))
            ctx.check(fdr == TRAIN and desc == ("const", True),
                      "C12b-positives-at-train-fdr", fit,
                      "labels of an iteration = targets accepted at "
                      "train_fdr under the current (higher = better) "
                      "scores",
                      f"_update_labels(eval_fdr={show(fdr, 40) if fdr else 'default 0.01'}"
                      f", desc={show(desc, 20)})", node=c)
    ctx.floor("C12b-update-labels-in-fit", n, 1)
    from .c07 import _best_feature_loop, _starting_labels
    _starting_labels(ctx, prog.func("mokapot.model._get_starting_labels"),
                     fit)
    for q in ("mokapot.dataset.PsmDataset._find_best_feature",
              "mokapot.dataset.OnDiskPsmDataset.find_best_feature"):
        _best_feature_loop(ctx, prog.func(q))


def _check_fit_alignment(ctx, fit):
    prog = ctx.prog
    ps = fit.params
    ctx.require(len(ps) == 2 and ps[0] == "self",
                f"{FIT}: expected (self, psms)")
    pname = ps[1]
    for shuffle in (True, False):
        case = f"shuffle={shuffle}"
        fnode = specialise(fit.node, {"self.shuffle": shuffle})
        du = DefUse(prog, fit, fnode)
        T = Terms(du)
        al = Align(prog, {pname: Opaque("dataset"), "self": Opaque("self")},
                   sources=[_sources(pname)], callee_summaries=_summaries())
        # estimator.fit(X, y) call sites on local estimator objects
        fit_calls = []
        hp_calls = []
        ul_calls = []
        for n in ast.walk(fnode):
            if isinstance(n, ast.Call) and isinstance(n.func, ast.Attribute):
                if n.func.attr == "fit" and len(n.args) == 2 and not (
                        isinstance(n.func.value, ast.Attribute)
                        and n.func.value.attr == "scaler"):
                    fit_calls.append(n)
                if n.func.attr == "_update_labels":
                    ul_calls.append(n)
            if isinstance(n, ast.Call) and callee_is(
                    prog, fit, n, "mokapot.model._find_hyperparameters"):
                hp_calls.append(n)
        ctx.require(len(fit_calls) >= 1,
                    f"{FIT} [{case}]: no estimator.fit(X, y) call found")
        ctx.require(len(ul_calls) >= 1,
                    f"{FIT} [{case}]: no psms._update_labels call found")
        ctx.require(len(hp_calls) >= 1,
                    f"{FIT} [{case}]: no _find_hyperparameters call found")
        for call in fit_calls:
            x = al.ev(T.of(call.args[0]))
            y = al.ev(T.of(call.args[1]))
            _co_indexed(ctx, fit, call, x, y, "C12a-fit-rows-labels",
                        "feature rows and labels given to estimator.fit "
                        "belong to the same PSMs", case)
        for call in hp_calls:
            hb = prog.bind(prog.func("mokapot.model._find_hyperparameters"),
                           call)
            ctx.require("features" in hb and "labels" in hb,
                        f"{FIT} [{case}]: _find_hyperparameters call does "
                        "not supply features and labels")
            x = al.ev(T.of(hb["features"]))
            y = al.ev(T.of(hb["labels"]))
            _co_indexed(ctx, fit, call, x, y, "C12a-hyperparameter-rows",
                        "feature rows and labels given to the "
                        "hyper-parameter search belong to the same PSMs",
                        case)
        for call in ul_calls:
            sarg = call.args[0] if call.args else {
                k.arg: k.value for k in call.keywords}.get("scores")
            ctx.require(sarg is not None, f"{FIT} [{case}]: _update_labels "
                        "called without scores")
            s = al.ev(T.of(sarg))
            if isinstance(s, Opaque):
                raise AnalysisError(
                    f"{FIT} [{case}]: scores handed to _update_labels not "
                    f"interpretable: {s.why}")
            ctx.check(
                isinstance(s, Arr) and same_space(s.space, IN),
                "C12a-scores-input-order", fit,
                "scores handed to psms._update_labels are in the dataset's "
                "input order",
                "psms._update_labels pairs score i with the label of PSM i, "
                "but the score vector is in row space "
                f"{fmt_space(s.space) if isinstance(s, Arr) else s!r}",
                node=call, case=case)
        issues = al.events.of("issue")
        ctx.check(not issues, "C12a-alignment", fit,
                  "every permutation, mask and element-wise operation in the "
                  "training loop acts on co-indexed arrays",
                  "; ".join(f"{i['what']} at {i['term'][:100]}"
                            for i in issues[:3]),
                  node=fit.node, case=case)


def _co_indexed(ctx, func, node, x, y, rule, what, case):
    if isinstance(x, Opaque) or isinstance(y, Opaque):
        raise AnalysisError(
            f"{func.qual} [{case}]: arguments at line {node.lineno} not "
            f"interpretable: {x!r}, {y!r}")
    ok = isinstance(x, Arr) and isinstance(y, Arr) and same_space(
        x.space, y.space)
    ctx.check(ok, rule, func, what,
              f"rows are in {fmt_space(x.space) if isinstance(x, Arr) else x}"
              f" but labels are in "
              f"{fmt_space(y.space) if isinstance(y, Arr) else y}",
              node=node, case=case,
              detail=fmt_space(x.space) if isinstance(x, Arr) else "")


# ------------------------------------------------------------------ clause b
def _check_encoding(ctx, fit, fh):
    prog = ctx.prog
    for func, xname in ((fit, None), (fh, None)):
        du = DefUse(prog, func)
        T = Terms(du, phi_vars=True)
        calls = [n for n in ast.walk(func.node)
                 if isinstance(n, ast.Call)
                 and isinstance(n.func, ast.Attribute)
                 and n.func.attr == "fit" and len(n.args) == 2
                 and not (isinstance(n.func.value, ast.Attribute)
                          and n.func.value.attr == "scaler")]
        ctx.require(calls, f"{func.qual}: no estimator.fit(X, y) call")
        for call in calls:
            xt = T.of(call.args[0])
            yt = T.of(call.args[1])
            # X = F[mask, :]   y = g(L[mask'])
            ctx.require(xt[0] == "sub", f"{func.qual}: training rows are "
                        f"not a subscript: {show(xt, 100)}")
            idx = xt[2]
            if idx[0] == "tuple":
                idx = idx[1][0]
            mask_x = idx
            # label variable: the base of the astype(bool)
            lab = strip_conv(mask_x)
            subs = [s for s in walk_term(yt) if s[0] == "sub"]
            ctx.require(len(subs) >= 1, f"{func.qual}: labels given to fit "
                        f"are not a masked selection: {show(yt, 100)}")
            ysub = subs[0]
            same_mask = (ysub[2]) == (mask_x)
            same_lab = (strip_conv(ysub[1])) == (lab)
            if not ctx.check(same_mask and same_lab, "C12b-same-mask", func,
                      "rows and labels are selected by the same mask of the "
                      "same label vector",
                      f"rows selected by {show(mask_x, 80)}, labels by "
                      f"{show(ysub[1], 60)}[{show(ysub[2], 80)}]",
                      node=call):
                continue
            rows = []
            bad = []
            for L in (-1, 0, 1):
                def atoms(t, L=L):
                    if t == lab:
                        return L
                    if t[0] == "sub" and (t[2]) == (mask_x):
                        return atoms_inner(t[1], L)
                    raise KeyError

                def atoms_inner(t, L):
                    if strip_conv(t) == lab:
                        return L
                    raise KeyError
                try:
                    used = bool(tt_eval(_mask_as_bool(mask_x), atoms))
                    cls = tt_eval(yt, atoms)
                except (TTUnknown, KeyError) as e:
                    raise AnalysisError(
                        f"{func.qual}: label encoding outside the "
                        f"point-wise fragment: {e}")
                want_used = L != 0
                want_cls = {1: 1, -1: 0}.get(L)
                rows.append({"label": L, "used": used, "class": cls})
                if used != want_used or (want_used and cls != want_cls):
                    bad.append(rows[-1])
            ctx.check(not bad, "C12b-encoding", func,
                      "row used iff label != 0; class 1 iff label == +1, "
                      "class 0 iff label == -1",
                      f"encoding deviates: {bad}", node=call,
                      detail=str(rows))


def _mask_as_bool(mask_t):
    """x.astype(bool) -> truthiness of x (tt_eval handles astype)."""
    return mask_t


# ------------------------------------------------------------------ clause c
def _check_prediction(ctx, df, fit):
    prog = ctx.prog
    du = DefUse(prog, df)
    T = Terms(du)
    rets = T.returns()
    ctx.require(len(rets) == 1, f"{df.qual}: expected one return")
    rnode, rt = rets[0]
    pname = [p for p in df.params if p != "self"][0]
    ok = False
    why = show(rt, 200)
    b = bound_args(prog, rt) if rt[0] == "call" and rt[1] == GS else None
    gsp = prog.func(GS).params
    if b is not None and set(b) == set(gsp[:2]):
        est, feat = b[gsp[0]], b[gsp[1]]
        c = feat
        if c[0] == "mcall" and c[2] == "transform" and tkey(c[1]) == \
                "self.scaler" and c[3]:
            arg = strip_conv(c[3][0])
            # psms.features.loc[:, self.features]
            if arg[0] == "sub" and arg[1] == ("attr", ("attr", (
                    "param", pname), "features"), "loc"):
                idx = arg[2]
                if idx[0] == "tuple" and len(idx[1]) == 2 and \
                        tkey(idx[1][1]) == "self.features" and \
                        idx[1][0][0] == "slice":
                    ok = tkey(est) == "self.estimator"
                    why = "estimator is not self.estimator" if not ok else ""
                else:
                    why = ("features are not selected by the stored names: "
                           f"{show(idx, 100)}")
            elif arg[0] == "sub" and arg[1] == ("attr", ("param", pname),
                                                 "features") and \
                    tkey(arg[2]) == "self.features":
                ok = tkey(est) == "self.estimator"
            else:
                why = ("the matrix given to scaler.transform is "
                       f"{show(arg, 120)}, not psms.features restricted to "
                       "self.features by name")
        else:
            why = f"features are not scaled with self.scaler: {show(c, 100)}"
    ctx.check(ok, "C12c-features-by-name", df,
              "prediction selects psms.features by the stored feature names "
              "before scaling and scoring", why, node=rnode)
    # a feature-set mismatch raises
    raises = [n for n in ast.walk(df.node) if isinstance(n, ast.Raise)]
    guard_ok = False
    from ..cfg import CFG
    cfg = CFG(df.node)
    from ..astutil import cond_terms
    SELF_FEATS = ("attr", ("param", "self"), "features")

    def as_set_of(x):
        if x[0] == "call" and x[1] in ("builtins.set",
                                       "builtins.frozenset") and x[2]:
            return x[2][0]
        return None

    for r in raises:
        for tt, pol in cond_terms(cfg, T, r):
            if tt[0] != "cmp" or not (
                    (tt[1] == "!=" and pol) or (tt[1] == "==" and not pol)):
                continue
            a, b = as_set_of(tt[2]), as_set_of(tt[3])
            if a is None or b is None:
                continue
            sides = [a, b]
            if any(strip_conv(x) == SELF_FEATS for x in sides) and any(
                    any(y == ("attr", ("param", pname), "features")
                        for y in walk_term(x)) for x in sides):
                guard_ok = True
    ctx.check(guard_ok, "C12c-feature-mismatch-raises", df,
              "a dataset whose feature set differs from the model's raises",
              "no 'set(names) != set(self.features)' guard with a raise",
              node=df.node)
    # fit stores the names of exactly the matrix it scales
    du2 = DefUse(prog, fit)
    T2 = Terms(du2)
    stores = [(a, v, st) for (r, a, v, st) in du2.attr_stores
              if r == "self" and a == "features"]
    ctx.require(len(stores) == 1,
                f"{FIT}: expected one assignment to self.features")
    names_t = T2.of(stores[0][1])
    fpsms = [p for p in fit.params if p != "self"][0]
    ok_names = show(names_t) == f"{fpsms}.features.columns.tolist()"
    scaled = None
    FEATS = ("attr", ("param", fpsms), "features")
    SCALER = ("attr", ("param", "self"), "scaler")
    fits = []
    for n in ast.walk(fit.node):
        if isinstance(n, ast.Call) and isinstance(n.func, ast.Attribute) \
                and n.func.attr in ("fit_transform", "fit", "partial_fit",
                                    "transform") and n.args and \
                T2.of(n.func.value) == SCALER:
            fits.append((n, n.func.attr, T2.of(n.args[0])))
            if n.func.attr in ("fit_transform", "transform"):
                scaled = T2.of(n.args[0])
    ok_scaled = scaled is not None and strip_conv(scaled) == FEATS
    # the scaler must learn from ALL rows: statistics of a row subset depend
    # on which rows come first (the property demands row-order independence)
    partial = [(n, k, t) for n, k, t in fits if k in (
        "fit", "partial_fit", "fit_transform")
        and strip_conv(t) != FEATS]
    cfg2 = CFG(fit.node)
    for n, k, t in partial:
        # chunk-wise fitting: range(lo, STOP, step) with rows [i : i + step]
        # reaches the last row iff STOP is the number of rows
        verdict = None
        st = strip_conv(t)
        lp = cfg2.enclosing(n, (ast.For,))
        if st[0] == "sub" and lp is not None:
            it = T2.of(lp.iter)
            if it[0] == "call" and it[1] == "builtins.range" and \
                    len(it[2]) == 3:
                nrows = [("sub", ("attr", x, "shape"), ("const", 0))
                         for x in (strip_conv(st[1]), st[1])] + [
                    ("call", "builtins.len", (st[1],), ())]
                d = [lin(it[2][1]) + lin(nr).scale(-1) for nr in nrows]
                if any(x.const == 0 and not x.atoms for x in d):
                    verdict = True
                elif any(any(c < 0 for c in x.atoms.values())
                         or (not x.atoms and x.const < 0) for x in d):
                    verdict = False
        elif st[0] == "sub" and lp is None and k == "fit":
            verdict = True      # the first chunk of a chunk-wise fit
        if verdict is None:
            raise AnalysisError(
                f"{FIT}: scaler.{k}({show(t, 80)}) learns from a part of "
                "the rows and the coverage of the chunk loop is not "
                "recognised; rule C12a needs re-reading")
        ctx.check(verdict, "C12a-scaler-sees-all-rows", fit,
                  "chunk-wise scaler fitting reaches the last row",
                  f"scaler.{k}({show(t, 80)}) runs over "
                  f"{ast.unparse(lp.iter) if lp is not None else '?'}: the "
                  "loop stops before the end, so the last rows never reach "
                  "the scaler and the normalisation depends on which PSMs "
                  "come last", node=n)
    if not partial:
        ctx.ok("C12a-scaler-sees-all-rows", fit,
               f"{len(fits)} scaler call(s), all on the whole feature "
               "matrix")
    ctx.check(ok_names and ok_scaled, "C12c-stored-names-are-training-order",
              fit, "self.features records the column order of the matrix "
              "that is scaled and trained on",
              f"self.features = {show(names_t, 80)}; scaled matrix = "
              f"{show(scaled, 80) if scaled else None}", node=stores[0][2])
