"""C19 - PIN to rectangular-TSV conversion is lossless, order-preserving and
idempotent."""

from __future__ import annotations

import ast

from ..cfg import CFG
from ..core import AnalysisError, const_value
from ..defuse import DefUse, Terms, show, walk_term
from ..defuse import key as tkey
from ..tutil import lin

EXPLANATION = (
    "Static analysis of parsers.pin_to_tsv.convert_line_pin_to_tsv / "
    "is_valid_tsv / pin_to_valid_tsv / parse_pin_header_columns and the "
    "verify step of mokapot.main. (a) field partition: the output fields "
    "are elements[:s] + [join(elements[s:e])] + elements[e:] with "
    "identical boundary expressions, s the protein column index and e - s "
    "== (number of fields - number of header columns) + 1 by linear normal "
    "form, so no field is lost or duplicated wherever the protein column "
    "stands; fields are split and re-joined with the same column "
    "separator, proteins joined with the protein separator. (b) "
    "is_valid_tsv returns True only on the path that leaves the loop over "
    "all remaining lines, and returns False for a DefaultDirection line or "
    "any width mismatch; pin_to_valid_tsv writes the header once, skips "
    "only a DefaultDirection second line and writes every further line, in "
    "order, through the converter with the header's column count and "
    "protein index. (c) the command line writes the temporary file afresh "
    "before moving it over the input (shared with C09). NOT decided: "
    "whitespace handling of str.strip().")
TECHNIQUE = ("slice-partition check (STRIDE) with linear normal form + CFG "
             "return-path analysis + call-argument routing")

PT = "mokapot.parsers.pin_to_tsv."


def run(ctx):
    prog = ctx.prog
    _convert_line(ctx, prog.func(PT + "convert_line_pin_to_tsv"))
    _header(ctx, prog.func(PT + "parse_pin_header_columns"))
    _is_valid(ctx, prog.func(PT + "is_valid_tsv"))
    _to_valid(ctx, prog.func(PT + "pin_to_valid_tsv"))
    from .c09 import _check_input_replacement
    reach = prog.reachable(["mokapot.mokapot.main"])
    _check_input_replacement(ctx, reach)
    _main_verify(ctx, prog.func("mokapot.mokapot.main"))


def _convert_line(ctx, f):
    prog = ctx.prog
    du = DefUse(prog, f)
    T = Terms(du)
    p_line, p_idx, p_ncol, p_sepc, p_sepp = f.params[:5]
    rets = T.returns()
    ctx.require(len(rets) == 1, f"{f.qual}: expected one return")
    rnode, t = rets[0]
    ok = t[0] == "mcall" and t[2] == "join" and t[1] == ("param", p_sepc)
    ctx.check(ok, "C19a-rejoined-with-column-separator", f,
              "fields are re-joined with the column separator",
              f"returns {show(t, 100)}", node=rnode)
    if not ok:
        return
    cols = t[3][0]
    parts = []

    def flat(x):
        if x[0] == "bin" and x[1] == "+":
            flat(x[2])
            flat(x[3])
        else:
            parts.append(x)
    flat(cols)
    ctx.require(len(parts) == 3, f"{f.qual}: output is not prefix + "
                f"[proteins] + suffix: {show(cols, 160)}")
    pre, mid, suf = parts
    split = ("mcall", ("param", p_line), "split", (), (("sep", (
        "param", p_sepc)),))
    split2 = ("mcall", ("param", p_line), "split", (("param", p_sepc),), ())

    def is_elems(x):
        return x in (split, split2)

    ok_pre = pre[0] == "sub" and is_elems(pre[1]) and pre[2][0] == "slice" \
        and pre[2][1] == ("const", None)
    ok_suf = suf[0] == "sub" and is_elems(suf[1]) and suf[2][0] == "slice" \
        and suf[2][2] == ("const", None)
    ok_mid = False
    mid_sl = None
    if mid[0] == "list" and len(mid[1]) == 1:
        j = mid[1][0]
        if j[0] == "mcall" and j[2] == "join" and j[1] == ("param", p_sepp) \
                and j[3] and j[3][0][0] == "sub" and is_elems(j[3][0][1]) \
                and j[3][0][2][0] == "slice":
            ok_mid = True
            mid_sl = j[3][0][2]
    ctx.check(ok_pre and ok_suf and ok_mid, "C19a-three-slices", f,
              "output = fields before the proteins + [proteins joined by "
              "the protein separator] + fields after, all slices of the "
              "line split on the column separator",
              f"{show(cols, 200)}", node=rnode)
    if not (ok_pre and ok_suf and ok_mid):
        return
    s1, s2 = pre[2][2], mid_sl[1]
    e1, e2 = mid_sl[2], suf[2][1]
    ctx.check(s1 == s2 and e1 == e2, "C19a-partition-boundaries", f,
              "the three slices share their boundaries (no field lost or "
              "duplicated)",
              f"prefix ends at {show(s1, 40)}, proteins span "
              f"{show(s2, 40)}..{show(e1, 40)}, suffix starts at "
              f"{show(e2, 40)}", node=rnode)
    key = (lambda x: tkey(x, 300))
    ls, le = lin(s2, key), lin(e1, key)
    ok_s = ls.const == 0 and ls.atoms == {p_idx: 1}
    ctx.check(ok_s, "C19a-proteins-start-at-protein-column", f,
              "the protein block starts at the protein column index",
              f"start = {ls!r}", node=rnode)
    width = le + ls.scale(-1)
    elems_len = [k for k in width.atoms if k.startswith("len(")]
    ok_w = (width.const == 1 and len(width.atoms) == 2
            and width.atoms.get(p_ncol) == -1 and len(elems_len) == 1
            and width.atoms[elems_len[0]] == 1
            and ".split(" in elems_len[0])
    ctx.check(ok_w, "C19a-protein-block-width", f,
              "protein block width = (number of fields - header columns) "
              "+ 1", f"end - start = {width!r}", node=rnode)


def _header(ctx, f):
    prog = ctx.prog
    du = DefUse(prog, f)
    T = Terms(du)
    rets = T.returns()
    ctx.require(len(rets) == 1, f"{f.qual}: expected one return")
    t = rets[0][1]
    ok = False
    if t[0] == "tuple" and len(t[1]) == 2:
        n, i = t[1]
        cols = ("mcall", ("mcall", ("param", f.params[0]), "strip", (), ()),
                "split", (("param", f.params[1]),), ())
        ok = n == ("call", "builtins.len", (cols,), ()) and i == (
            "mcall", cols, "index", (("const", "Proteins"),), ())
    ctx.check(ok, "C19a-header-facts", f,
              "(column count, index of 'Proteins') of the header split on "
              "the column separator", f"returns {show(t, 160)}",
              node=rets[0][0])


def _is_valid(ctx, f):
    cfg = CFG(f.node)
    rets = [n for n in ast.walk(f.node) if isinstance(n, ast.Return)]
    trues = [r for r in rets if const_value(r.value) is True]
    falses = [r for r in rets if const_value(r.value) is False]
    ctx.check(len(trues) == 1 and len(trues) + len(falses) == len(rets),
              "C19b-single-true", f,
              "there is exactly one 'return True'",
              f"returns: {[ast.unparse(r) for r in rets]}", node=f.node)
    if len(trues) != 1:
        return
    loops = [n for n in ast.walk(f.node) if isinstance(n, ast.For)]
    ctx.require(len(loops) == 1 and ast.unparse(loops[0].iter) ==
                f.params[0], f"{f.qual}: loop over the remaining lines not "
                "found")
    lp = loops[0]
    tn = cfg.node_of(trues[0]).id
    ok = cfg.every_path_passes(cfg.entry.id, tn, {cfg.node_of(lp).id}) and \
        not any(x is trues[0] for x in ast.walk(lp))
    ctx.check(ok, "C19b-true-only-after-all-lines", f,
              "True is returned only after the loop over every remaining "
              "line", "return True can be reached without scanning all "
              "lines", node=trues[0])
    # width mismatch -> False inside loop, unconditional otherwise
    inl = [r for r in falses if any(x is r for x in ast.walk(lp))]
    ok_in = False
    for r in inl:
        gs = [g for g in cfg.guards(r) if any(
            g[0] is s.test for s in ast.walk(lp) if isinstance(s, ast.If))]
        if len(gs) == 1 and gs[0][1] and isinstance(
                gs[0][0], ast.Compare) and isinstance(
                    gs[0][0].ops[0], ast.NotEq):
            ok_in = True
    ctx.check(ok_in, "C19b-mismatch-rejected", f,
              "a line whose field count differs from the header's is "
              "rejected", "no 'if n_col != n_col_header: return False' in "
              "the loop", node=lp)
    # header width and per-line width are computed the same way
    du = DefUse(ctx.prog, f)
    T = Terms(du)
    widths = [n for n in ast.walk(f.node) if isinstance(n, ast.Assign)
              and "len(" in ast.unparse(n.value)
              and ".split(" in ast.unparse(n.value)]
    seps = {ast.unparse(n.value.args[0].args[0]) if isinstance(
        n.value, ast.Call) and n.value.args and isinstance(
            n.value.args[0], ast.Call) and n.value.args[0].args else "?"
        for n in widths}
    ctx.check(len(widths) == 3 and seps == {f.params[1]},
              "C19b-same-width-measure", f,
              "header, second line and every further line are measured by "
              "splitting on the same column separator",
              f"{[ast.unparse(w) for w in widths]}", node=f.node)
    dd = [r for r in falses if any(
        "DefaultDirection" in ast.unparse(g[0]) and g[1]
        for g in cfg.guards(r))]
    ctx.check(len(dd) == 1, "C19b-default-direction-invalid", f,
              "a DefaultDirection second line makes the file invalid",
              "no rejection of a DefaultDirection line", node=f.node)
    # second line width compared too
    second = [r for r in falses if not any(x is r for x in ast.walk(lp))
              and r not in dd]
    ctx.check(len(second) == 1, "C19b-second-line-checked", f,
              "the second line's width is compared with the header's",
              "second line not checked", node=f.node)


def _to_valid(ctx, f):
    prog = ctx.prog
    cfg = CFG(f.node)
    du = DefUse(prog, f)
    T = Terms(du)
    p_in, p_out, p_sepc, p_sepp = f.params[:4]
    writes = [n for n in ast.walk(f.node) if isinstance(n, ast.Call)
              and ast.unparse(n.func) == f"{p_out}.write"]
    ctx.require(len(writes) == 3, f"{f.qual}: expected header write, "
                "second-line write and loop write")
    wh, w2, wl = sorted(writes, key=lambda n: n.lineno)
    hdr = T.of(wh.args[0])
    ok_h = hdr[0] == "bin" and hdr[3] == ("const", "\n") and "next(" in \
        tkey(hdr[2], 100) and not cfg.guards(wh)
    ctx.check(ok_h, "C19b-header-once", f,
              "the header line is written once, first", show(hdr, 100),
              node=wh)
    g2 = cfg.guards(w2)
    ok_2 = len(g2) == 1 and "DefaultDirection" in ast.unparse(g2[0][0]) \
        and ast.unparse(g2[0][0]).startswith("not ") == g2[0][1]
    ctx.check(ok_2, "C19b-second-line", f,
              "the second line is written unless it is a DefaultDirection "
              "line", f"guards: {[ast.unparse(g[0]) for g in g2]}",
              node=w2)
    loops = [n for n in ast.walk(f.node) if isinstance(n, ast.For)]
    ok_l = len(loops) == 1 and ast.unparse(loops[0].iter) == p_in and \
        any(x is wl for x in ast.walk(loops[0])) and not [
            g for g in cfg.guards(wl)] and not any(
            isinstance(x, (ast.Break, ast.Continue, ast.Return))
            for x in ast.walk(loops[0]))
    ctx.check(ok_l, "C19b-every-line-written", f,
              "every further line is converted and written, in order",
              "the loop over the remaining lines skips or stops",
              node=loops[0] if loops else f.node)
    conv = prog.func(PT + "convert_line_pin_to_tsv")
    calls = [n for n in ast.walk(f.node) if isinstance(n, ast.Call)
             and ast.unparse(n.func) == "convert_line_pin_to_tsv"]
    ctx.floor("C19b-converter-calls", len(calls), 2)
    hp = [n for n in ast.walk(f.node) if isinstance(n, ast.Assign)
          and "parse_pin_header_columns" in ast.unparse(n.value)]
    ok_hp = len(hp) == 1 and isinstance(hp[0].targets[0], ast.Tuple)
    names = [e.id for e in hp[0].targets[0].elts] if ok_hp else ["?", "?"]
    for c in calls:
        b = prog.bind(conv, c)
        got = {k: ast.unparse(v) for k, v in b.items()}
        ok = (got.get("n_col") == names[0]
              and got.get("idx_protein_col") == names[1]
              and got.get("sep_column") == p_sepc
              and got.get("sep_protein") == p_sepp)
        ctx.check(ok, "C19b-converter-arguments", f,
                  "the converter gets the header's column count and "
                  "protein index and the caller's separators",
                  f"{got}", node=c)
    # line terminators are removed by stripping, never by position
    for c in calls:
        b = prog.bind(conv, c)
        lt = T.of(b["line"]) if "line" in b else None
        ok = lt is not None and lt[0] == "mcall" and lt[2] in (
            "strip", "rstrip") and (not lt[3] or all(
                a[0] == "const" and isinstance(a[1], str)
                and set(a[1]) <= set("\r\n \t") for a in lt[3]))
        ctx.check(ok, "C19b-line-terminator", f,
                  "the line given to the converter has its terminator "
                  "removed with strip()/rstrip()",
                  f"the line is prepared as {show(lt, 80) if lt else None}:"
                  " removing the terminator by position cuts a character "
                  "off a last line that has no trailing newline", node=c)
    ht = T.of(wh.args[0])
    okh = any(x[0] == "mcall" and x[2] in ("strip", "rstrip")
              for x in walk_term(ht))
    ctx.check(okh, "C19b-line-terminator", f,
              "the header's terminator is removed with strip()/rstrip()",
              f"header is written as {show(ht, 80)}", node=wh)
    # what is written is the converted line + newline
    for w in (w2, wl):
        t = T.of(w.args[0])
        ok = t[0] == "bin" and t[3] == ("const", "\n") and t[2][0] == \
            "call" and t[2][1] == conv.qual
        ctx.check(ok, "C19b-writes-converted-line", f,
                  "what is written is the converted line plus a newline",
                  show(t, 100), node=w)


def _main_verify(ctx, f):
    calls = [n for n in ast.walk(f.node) if isinstance(n, ast.Call)
             and ast.unparse(n.func) == "pin_to_valid_tsv"]
    ctx.require(len(calls) == 1, f"{f.qual}: conversion call not found")
    cfg = CFG(f.node)
    gs = [ast.unparse(g[0]) + ("" if g[1] else " [else]")
          for g in cfg.guards(calls[0])]
    ok = "not valid_tsv" in gs and "config.verify_pin" in gs
    ctx.check(ok, "C19c-convert-only-invalid", f,
              "only files reported invalid are converted, and only when "
              "verification is requested", f"guards: {gs}", node=calls[0])
    v = [n for n in ast.walk(f.node) if isinstance(n, ast.Assign)
         and ast.unparse(n.targets[0]) == "valid_tsv"]
    ok_v = len(v) == 1 and ast.unparse(v[0].value) == "is_valid_tsv(f_pin)"
    ctx.check(ok_v, "C19c-validity-from-predicate", f,
              "validity comes from is_valid_tsv on the same file",
              f"{[ast.unparse(x.value) for x in v]}", node=f.node)
