"""C19 - PIN to rectangular-TSV conversion is lossless, order-preserving and
idempotent."""

from __future__ import annotations

import ast

from ..cfg import CFG
from ..astutil import cond_terms, forced_by, inside, norm_cmp
from ..core import AnalysisError, const_value, walk_own
from ..defuse import DefUse, Terms, show, walk_term
from ..defuse import key as tkey
from ..paths import path_variants
from ..tutil import (EvUnknown, apply_partials, bound_args, ev_term, lin,
                     seq_concat, text_parts)

EXPLANATION = (
    "Static analysis of parsers.pin_to_tsv.convert_line_pin_to_tsv / "
    "is_valid_tsv / pin_to_valid_tsv / parse_pin_header_columns and the "
    "verify step of mokapot.main. (a) field partition: the output fields "
    "are elements[:s] + [join(elements[s:e])] + elements[e:] with "
    "identical boundary expressions, s the protein column index and e - s "
    "== (number of fields - number of header columns) + 1 by linear normal "
    "form, so no field is lost or duplicated wherever the protein column "
    "stands; fields are split and re-joined with the same column "
    "separator, proteins joined with the protein separator. (b) "
    "is_valid_tsv returns True only on the path that leaves the loop over "
    "all remaining lines, and returns False for a DefaultDirection line or "
    "any width mismatch; pin_to_valid_tsv writes the header once, skips "
    "only a DefaultDirection second line and writes every further line, in "
    "order, through the converter with the header's column count and "
    "protein index. (c) the command line writes the temporary file afresh "
    "before moving it over the input (shared with C09). NOT decided: "
    "whitespace handling of str.strip().")
TECHNIQUE = ("slice-partition check (STRIDE) with linear normal form + CFG "
             "return-path analysis + call-argument routing")

PT = "mokapot.parsers.pin_to_tsv."


def run(ctx):
    prog = ctx.prog
    _convert_line(ctx, prog.func(PT + "convert_line_pin_to_tsv"))
    _header(ctx, prog.func(PT + "parse_pin_header_columns"))
    _is_valid(ctx, prog.func(PT + "is_valid_tsv"))
    _to_valid(ctx, prog.func(PT + "pin_to_valid_tsv"))
    from .c09 import _check_input_replacement
    reach = prog.reachable(["mokapot.mokapot.main"])
    _check_input_replacement(ctx, reach)
    _main_verify(ctx, prog.func("mokapot.mokapot.main"))


def _convert_line(ctx, f):
    prog = ctx.prog
    du = DefUse(prog, f)
    T = Terms(du)
    p_line, p_idx, p_ncol, p_sepc, p_sepp = f.params[:5]
    rets = T.returns()
    ctx.require(len(rets) == 1, f"{f.qual}: expected one return")
    rnode, t = rets[0]
    ok = t[0] == "mcall" and t[2] == "join" and t[1] == ("param", p_sepc)
    ctx.check(ok, "C19a-rejoined-with-column-separator", f,
              "fields are re-joined with the column separator",
              f"returns {show(t, 100)}", node=rnode)
    if not ok:
        return
    cols = t[3][0]
    pieces = seq_concat(cols)
    ctx.require(len(pieces) == 3 and [k for k, _x in pieces] == [
        "splice", "item", "splice"], f"{f.qual}: output is not prefix + "
        f"[proteins] + suffix: {show(cols, 160)}")
    pre, mid, suf = pieces[0][1], ("list", (pieces[1][1],)), pieces[2][1]
    split = ("mcall", ("param", p_line), "split", (), (("sep", (
        "param", p_sepc)),))
    split2 = ("mcall", ("param", p_line), "split", (("param", p_sepc),), ())

    def is_elems(x):
        return x in (split, split2)

    ok_pre = pre[0] == "sub" and is_elems(pre[1]) and pre[2][0] == "slice" \
        and pre[2][1] == ("const", None)
    ok_suf = suf[0] == "sub" and is_elems(suf[1]) and suf[2][0] == "slice" \
        and suf[2][2] == ("const", None)
    ok_mid = False
    mid_sl = None
    if mid[0] == "list" and len(mid[1]) == 1:
        j = mid[1][0]
        if j[0] == "mcall" and j[2] == "join" and j[1] == ("param", p_sepp) \
                and j[3] and j[3][0][0] == "sub" and is_elems(j[3][0][1]) \
                and j[3][0][2][0] == "slice":
            ok_mid = True
            mid_sl = j[3][0][2]
    ctx.check(ok_pre and ok_suf and ok_mid, "C19a-three-slices", f,
              "output = fields before the proteins + [proteins joined by "
              "the protein separator] + fields after, all slices of the "
              "line split on the column separator",
              f"{show(cols, 200)}", node=rnode)
    if not (ok_pre and ok_suf and ok_mid):
        return
    s1, s2 = pre[2][2], mid_sl[1]
    e1, e2 = mid_sl[2], suf[2][1]
    ctx.check(s1 == s2 and e1 == e2, "C19a-partition-boundaries", f,
              "the three slices share their boundaries (no field lost or "
              "duplicated)",
              f"prefix ends at {show(s1, 40)}, proteins span "
              f"{show(s2, 40)}..{show(e1, 40)}, suffix starts at "
              f"{show(e2, 40)}", node=rnode)
    key = (lambda x: tkey(x, 300))
    ls, le = lin(s2, key), lin(e1, key)
    ok_s = ls.const == 0 and ls.atoms == {p_idx: 1}
    ctx.check(ok_s, "C19a-proteins-start-at-protein-column", f,
              "the protein block starts at the protein column index",
              f"start = {ls!r}", node=rnode)
    width = le + ls.scale(-1)
    elems_len = [k for k in width.atoms if k.startswith("len(")]
    ok_w = (width.const == 1 and len(width.atoms) == 2
            and width.atoms.get(p_ncol) == -1 and len(elems_len) == 1
            and width.atoms[elems_len[0]] == 1
            and ".split(" in elems_len[0])
    ctx.check(ok_w, "C19a-protein-block-width", f,
              "protein block width = (number of fields - header columns) "
              "+ 1", f"end - start = {width!r}", node=rnode)


def _header(ctx, f):
    prog = ctx.prog
    du = DefUse(prog, f)
    T = Terms(du)
    rets = T.returns()
    ctx.require(len(rets) == 1, f"{f.qual}: expected one return")
    t = rets[0][1]
    ok = False
    if t[0] == "tuple" and len(t[1]) == 2:
        n, i = t[1]
        cols = ("mcall", ("mcall", ("param", f.params[0]), "strip", (), ()),
                "split", (("param", f.params[1]),), ())
        ok = n == ("call", "builtins.len", (cols,), ()) and i == (
            "mcall", cols, "index", (("const", "Proteins"),), ())
    ctx.check(ok, "C19a-header-facts", f,
              "(column count, index of 'Proteins') of the header split on "
              "the column separator", f"returns {show(t, 160)}",
              node=rets[0][0])


def _is_valid(ctx, f):
    """Semantic conditions of every return (term form, so temporaries,
    early-return style and chaining the second line into the loop do not
    matter)."""
    prog = ctx.prog
    cfg = CFG(f.node)
    T = Terms(DefUse(prog, f))
    p_in, p_sep = f.params[:2]
    NEXT = ("call", "builtins.next", (("param", p_in),), ())

    def width(x):
        return ("call", "builtins.len",
                (("mcall", x, "split", (("param", p_sep),), ()),), ())

    rets = [n for n in ast.walk(f.node) if isinstance(n, ast.Return)]
    trues = [r for r in rets if const_value(r.value) is True]
    falses = [r for r in rets if const_value(r.value) is False]
    alls = [r for r in rets if r.value is not None and T.of(r.value)[:2] ==
            ("call", "builtins.all")]
    if len(alls) == 1 and not trues and len(falses) + 1 == len(rets):
        _is_valid_all_form(ctx, f, T, cfg, alls[0], falses, NEXT, width)
        return
    ctx.check(len(trues) == 1 and len(trues) + len(falses) == len(rets),
              "C19b-single-true", f,
              "there is exactly one 'return True'",
              f"returns: {[ast.unparse(r) for r in rets]}", node=f.node)
    if len(trues) != 1:
        return
    loops = [n for n in walk_own(f.node) if isinstance(n, ast.For)]
    CHAIN = ("call", "itertools.chain",
             (("list", (NEXT,)), ("param", p_in)), ())
    partial = []

    def line_source(t):
        """(element term, first index) of the accepted loop forms"""
        if t in (("param", p_in), CHAIN):
            return ("elem", t), None
        if t[0] == "mcall" and t[1] == ("param", p_in) and \
                t[2] == "readlines":
            # readlines() is every remaining line; readlines(hint) stops
            # after about ``hint`` bytes
            if t[3] or t[4]:
                partial.append(t)
            return ("elem", t), None
        if t[0] == "call" and t[1] == "builtins.enumerate" and \
                t[2][:1] == (("param", p_in),):
            st = dict(t[3]).get("start", t[2][1] if len(t[2]) > 1
                                else ("const", 0))
            if st[0] == "const" and isinstance(st[1], int):
                return ("elem", ("param", p_in)), st[1]
        return None

    loops = [n for n in loops if line_source(T.of(n.iter)) is not None]
    ctx.require(len(loops) == 1, f"{f.qual}: loop over the remaining lines "
                "not found")
    lp = loops[0]
    IT = T.of(lp.iter)
    LINE, START = line_source(IT)
    n_next = len([n for n in walk_own(f.node) if isinstance(n, ast.Call)
                  and T.of(n) == NEXT and not inside(n, lp)])
    ctx.require(n_next in (1, 2), f"{f.qual}: {n_next} lines are read "
                "before the loop; rule C19b needs re-reading")
    tn = cfg.node_of(trues[0]).id
    ok = cfg.every_path_passes(cfg.entry.id, tn, {cfg.node_of(lp).id}) and \
        not inside(trues[0], lp)
    ctx.check(ok and not partial, "C19b-true-only-after-all-lines", f,
              "True is returned only after the loop over every remaining "
              "line",
              ("the loop reads " + show(partial[0], 60) + ": a size hint "
               "ends the read early, lines beyond it are never examined"
               if partial else
               "return True can be reached without scanning all lines"),
              node=trues[0])

    def conds(r, region=None):
        out = []
        for t, o in cfg.necessary_conditions(r):
            if region is not None and not inside(t, region):
                continue
            tt = T.of(t)
            while tt[0] == "un" and tt[1] == "not":
                tt, o = tt[2], not o
            out.append(norm_cmp(tt, o) or (tt, o))
        return out

    def mismatch(c, a, b):
        return c[0] == "ne" and {c[1], c[2]} == {a, b}

    W_HDR = width(NEXT)
    inl = [r for r in falses if inside(r, lp)]

    def rejected_in_loop(wline, dd_line, k):
        def atoms(t):
            if t == ("idx", ("param", p_in)):
                return (START or 0) + k
            if t == ("mcall", LINE, "startswith",
                     (("const", "DefaultDirection"),), ()):
                return dd_line
            if t == width(LINE):
                return wline
            if t == W_HDR:
                return 5
            raise KeyError(t)
        for r in inl:
            if all(bool(ev_term(T.of(t), atoms)) == o
                   for t, o in cfg.necessary_conditions(r)
                   if inside(t, lp)):
                return True
        return False

    bad = []
    try:
        for k in (0, 1, 4):
            for wl in (4, 5, 6):
                got = rejected_in_loop(wl, False, k)
                if got != (wl != 5):
                    bad.append({"pass": k, "fields": wl, "header": 5,
                                "rejected": got})
    except (EvUnknown, KeyError) as e:
        bad.append(f"a rejection in the loop depends on {str(e)[:80]}")
    ok_in = not bad and bool(inl)
    ctx.check(ok_in, "C19b-mismatch-rejected", f,
              "a line is rejected iff its field count differs from the "
              "header's (9 valuations)",
              f"deviates: {bad[:3]}", node=lp)
    ctx.check(ok_in, "C19b-same-width-measure", f,
              "header and every further line are measured by splitting on "
              "the same column separator",
              "the widths compared in the loop are not len(x.split("
              f"{p_sep})) of the line and of the header", node=lp)
    def DD(x):
        return ("mcall", x, "startswith", (("const", "DefaultDirection"),),
                ())

    if n_next == 2:
        dd = [r for r in falses if not inside(r, lp) and forced_by(
            cfg, T, r, trues[0],
            lambda a: True if a == DD(NEXT) else None)]
        why = "no rejection of a DefaultDirection second line"
    else:
        # the loop's first pass sees the second line: a DefaultDirection
        # line there (with the right number of fields) must be rejected
        def atoms(t):
            if t == ("idx", ("param", p_in)):
                return START or 0
            if t == DD(LINE):
                return True
            if t == width(LINE):
                return 5
            if t == W_HDR:
                return 5
            raise KeyError(t)
        dd = []
        for r in inl:
            try:
                if all(bool(ev_term(T.of(t), atoms)) == o
                       for t, o in cfg.necessary_conditions(r)
                       if inside(t, lp)):
                    dd.append(r)
            except (EvUnknown, KeyError):
                pass
        why = ("in the loop's first pass (the file's second line, index "
               f"{START or 0}) a DefaultDirection line is not rejected: "
               f"{[cfg.conditions(r) for r in inl]}")
    ctx.check(len(dd) >= 1, "C19b-default-direction-invalid", f,
              "a DefaultDirection second line makes the file invalid",
              why, node=f.node)
    # second line: seen by the loop, chained into it, or compared on its own
    MIS = norm_cmp(("cmp", "!=", W_HDR, W_HDR), True)
    second = [r for r in falses if not inside(r, lp) and forced_by(
        cfg, T, r, trues[0], lambda a: True if a == MIS else None)]
    ctx.check(IT == CHAIN or n_next == 1 or len(second) >= 1,
              "C19b-second-line-checked", f,
              "the second line's width is compared with the header's",
              "second line not checked", node=f.node)


def _is_valid_all_form(ctx, f, T, cfg, ret, falses, NEXT, width):
    """is_valid_tsv written as  return all(width(line) == header width for
    line in <all remaining lines>)."""
    p_in = f.params[0]
    t = T.of(ret.value)
    comp = t[2][0] if t[2] else ("x",)
    chains = [("call", "itertools.chain", ((k, (NEXT,)), ("param", p_in)),
               ()) for k in ("list", "tuple")]
    ok = comp[0] == "comp" and len(comp[3]) == 1 and not comp[3][0][2]
    IT = comp[3][0][1] if ok else None
    ctx.check(ok and (IT == ("param", p_in) or IT in chains),
              "C19b-true-only-after-all-lines", f,
              "True is returned only when every remaining line passes",
              f"all(...) ranges over {show(IT, 80) if IT else None}",
              node=ret)
    ctx.check(True, "C19b-single-true", f,
              "validity is the conjunction over all lines", "")
    c = norm_cmp(comp[2], True) if ok else None
    W_HDR = width(NEXT)
    ok_in = c is not None and c[0] == "eq" and {c[1], c[2]} == {
        width(("elem", IT)), W_HDR}
    ctx.check(ok_in, "C19b-mismatch-rejected", f,
              "a line is accepted iff its field count equals the header's",
              f"per-line test is {show(comp[2], 120) if ok else None}",
              node=ret)
    ctx.check(ok_in, "C19b-same-width-measure", f,
              "header and every further line are measured by splitting on "
              "the same column separator", "", node=ret)
    DD = ("mcall", NEXT, "startswith", (("const", "DefaultDirection"),), ())
    dd = [r for r in falses
          if forced_by(cfg, T, r, ret, lambda a: True if a == DD else None)]
    ctx.check(len(dd) >= 1 and cfg.every_path_passes(
        cfg.entry.id, cfg.node_of(ret).id,
        {cfg.node_of(cfg.stmt_of(t_)).id
         for r in dd for t_, _o in cfg.necessary_conditions(r)}),
        "C19b-default-direction-invalid", f,
        "a DefaultDirection second line makes the file invalid",
        "no rejection of a DefaultDirection line", node=f.node)
    n_next = len([n for n in walk_own(f.node) if isinstance(n, ast.Call)
                  and T.of(n) == NEXT])
    W2 = width(NEXT)      # both next(f_in) calls render alike: the second
    MIS = norm_cmp(("cmp", "!=", W2, W_HDR), True)
    explicit = [r for r in falses if forced_by(
        cfg, T, r, ret, lambda a: True if a == MIS else None)]
    ctx.check(IT in chains or n_next == 1 or explicit,
              "C19b-second-line-checked", f,
              "the second line's width is compared with the header's",
              "second line not checked", node=f.node)


def _strip_of(t, base=None):
    """x of x.strip() / x.rstrip('\\n') ...; None otherwise"""
    if t[0] == "mcall" and t[2] in ("strip", "rstrip") and (
            not t[3] or all(a[0] == "const" and isinstance(a[1], str)
                            and set(a[1]) <= set("\r\n \t")
                            for a in t[3])):
        return t[1]
    return None


def _to_valid(ctx, f):
    prog = ctx.prog
    cfg = CFG(f.node)
    du = DefUse(prog, f)
    T = Terms(du)
    p_in, p_out, p_sepc, p_sepp = f.params[:4]
    NEXT = ("call", "builtins.next", (("param", p_in),), ())
    NL = ("const", "\n")
    conv = prog.func(PT + "convert_line_pin_to_tsv")
    writes = [n for n in ast.walk(f.node) if isinstance(n, ast.Call)
              and isinstance(n.func, ast.Attribute)
              and n.func.attr == "write" and T.of(n.func.value) == (
                  "param", p_out) and len(n.args) == 1]
    ctx.require(len(writes) in (2, 3), f"{f.qual}: expected header write, "
                "second-line write and loop write (or header write and one "
                "loop over second line + rest)")
    chained = len(writes) == 2
    facts = []
    for w in writes:
        t = apply_partials(T.of(w.args[0]))
        cs = []
        for c, o in cond_terms(cfg, T, w):
            cs.append((c, o))
        lp = cfg.enclosing(w, (ast.For, ast.While))
        facts.append({"node": w, "term": t, "conds": cs, "loop": lp})
    def line_of(t):
        """X when the text written is X followed by one newline, however
        it is put together (+, f-string, % or format)"""
        ps = text_parts(t)
        if len(ps) == 2 and ps[1] == NL:
            return ps[0]
        return None

    hdrs = [x for x in facts if line_of(x["term"]) is not None
            and _strip_of(line_of(x["term"])) == NEXT]
    ok_h = len(hdrs) == 1 and not hdrs[0]["conds"] and \
        hdrs[0]["loop"] is None and all(
            cfg.every_path_passes(
                cfg.entry.id, cfg.node_of(cfg.stmt_of(x["node"])).id,
                {cfg.node_of(cfg.stmt_of(hdrs[0]["node"])).id})
            for x in facts if x is not hdrs[0])
    ctx.check(ok_h, "C19b-header-once", f,
              "the header line is written once, first",
              f"{[show(x['term'], 100) for x in facts]}",
              node=writes[0])
    ctx.check(ok_h, "C19b-line-terminator", f,
              "the header's terminator is removed with strip()/rstrip()",
              f"header is written as {[show(x['term'], 80) for x in hdrs]}",
              node=writes[0])
    others = [x for x in facts if not (hdrs and x is hdrs[0])]
    HP = None
    for x in others:
        t = x["term"]
        body = line_of(t)
        ok = body is not None and body[0] == "call" and \
            body[1] == conv.qual
        ctx.check(ok, "C19b-writes-converted-line", f,
                  "what is written is the converted line plus a newline",
                  show(t, 100), node=x["node"])
        if not ok:
            continue
        b = bound_args(prog, body) or {}
        x["line"] = b.get("line")
        nc, ic = b.get("n_col"), b.get("idx_protein_col")
        ok = (nc is not None and ic is not None and nc[0] == "item"
              and ic[0] == "item" and nc[1] == ic[1] and (nc[2], ic[2]) ==
              (0, 1) and nc[1][0] == "call" and nc[1][1] == PT +
              "parse_pin_header_columns"
              and b.get("sep_column") == ("param", p_sepc)
              and b.get("sep_protein") == ("param", p_sepp))
        if ok:
            hb = bound_args(prog, nc[1]) or {}
            ok = _strip_of(hb.get("header", ("x",))) == NEXT and \
                hb.get("sep_column") == ("param", p_sepc)
        ctx.check(ok, "C19b-converter-arguments", f,
                  "the converter gets the header's column count and "
                  "protein index and the caller's separators",
                  f"{ {k: show(v, 60) for k, v in b.items()} }",
                  node=x["node"])
        src = _strip_of(x["line"]) if x.get("line") else None
        ctx.check(src is not None, "C19b-line-terminator", f,
                  "the line given to the converter has its terminator "
                  "removed with strip()/rstrip()",
                  "the line is prepared as "
                  f"{show(x['line'], 80) if x.get('line') else None}:"
                  " removing the terminator by position cuts a character "
                  "off a last line that has no trailing newline",
                  node=x["node"])
        x["src"] = src
    if chained:
        _to_valid_chained(ctx, f, prog, cfg, others, NEXT, p_in)
        return
    seconds = [x for x in others if x.get("src") == NEXT]
    DD = ("mcall", ("mcall", NEXT, "strip", (), ()), "startswith",
          (("const", "DefaultDirection"),), ())

    def is_dd(c):
        return c[0] == "mcall" and c[2] == "startswith" and c[3] == (
            ("const", "DefaultDirection"),) and (
                c[1] == NEXT or _strip_of(c[1]) == NEXT)

    ok_2 = len(seconds) == 1 and seconds[0]["loop"] is None and [
        (is_dd(c), o) for c, o in seconds[0]["conds"]] == [(True, False)]
    ctx.check(ok_2, "C19b-second-line", f,
              "the second line is written unless it is a DefaultDirection "
              "line",
              f"second-line writes: {[(show(x['term'], 60), [(show(c, 60), o) for c, o in x['conds']]) for x in seconds]}",
              node=writes[0])
    rest = [x for x in others if x.get("src") == ("elem", ("param", p_in))]
    ok_l = len(rest) == 1 and rest[0]["loop"] is not None and \
        T.of(rest[0]["loop"].iter) == ("param", p_in) and \
        not rest[0]["conds"] and not any(
            isinstance(n, (ast.Break, ast.Continue, ast.Return))
            for n in ast.walk(rest[0]["loop"]))
    ctx.check(ok_l, "C19b-every-line-written", f,
              "every further line is converted and written, in order",
              "the loop over the remaining lines skips or stops",
              node=rest[0]["node"] if rest else f.node)


def _to_valid_chained(ctx, f, prog, cfg, others, NEXT, p_in):
    """One loop writes the second line and the rest: its iterable is
    chain((second line,), f_in) unless the second line is a
    DefaultDirection line, then f_in alone."""
    ok = len(others) == 1 and others[0]["loop"] is not None
    lp = others[0]["loop"] if ok else None
    seen = {}
    if ok:
        for v in path_variants(f.node):
            vT = Terms(DefUse(prog, f, fnode=v.fnode))
            flag = None
            for t, o in v.conds:
                tt = vT.of(t)
                while tt[0] == "un" and tt[1] == "not":
                    tt, o = tt[2], not o
                if tt[0] == "mcall" and tt[2] == "startswith" and tt[3] == (
                        ("const", "DefaultDirection"),) and (
                            tt[1] == NEXT or _strip_of(tt[1]) == NEXT):
                    flag = o
            vl = [n for n in walk_own(v.fnode) if isinstance(n, ast.For)]
            if len(vl) != 1:
                ok = False
                break
            it = vT.of(vl[0].iter)
            for fl in ([flag] if flag is not None else [True, False]):
                seen.setdefault(fl, set()).add(it)
    F_IN = ("param", p_in)
    SECOND = None
    ok_2 = False
    if ok and seen.get(True) == {F_IN} and len(seen.get(False, ())) == 1:
        it = next(iter(seen[False]))
        if it[0] == "call" and it[1] == "itertools.chain" and \
                len(it[2]) == 2 and it[2][1] == F_IN and \
                it[2][0][0] in ("tuple", "list") and len(it[2][0][1]) == 1:
            SECOND = it[2][0][1][0]
            ok_2 = SECOND == NEXT or _strip_of(SECOND) == NEXT
    ctx.check(ok_2, "C19b-second-line", f,
              "the second line is written (first) unless it is a "
              "DefaultDirection line",
              f"lines looped over: { {k: [show(x, 80) for x in v] for k, v in seen.items()} }",
              node=lp or f.node)
    x = others[0] if others else None
    ok_l = ok and x is not None and not x["conds"] and not any(
        isinstance(n, (ast.Break, ast.Continue, ast.Return))
        for n in ast.walk(lp)) and x.get("src") is not None and \
        x["src"][0] == "elem"
    ctx.check(ok_l, "C19b-every-line-written", f,
              "every further line is converted and written, in order",
              "the loop over the remaining lines skips or stops",
              node=lp or f.node)


def _main_verify(ctx, f):
    """Where is the in-place conversion called, and under which conditions
    (collected along the call chain down from main)?"""
    prog = ctx.prog
    reach = prog.reachable([f.qual])
    sites = []
    for q in sorted(reach):
        g = prog.funcs.get(q)
        if g is None or isinstance(g.node, ast.Lambda) or \
                q.startswith(PT):
            continue
        for n in walk_own(g.node):
            if isinstance(n, ast.Call) and isinstance(
                    n.func, (ast.Name, ast.Attribute)) and ast.unparse(
                        n.func).split(".")[-1] == "pin_to_valid_tsv":
                sites.append((g, n))
    ctx.require(len(sites) == 1, f"{f.qual}: expected one call of the "
                f"conversion on the analysis path, found {len(sites)}")
    g, call = sites[0]

    def chain_conds(fn, node, depth=0):
        cfg_ = CFG(fn.node)
        T_ = Terms(DefUse(prog, fn))
        cs = list(cond_terms(cfg_, T_, node))
        if fn.qual != f.qual and depth < 4:
            callers = [(c, n_) for c, n_, _k in prog.callers_of(fn.qual)
                       if c.qual in reach or c.qual == f.qual]
            ctx.require(len(callers) == 1, f"{fn.qual}: called from "
                        f"{len(callers)} places; rule C19c needs re-reading")
            cs += chain_conds(callers[0][0], callers[0][1], depth + 1)
        return cs

    cs = chain_conds(g, call)
    T = Terms(DefUse(prog, g))
    verify = [c for c, o in cs if o and c[0] == "attr"
              and c[2] == "verify_pin"]
    invalid = [c for c, o in cs if not o and c[0] == "call"
               and c[1] == PT + "is_valid_tsv"]
    ctx.check(bool(verify) and bool(invalid), "C19c-convert-only-invalid", f,
              "only files reported invalid are converted, and only when "
              "verification is requested",
              f"conditions: {[(show(c, 80), o) for c, o in cs]}",
              node=call)
    ok_v = False
    if invalid:
        b = bound_args(prog, T.of(call)) or {}
        src = b.get("f_in")
        chk = invalid[0][2][0] if invalid[0][2] else None

        def opened(t):
            if t and t[0] == "with" and t[1][0] == "call" and \
                    t[1][1] in ("builtins.open", "open") and t[1][2]:
                return t[1][2][0]
            return None
        ok_v = opened(src) is not None and opened(src) == opened(chk)
    ctx.check(ok_v, "C19c-validity-from-predicate", f,
              "validity comes from is_valid_tsv on the same file that is "
              "converted",
              f"conditions: {[(show(c, 120), o) for c, o in cs]}",
              node=call)
