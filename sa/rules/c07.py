"""C07 - best-feature safety net."""

from __future__ import annotations

import ast

from ..astutil import inside, norm_cmp
from ..tutil import normalise
from ..cfg import CFG
from ..core import AnalysisError, const_value
from ..defuse import DefUse, Terms, show, walk_term
from ..defuse import key as tkey
from ..flow import Flow
from ..paths import path_variants

EXPLANATION = (
    "Static analysis of the tail of brew.brew, model._get_starting_labels, "
    "Model.fit, both find-best-feature loops, every call site of "
    "dataset._update_labels and confidence.assign_confidence. (a) the "
    "fallback: the per-model record is [best_feat, feat_pass, desc] of one "
    "model, the winner is the arg-max of the accepted counts, the model's "
    "count is taken at the caller's test_fdr from the same scores, the "
    "comparison guards the replacement, and on the fallback branch scores "
    "are read from the column named by - and descs built from the "
    "direction in - the same winning record; otherwise descs are True; an "
    "all-override model list never falls back. The record itself is "
    "consistent: _get_starting_labels returns (labels, count, name, "
    "direction) of one direction on every path and Model.fit unpacks them "
    "in that order; both best-feature loops scan both directions without "
    "early exit and update feature, count, labels and direction together. "
    "(b) label encoding (TAINT): every label vector reaching "
    "_update_labels / the dataset constructor passed through "
    "utils.convert_targets_column (or is a dataset's own boolean targets). "
    "(c) direction honoured downstream (FLAG): each element of descs given "
    "to assign_confidence must influence the ranking. NOT decided: whether "
    "training fails for a given dataset.")
TECHNIQUE = ("def-use term matching + source/sanitiser/sink taint over call "
             "sites + inter-procedural flag routing + sibling agreement")

UL = "mokapot.dataset._update_labels"
CONV = "mokapot.utils.convert_targets_column"


def run(ctx):
    prog = ctx.prog
    _fallback(ctx, prog.func("mokapot.brew.brew"))
    _starting_labels(ctx, prog.func("mokapot.model._get_starting_labels"),
                     prog.func("mokapot.model.Model.fit"))
    for q in ("mokapot.dataset.PsmDataset._find_best_feature",
              "mokapot.dataset.OnDiskPsmDataset.find_best_feature"):
        _best_feature_loop(ctx, prog.func(q))
    _label_taint(ctx)
    _direction_downstream(ctx)


# ------------------------------------------------------------------ a
def _fallback(ctx, f):
    prog = ctx.prog
    du = DefUse(prog, f)
    T = Terms(du, phi_vars=True)
    cfg = CFG(f.node)
    bf = [n for n in ast.walk(f.node) if isinstance(n, ast.Assign)
          and ast.unparse(n.targets[0]) == "best_feats"]
    ctx.require(len(bf) == 1 and isinstance(bf[0].value, ast.ListComp)
                and isinstance(bf[0].value.elt, ast.List),
                f"{f.qual}: best_feats record list not found")
    rec = bf[0].value
    var = rec.generators[0].target.id
    fields = [ast.unparse(e) for e in rec.elt.elts]
    ok = fields == [f"{var}.best_feat", f"{var}.feat_pass", f"{var}.desc"] \
        and ast.unparse(rec.generators[0].iter) == "models"
    ctx.check(ok, "C07a-record", f,
              "per-model record is [best_feat, feat_pass, desc] of one model",
              f"record is {fields} over "
              f"{ast.unparse(rec.generators[0].iter)}", node=bf[0])
    # arg-max over the counts
    am = [n for n in ast.walk(f.node) if isinstance(n, ast.Assign)
          and isinstance(n.targets[0], ast.Tuple)
          and isinstance(n.value, ast.Call)
          and ast.unparse(n.value.func) in ("max", "min")]
    ctx.require(len(am) == 1, f"{f.qual}: arg-max over best_feats not found")
    tg = [ast.unparse(e) for e in am[0].targets[0].elts]
    call = am[0].value
    key = {k.arg: ast.unparse(k.value) for k in call.keywords}.get("key")
    arg = ast.unparse(call.args[0]) if call.args else ""
    ok = (len(tg) == 2 and key == "itemgetter(1)"
          and ast.unparse(call.func) == "max"
          and arg == "enumerate(map(itemgetter(1), best_feats))")
    ctx.check(ok, "C07a-argmax-of-counts", f,
              "the winning record is the arg-max of the accepted counts "
              "(field 1 = feat_pass)",
              f"{ast.unparse(am[0])[:140]}", node=am[0])
    idx_name, tot_name = tg if len(tg) == 2 else ("?", "?")
    # comparison guards the fallback
    ifs = [n for n in ast.walk(f.node) if isinstance(n, ast.If)
           and isinstance(n.test, ast.Compare)
           and tot_name in ast.unparse(n.test)]
    ctx.require(len(ifs) == 1, f"{f.qual}: fallback comparison not found")
    fb = ifs[0]
    test = fb.test
    l, op, r = ast.unparse(test.left), type(test.ops[0]).__name__, \
        ast.unparse(test.comparators[0])
    pred_name = r if l == tot_name else l
    ok = (l == tot_name and op in ("Gt",)) or (r == tot_name and op == "Lt")
    ctx.check(ok, "C07a-comparison", f,
              "fallback iff the best feature accepted strictly more targets "
              "than the learned scores",
              f"comparison is '{ast.unparse(test)}'", node=fb)
    # pred_total = sum of (pred == 1).sum() over update_labels(...) results
    pt = T.of([n for n in ast.walk(test) if isinstance(n, ast.Name)
               and n.id == pred_name][0])
    ul_calls = [x for x in walk_term(pt)
                if x[0] == "call" and x[1] == "mokapot.dataset.update_labels"]
    ok_pt = bool(ul_calls) and any(
        x[0] == "cmp" and x[1] == "==" and x[3] == ("const", 1)
        for x in walk_term(pt))
    ctx.check(ok_pt, "C07a-model-count", f,
              "the learned scores' count is the number of labels == 1 from "
              "update_labels", f"pred_total = {show(pt, 160)}", node=fb)
    if ul_calls:
        ulf = prog.func("mokapot.dataset.update_labels")
        c = ul_calls[0]
        bound = dict(zip(ulf.params, c[2]))
        bound.update(dict(c[3]))
        fdr = bound.get("eval_fdr")
        ctx.check(fdr == ("param", "test_fdr"), "C07a-count-at-test-fdr", f,
                  "the learned scores are counted at the caller's test_fdr",
                  "update_labels is evaluated at "
                  f"{show(fdr, 40) if fdr else 'its default eval_fdr'}, not "
                  "at brew's test_fdr: the comparison with the best feature "
                  "is made at the wrong threshold", node=fb)
        sc = bound.get("scores")
        ok_sc = sc is not None and sc[0] == "zipelem" and sc[1] == 1 and \
            tkey(sc[2][0]) == "psms" or (sc is not None and "scores" in
                                         tkey(sc, 200))
        tc = bound.get("target_column")
        fn = bound.get("file_name")
        ok_cols = (tc is not None and tkey(tc).endswith(".target_column")
                   and fn is not None and tkey(fn).endswith(".filename"))
        ctx.check(ok_sc and ok_cols, "C07a-count-same-collection", f,
                  "each collection's scores are labelled against that "
                  "collection's own file and label column",
                  f"update_labels({show(fn, 40) if fn else None}, "
                  f"{show(sc, 40) if sc else None}, "
                  f"{show(tc, 40) if tc else None})", node=fb)
        desc_a = bound.get("desc")
        ctx.check(desc_a is None or desc_a == ("const", True),
                  "C07a-model-scores-descending", f,
                  "learned scores are counted with higher = better",
                  f"desc={show(desc_a, 40) if desc_a else None}", node=fb)
    # fallback branch
    body_assign = {}
    for s in fb.body:
        if isinstance(s, ast.Assign):
            body_assign[ast.unparse(s.targets[0])] = s
    unpack = [s for s in fb.body if isinstance(s, ast.Assign)
              and isinstance(s.targets[0], ast.Tuple)]
    ok_u = False
    feat_n = desc_n = None
    if len(unpack) == 1:
        names = [ast.unparse(e) for e in unpack[0].targets[0].elts]
        src = ast.unparse(unpack[0].value)
        if len(names) == 3 and src == f"best_feats[{idx_name}]":
            feat_n, desc_n = names[0], names[2]
            ok_u = True
    ctx.check(ok_u, "C07a-winning-record-used", f,
              "feature name and direction are unpacked from the winning "
              "record (fields 0 and 2)",
              f"{[ast.unparse(u) for u in unpack]}", node=fb)
    if ok_u:
        d = body_assign.get("descs")
        ok_d = d is not None and ast.unparse(d.value) in (
            f"[{desc_n}] * len(psms)", f"len(psms) * [{desc_n}]",
            f"[{desc_n} for _ in psms]")
        ctx.check(ok_d, "C07a-fallback-direction", f,
                  "on fallback every collection gets the winning feature's "
                  "direction",
                  f"descs = {ast.unparse(d.value) if d else None}", node=fb)
        s = body_assign.get("scores")
        ok_s = False
        why = ast.unparse(s.value)[:120] if s else "scores not replaced"
        if s is not None and isinstance(s.value, ast.ListComp):
            e = s.value.elt
            txt = ast.unparse(e)
            v = s.value.generators[0].target.id
            ok_s = (ast.unparse(s.value.generators[0].iter) == "psms"
                    and f"columns=[{feat_n}]" in txt.replace(" ", "")
                    .replace("columns=[", "columns=[")
                    and txt.startswith(f"{v}.read_data("))
        ctx.check(ok_s, "C07a-fallback-scores", f,
                  "on fallback the scores are that feature's column of each "
                  "collection", why, node=fb)
    else_assign = {ast.unparse(s.targets[0]): s for s in fb.orelse
                   if isinstance(s, ast.Assign)}
    d = else_assign.get("descs")
    ok_e = d is not None and ast.unparse(d.value) in (
        "[True] * len(psms)", "len(psms) * [True]") and \
        "scores" not in else_assign
    ctx.check(ok_e, "C07a-model-direction", f,
              "without fallback the learned scores are kept and ranked "
              "higher = better",
              f"else-branch: { {k: ast.unparse(v.value) for k, v in else_assign.items()} }",
              node=fb)
    # override: all models forced -> feat_total = 0 (never falls back)
    ov = cfg.guards(am[0])
    from ..astutil import guard_says
    ok_o = guard_says(ov, "all([m.override for m in models])", False)
    zero = [n for n in ast.walk(f.node) if isinstance(n, ast.Assign)
            and ast.unparse(n.targets[0]) == tot_name
            and const_value(n.value) == 0]
    ctx.check(ok_o and len(zero) == 1, "C07a-override", f,
              "the comparison is skipped (count 0) only when every model is "
              "forced", f"guards: {[ast.unparse(g[0]) for g in ov]}",
              node=am[0])
    # failed training -> zero scores
    z = [n for n in ast.walk(f.node) if isinstance(n, ast.Assign)
         and ast.unparse(n.targets[0]) == "scores"
         and "np.zeros" in ast.unparse(n.value)]
    ctx.check(len(z) == 1 and ast.unparse(z[0].value) ==
              "[np.zeros(x) for x in data_size]", "C07a-untrained-zeros", f,
              "untrained fold models yield all-zero scores (so any feature "
              "that accepts a target wins the comparison)",
              f"{[ast.unparse(x.value) for x in z]}", node=f.node)
    # the comparison happens on every path before returning
    rets = [n for n in ast.walk(f.node) if isinstance(n, ast.Return)]
    ok_r = all(cfg.every_path_passes(cfg.entry.id, cfg.node_of(r).id,
                                     {cfg.node_of(fb).id}) for r in rets)
    ctx.check(ok_r, "C07a-comparison-on-every-path", f,
              "every return of brew passes the model-versus-feature "
              "comparison", "a path returns scores without the comparison",
              node=fb)


def _starting_labels(ctx, f, fit):
    prog = ctx.prog
    du = DefUse(prog, f)
    T = Terms(du)
    # Model.fit takes labels, count, feature name and direction from the
    # matching positions of the result (the roles of the four positions are
    # established per path below)
    fdu = DefUse(prog, fit)
    fT = Terms(fdu)
    GSL = f.qual

    def from_result(t):
        """position i when t is item i of _get_starting_labels(...)"""
        if t[0] == "item" and t[1][0] == "call" and t[1][1] == GSL:
            return t[2]
        return None

    stored = {}
    for (r, a_, v, st) in fdu.attr_stores:
        if r == "self" and a_ in ("feat_pass", "best_feat", "desc"):
            pos = from_result(fT.of(v))
            if pos is None and isinstance(st, ast.Assign) and isinstance(
                    st.targets[0], (ast.Tuple, ast.List)):
                # (labels, self.feat_pass, ...) = _get_starting_labels(...)
                vt = fT.of(st.value)
                if vt[0] == "call" and vt[1] == GSL:
                    for i, el in enumerate(st.targets[0].elts):
                        if isinstance(el, ast.Attribute) and el.attr == a_ \
                                and isinstance(el.value, ast.Name) and \
                                el.value.id == "self":
                            pos = i
            stored.setdefault(a_, []).append((pos, st))
    want_pos = {"feat_pass": 1, "best_feat": 2, "desc": 3}
    ok = all(len(stored.get(a_, [])) == 1 and stored[a_][0][0] == i
             for a_, i in want_pos.items())
    ctx.check(ok, "C07a-fit-unpacks-in-order", fit,
              "Model.fit stores count, feature name and direction from the "
              "matching positions of _get_starting_labels' result",
              "stored from positions "
              f"{ {a_: [p_ for p_, _s in v] for a_, v in stored.items()} }; "
              f"expected {want_pos}", node=fit.node)
    # one variant per path through the branches that set the result: the
    # labels, count, name and direction returned on a path are judged
    # together
    facts = []
    for v in path_variants(f.node):
        vdu = DefUse(prog, f, fnode=v.fnode)
        vT = Terms(vdu)
        rs = [t for _r, t in vT.returns()]
        if not rs:
            continue
        ctx.require(len(rs) == 1 and rs[0][0] == "tuple"
                    and len(rs[0][1]) == 4,
                    f"{f.qual}: a path does not return a 4-tuple")
        lab, cnt, name, desc = (normalise(x) for x in rs[0][1])
        conds = []
        for test, outcome in v.conds:
            t = normalise(vT.of(test))
            while t[0] == "un" and t[1] == "not":
                t, outcome = t[2], not outcome
            conds.append(norm_cmp(t, outcome) or (t, outcome))
        facts.append({"lab": lab, "cnt": cnt, "name": name, "desc": desc,
                      "conds": conds,
                      "where": [ast.unparse(t)[:50] + f"={o}"
                                for t, o in v.conds]})
    ctx.floor("C07a-starting-label-paths", len(facts), 4)

    def ul_desc(lt):
        """direction constant of a psms._update_labels(...) term"""
        if lt[0] == "mcall" and lt[2] == "_update_labels":
            k = dict(lt[4]).get("desc")
            if k is None and len(lt[3]) >= 3:
                k = lt[3][2]
            if k is None:
                return True       # the method's default
            return k[1] if k[0] == "const" else None
        return None

    TRAIN = ("attr", ("param", f.params[1]), "train_fdr")

    def ul_fdr(lt):
        if lt[0] == "mcall" and lt[2] == "_update_labels":
            k = dict(lt[4]).get("eval_fdr")
            if k is None and len(lt[3]) >= 2:
                k = lt[3][1]
            return k if k is not None else ("default", 0.01)
        if lt[0] == "mcall" and lt[2] == "_find_best_feature":
            k = dict(lt[4]).get("eval_fdr")
            if k is None and lt[3]:
                k = lt[3][0]
            return k
        return None

    bad_fdr = []
    for x in facts:
        for t in walk_term(x["lab"]):
            if isinstance(t, tuple) and t and t[0] == "mcall" and t[2] in (
                    "_update_labels", "_find_best_feature"):
                if ul_fdr(t) != TRAIN:
                    bad_fdr.append((x["where"][-1] if x["where"] else "",
                                    t[2], show(ul_fdr(t), 40)))
    ctx.check(not bad_fdr, "C07a-labels-at-train-fdr", f,
              "starting labels (and the search for the best feature) use "
              "the model's train_fdr on every path",
              f"(path, call, threshold used): {bad_fdr}: the positives are "
              "not the targets accepted at the training FDR", node=f.node)
    explicit = [x for x in facts if x["desc"][0] == "const"]
    auto = [x for x in facts if any(
        isinstance(t, tuple) and t and t[0] == "mcall"
        and t[2] == "_find_best_feature" for t in walk_term(x["lab"]))]
    ctx.require(len(explicit) == 2, f"{f.qual}: expected two paths with a "
                f"constant direction, found {len(explicit)}")
    ctx.require(len(auto) == 1, f"{f.qual}: expected one path through "
                f"_find_best_feature, found {len(auto)}")
    # best_feat must be a column NAME (kind lattice NAME/ARRAY)
    want_name = ("attr", ("param", f.params[1]), "direction")
    ok_n = all(x["name"] == want_name for x in explicit)
    ctx.check(ok_n, "C07a-best-feat-is-a-name", f,
              "with an explicit direction the recorded best feature is the "
              "feature's name",
              f"best_feat = {[show(x['name'], 60) for x in explicit]} (brew "
              "uses it as a column name)", node=f.node)
    for x in explicit:
        x["labels_desc"] = ul_desc(x["lab"])
        x["count_ok"] = x["cnt"] == (
            "mcall", ("cmp", "==", x["lab"], ("const", 1)), "sum", (), ())
    ok_arms = all(x["labels_desc"] is not None
                  and x["labels_desc"] == x["desc"][1] and x["count_ok"]
                  for x in explicit) and \
        {x["desc"][1] for x in explicit} == {True, False}
    ctx.check(ok_arms, "C07a-direction-arms-consistent", f,
              "each explicit-direction path returns labels, their own "
              "accepted count and the direction they were computed with",
              "; ".join(
                  f"path {x['where'][-1]}: direction {x['desc'][1]}, labels "
                  f"computed with desc={x['labels_desc']}, count is "
                  f"{'the' if x['count_ok'] else 'NOT the'} number of "
                  "accepted labels" for x in explicit), node=f.node)
    # the choice compares the two counts: on the path that returns count C
    # the other count O satisfies O <= C (or O < C)
    ok_t = True
    for x, y in (explicit, explicit[::-1]):
        ok_t = ok_t and any(
            c[0] in ("lt", "le") and c[1] == y["cnt"] and c[2] == x["cnt"]
            for c in x["conds"])
    ctx.check(ok_t, "C07a-direction-choice", f,
              "the direction with more accepted targets is chosen",
              "; ".join(f"direction {x['desc'][1]} is taken when "
                        f"{x['where'][-1]}" for x in explicit), node=f.node)
    # automatic path: (name, count, labels, direction) of _find_best_feature
    # used position by position
    x = auto[0]
    items = [x["name"], x["cnt"], x["lab"], x["desc"]]
    ok_a = all(t[0] in ("item", "sub") and t[2] in (i, ("const", i))
               and t[1][0] == "mcall" and t[1][2] == "_find_best_feature"
               for i, t in enumerate(items)) and \
        len({t[1] for t in items}) == 1
    ctx.check(ok_a, "C07a-automatic-arm", f,
              "automatic direction: (name, count, labels, direction) of "
              "_find_best_feature are used position by position",
              f"{[show(t, 60) for t in items]}", node=f.node)


def _best_feature_loop(ctx, f):
    prog = ctx.prog
    loops = [n for n in ast.walk(f.node) if isinstance(n, ast.For)
             and isinstance(n.iter, (ast.Tuple, ast.List))]
    ctx.require(len(loops) == 1, f"{f.qual}: direction loop not found")
    lp = loops[0]
    vals = sorted(ast.unparse(e) for e in lp.iter.elts)
    ctx.check(vals == ["False", "True"], "C07a-both-directions", f,
              "the best feature is searched in both score directions",
              f"loop iterates over {ast.unparse(lp.iter)}", node=lp)
    early = [n for n in ast.walk(lp) if isinstance(n, (ast.Break,
                                                        ast.Return))]
    ctx.check(not early, "C07a-both-directions-no-early-exit", f,
              "both directions are always examined (no break/return in the "
              "loop)",
              "the loop over the directions can stop early: a strong "
              "lower-is-better feature is never considered once any "
              "higher-is-better feature accepts a PSM", node=lp)
    rets = [n for n in ast.walk(f.node) if isinstance(n, ast.Return)]
    ctx.require(len(rets) == 1 and isinstance(rets[0].value, ast.Tuple)
                and len(rets[0].value.elts) == 4
                and all(isinstance(e, ast.Name)
                        for e in rets[0].value.elts),
                f"{f.qual}: expected a 4-tuple of names as return")
    cfg = CFG(f.node)
    du = DefUse(prog, f)
    T = Terms(du, phi_vars=True)
    # the in-loop definition of each returned variable, its value and the
    # conditions (decided inside the loop) under which it is executed
    slots = {}
    for key, e in zip(("feat", "cnt", "lab", "desc"), rets[0].value.elts):
        inloop = [d for d in du.defs_of(e) if d.node is not None
                  and inside(d.node, lp) and d.node is not lp]
        ctx.require(len(inloop) == 1,
                    f"{f.qual}: '{e.id}' is assigned {len(inloop)} times in "
                    "the direction loop; rule C07a needs re-reading")
        d = inloop[0]
        conds = set()
        for test, outcome in cfg.necessary_conditions(d.node):
            if not inside(test, lp):
                continue
            t = T.of(test)
            while t[0] == "un" and t[1] == "not":
                t, outcome = t[2], not outcome
            conds.add(norm_cmp(t, outcome) or (t, outcome))
        slots[key] = (e.id, d, T.of_def(d), conds)
    same = len({frozenset(v[3]) for v in slots.values()}) == 1
    cnt_name, _d, cnt_val, conds = slots["cnt"]
    better = [c for c in conds if c[0] in ("lt", "le")
              and c[1][0] == "var" and c[1][1] == cnt_name
              and c[2] == cnt_val]
    ok = same and len(conds) == 1 and len(better) == 1
    loop_elem = ("elem", T.of(lp.iter))
    ok_desc = slots["desc"][2] == loop_elem
    ctx.check(ok and ok_desc, "C07a-best-updated-together", f,
              "feature, count, labels and direction of the best candidate "
              "are updated together, exactly when a candidate accepts more "
              "targets than the best so far",
              "in-loop updates: " + "; ".join(
                  f"{v[0]} := {show(v[2], 50)} under "
                  f"{sorted(show(c, 60) for c in v[3])}"
                  for v in slots.values()),
              node=slots["cnt"][1].node)
    if ok and ok_desc:
        lab = slots["lab"][2]
        feat = slots["feat"][2]
        ok_l = False
        is_m = lab[0] == "mcall" and lab[2] == "_update_labels"
        is_f = lab[0] == "call" and str(lab[1]).endswith("._update_labels")
        if is_m or is_f:
            args, kws = (lab[3], dict(lab[4])) if is_m else (
                lab[2], dict(lab[3]))
            di = 2 if is_m else 3
            dterm = kws.get("desc", args[di] if len(args) > di else None)
            sc = kws.get("scores", args[0] if args else None)
            fi = 1 if is_m else 2
            fterm = kws.get("eval_fdr", args[fi] if len(args) > fi else None)
            p_fdr = [p for p in f.params if p != "self"][0]
            ok_l = dterm == loop_elem and sc is not None and any(
                x == feat for x in walk_term(sc)) and fterm == (
                    "param", p_fdr)
        ctx.check(ok_l, "C07a-labels-of-best", f,
                  "the labels returned are those of the winning feature in "
                  "the winning direction",
                  f"labels = {show(lab, 160)}", node=slots["lab"][1].node)
    # the candidate count is the count of the candidate feature in the
    # candidate direction
    cnt_ok = any(
        isinstance(x, tuple) and x and x[0] == "mcall"
        and x[2] == "_targets_count_by_feature" and loop_elem in (
            list(x[3]) + [v for _k, v in x[4]])
        for x in walk_term(cnt_val))
    ctx.check(cnt_ok, "C07a-count-of-direction", f,
              "the candidate count is computed in the loop's direction",
              f"count = {show(cnt_val, 160)}", node=slots["cnt"][1].node)


# ------------------------------------------------------------------ b
def _label_taint(ctx):
    prog = ctx.prog
    ulf = prog.func(UL)
    sites = prog.callers_of(UL)
    ctx.floor("C07b-update-labels-sites", len(sites), 6)
    for caller, call, kind in sites:
        b = prog.bind(ulf, call)
        tg = b.get("targets")
        ctx.require(tg is not None, f"{caller.qual}: _update_labels call "
                    "without targets")
        du = DefUse(prog, caller)
        T = Terms(du)
        t = T.of(tg)
        ok, why = _targets_clean(prog, caller, t, tg, depth=0)
        ctx.check(ok, "C07b-labels-converted", caller,
                  f"labels given to _update_labels at line {call.lineno} "
                  "are booleans (converted / dataset targets)",
                  why, node=call)
    # dataset constructor from file data: _create_psms converts first
    cp = prog.func("mokapot.brew._create_psms")
    cfg = CFG(cp.node)
    conv = [n for n in ast.walk(cp.node) if isinstance(n, ast.Call)
            and ast.unparse(n.func).endswith("convert_targets_column")]
    ctor = [n for n in ast.walk(cp.node) if isinstance(n, ast.Call)
            and ast.unparse(n.func) == "LinearPsmDataset"]
    ok = len(conv) == 1 and len(ctor) == 1 and cfg.every_path_passes(
        cfg.entry.id, cfg.node_of(ctor[0]).id, {cfg.node_of(conv[0]).id})
    if ok:
        kws = {k.arg: ast.unparse(k.value) for k in conv[0].keywords}
        ck = {k.arg: ast.unparse(k.value) for k in ctor[0].keywords}
        ok = kws.get("data") == ck.get("psms") and kws.get(
            "target_column") == ck.get("target_column")
    ctx.check(ok, "C07b-dataset-labels-converted", cp,
              "file data is converted before it becomes a dataset (whose "
              "constructor casts labels with astype(bool))",
              "LinearPsmDataset is built from file data whose label column "
              "was not converted: -1 would become True", node=cp.node)
    # the converter itself maps exactly 1 -> True
    cv = prog.func(CONV)
    sets = [n for n in ast.walk(cv.node) if isinstance(n, ast.Assign)
            and isinstance(n.targets[0], ast.Subscript)]
    ok_c = len(sets) == 1 and ast.unparse(sets[0].value) in (
        "labels == 1",)
    ctx.check(ok_c, "C07b-converter", cv,
              "convert_targets_column maps exactly label 1 to True",
              f"{[ast.unparse(s) for s in sets]}", node=cv.node)


def _targets_clean(prog, caller, t, node, depth):
    if any(x[0] == "call" and x[1] == CONV for x in walk_term(t)):
        return True, ""
    if tkey(t) == "self.targets" and caller.cls is not None and \
            caller.cls.name in ("LinearPsmDataset", "PsmDataset"):
        return True, ""
    from ..tutil import np_call, strip_conv
    s = strip_conv(t)
    # one fold's labels taken off a per-fold list handed in by the caller:
    # np.hstack(L.pop(0)), L[i], an element of L ...
    while True:
        c = np_call(s)
        if c and c[0] in ("hstack", "concatenate") and c[1]:
            s = strip_conv(c[1][0])
        elif s[0] == "mcall" and s[2] == "pop":
            s = strip_conv(s[1])
        elif s[0] in ("sub", "elem") and s[1][0] in ("param", "sub",
                                                     "elem"):
            s = strip_conv(s[1])
        else:
            break
    if s[0] == "param" and depth < 4:
        pname = s[1]
        callers = prog.callers_of(caller.qual)
        if not callers:
            return True, ""  # public API: caller's responsibility
        for c2, call2, _k in callers:
            b = prog.bind(caller, call2)
            a = b.get(pname)
            if a is None:
                continue
            du = DefUse(prog, c2)
            T2 = Terms(du)
            ok, why = _targets_clean(prog, c2, T2.of(a), a, depth + 1)
            if not ok:
                return False, f"via {c2.qual}: {why}"
        return True, ""
    # boolean targets of datasets built by _create_psms (which converts)
    txt = tkey(t, 300)
    ds_targets = [x for x in walk_term(t) if x[0] == "attr"
                  and x[2] == "targets"]
    if ds_targets and all(
            any(y[0] == "call" and y[1] == "mokapot.brew._create_psms"
                for y in walk_term(x[1])) for x in ds_targets):
        return True, ""
    reads = [x for x in walk_term(t)
             if x[0] == "mcall" and x[2] in ("read", "read_data",
                                             "get_chunked_data_iterator")]
    if reads:
        return False, ("the label column is read from file "
                       f"({show(reads[0], 80)}) and used without "
                       "convert_targets_column: labels written as -1 count "
                       "as targets")
    # origin not recognised: neither a converted column, dataset targets nor
    # an unconverted file read - the rule cannot judge this
    raise AnalysisError(f"{caller.qual}: origin of the labels not "
                        f"recognised ({txt[:120]}); rule C07b needs "
                        "re-reading")


# ------------------------------------------------------------------ c
def _direction_downstream(ctx):
    prog = ctx.prog
    f = prog.func("mokapot.confidence.assign_confidence")
    du = DefUse(prog, f)
    T = Terms(du)
    loops = [n for n in ast.walk(f.node) if isinstance(n, ast.For)
             and "descs" in ast.unparse(n.iter)
             and "zip" in ast.unparse(n.iter)]
    ctx.require(len(loops) == 1, f"{f.qual}: collection loop not found")
    lp = loops[0]
    names = [e.id for e in lp.target.elts]
    zargs = [ast.unparse(a) for a in lp.iter.args]
    ctx.require("descs" in zargs, f"{f.qual}: descs not zipped")
    dvar = names[zargs.index("descs")]
    # (1) the score vector handed to the sorter depends on the direction
    cs = [n for n in ast.walk(lp) if isinstance(n, ast.Call)
          and ast.unparse(n.func) == "create_sorted_file_iterator"]
    ctx.require(len(cs) == 1, f"{f.qual}: sorter call not found")
    via_scores = any(
        isinstance(x, ast.Name) and x.id == dvar
        for a in list(cs[0].args) + [k.value for k in cs[0].keywords]
        for x in ast.walk(a))
    if not via_scores:
        for a in cs[0].args:
            roots = du.backward_roots(a)
            # loop variables are not params; check def-use through the loop
            for n in ast.walk(a):
                if isinstance(n, ast.Name):
                    for d in du.defs_of(n):
                        if d.value is not None and dvar in {
                                y.id for y in ast.walk(d.value)
                                if isinstance(y, ast.Name)}:
                            via_scores = True
    # (2) or it reaches the q-value computation / sort direction
    ac = prog.func("mokapot.confidence.LinearConfidence._assign_confidence")
    du2 = DefUse(prog, ac)
    qcalls = [n for n in ast.walk(ac.node) if isinstance(n, ast.Call)
              and "qvalues_from_scores" in ast.unparse(n.func)]
    via_q = False
    for q in qcalls:
        for a in list(q.args) + [k.value for k in q.keywords]:
            if ("param", "desc") in du2.backward_roots(a):
                # self.scores is re-assigned with desc only after q-values
                via_q = True
    # self.scores used by qvalues: is desc applied before?
    if qcalls:
        cfg = CFG(ac.node)
        flips = [st for (r, a, v, st) in du2.attr_stores
                 if r == "self" and a == "scores"
                 and ("param", "desc") in du2.backward_roots(v)]
        qn = cfg.node_of(qcalls[0]).id
        for st in flips:
            if cfg.every_path_passes(cfg.node_of(cfg.enclosing(
                    qcalls[0], (ast.For,))).id, qn,
                    {cfg.node_of(st).id}):
                via_q = True
    ctx.check(via_scores or via_q, "C07c-direction-routing", f,
              "desc->ranking",
              "the direction in 'descs' reaches neither the scores that are "
              "sorted/merged nor the q-value computation: chunks are sorted "
              "descending, the merge takes the maximum and tdc runs with "
              "desc=True, so a lower-is-better score is ranked upside down "
              "(the sign flip by desc happens only after the q-values)",
              node=cs[0])
