"""C07 - best-feature safety net."""

from __future__ import annotations

import ast

from ..astutil import inside, norm_cmp
from ..tutil import map_term, normalise, np_call
from ..cfg import CFG
from ..core import callee_is, AnalysisError, const_value, walk_own
from ..defuse import DefUse, Terms, show, walk_term
from ..defuse import key as tkey
from ..flow import Flow
from ..paths import path_variants

EXPLANATION = (
    "Static analysis of the tail of brew.brew, model._get_starting_labels, "
    "Model.fit, both find-best-feature loops, every call site of "
    "dataset._update_labels and confidence.assign_confidence. (a) the "
    "fallback: the per-model record is [best_feat, feat_pass, desc] of one "
    "model, the winner is the arg-max of the accepted counts, the model's "
    "count is taken at the caller's test_fdr from the same scores, the "
    "comparison guards the replacement, and on the fallback branch scores "
    "are read from the column named by - and descs built from the "
    "direction in - the same winning record; otherwise descs are True; an "
    "all-override model list never falls back. The record itself is "
    "consistent: _get_starting_labels returns (labels, count, name, "
    "direction) of one direction on every path and Model.fit unpacks them "
    "in that order; both best-feature loops scan both directions without "
    "early exit and update feature, count, labels and direction together. "
    "(b) label encoding (TAINT): every label vector reaching "
    "_update_labels / the dataset constructor passed through "
    "utils.convert_targets_column (or is a dataset's own boolean targets). "
    "(c) direction honoured downstream (FLAG): each element of descs given "
    "Also: the best-feature record of a model is assigned only in Model.__init__ / Model.fit (who-may-write, setattr loops included); the learned scores' count is a total over all collections; the label definition of C01d is a clause here too. "
    "to assign_confidence must influence the ranking. Also: no component of the best-feature record is reset inside the loop over the two directions. NOT decided: whether "
    "training fails for a given dataset.")
TECHNIQUE = ("def-use term matching + source/sanitiser/sink taint over call "
             "sites + inter-procedural flag routing + sibling agreement")

UL = "mokapot.dataset._update_labels"
CONV = "mokapot.utils.convert_targets_column"


def run(ctx):
    prog = ctx.prog
    _fallback(ctx, prog.func("mokapot.brew.brew"))
    _starting_labels(ctx, prog.func("mokapot.model._get_starting_labels"),
                     prog.func("mokapot.model.Model.fit"))
    for q in ("mokapot.dataset.PsmDataset._find_best_feature",
              "mokapot.dataset.OnDiskPsmDataset.find_best_feature"):
        _best_feature_loop(ctx, prog.func(q))
    _label_taint(ctx)
    _direction_downstream(ctx)
    _record_writers(ctx)
    # every count in the comparison is a count of labels: the labels are
    # exactly the targets with q <= threshold, computed from the scores as
    # given (shared clause with C01 / C12)
    from .c01 import _check_update_labels
    _check_update_labels(ctx)


# ------------------------------------------------------------------ a
def _second_item(k):
    """is ``k`` a function returning item 1 of its argument?"""
    if k is None:
        return False
    if k[0] == "call" and k[1] == "operator.itemgetter" and \
            k[2] == (("const", 1),):
        return True
    if k[0] == "lambda" and len(k[1]) == 1:
        x = ("lparam", k[1][0])
        return k[2] in (("sub", x, ("const", 1)), ("item", x, 1))
    return False


def _fallback(ctx, f):
    """Sink-driven: brew returns (psms, models, scores, descs).  Every
    definition of the returned scores / directions is read as a term
    together with the conditions under which it takes effect; the clauses
    are judged on those (so flags, early returns, merged branches, loops
    versus comprehensions and temporaries do not matter)."""
    prog = ctx.prog
    du = DefUse(prog, f)
    T = Terms(du, phi_vars=True)
    cfg = CFG(f.node)
    from ..astutil import cond_terms
    from ..tutil import anon, bound_args
    rets = [n for n in walk_own(f.node) if isinstance(n, ast.Return)]
    ctx.require(rets and all(isinstance(r.value, ast.Tuple)
                             and len(r.value.elts) == 4 for r in rets),
                f"{f.qual}: does not return (psms, models, scores, descs)")

    def nrm(t):
        return anon(normalise(t))

    def conds_of(node):
        out = []
        for t, o in cond_terms(cfg, T, node):
            t = nrm(t)
            while t[0] == "un" and t[1] == "not":
                t, o = t[2], not o
            out.append(norm_cmp(t, o) or (t, o))
        return out

    def defs_at(pos):
        """[(term, conditions, node)] of everything returned at ``pos``"""
        out, seen = [], set()
        for r in rets:
            t = T.of(r.value.elts[pos])
            if t[0] == "var" and t in T.var_defs:
                for d in T.var_defs[t]:
                    if d.uid in seen or d.node is None:
                        continue
                    seen.add(d.uid)
                    out.append((nrm(T.of_def(d)), conds_of(d.node), d.node))
            else:
                ds = du.defs_of(r.value.elts[pos]) if isinstance(
                    r.value.elts[pos], ast.Name) else ()
                node = next(iter(ds)).node if len(ds) == 1 else r
                if id(node) in seen:
                    continue
                seen.add(id(node))
                out.append((nrm(t), conds_of(node), node))
        return out

    PSMS = T.of(rets[0].value.elts[0])
    sc_defs, de_defs = defs_at(2), defs_at(3)
    n_psms = ("call", "builtins.len", (PSMS,), ())

    def const_dirs(t):
        """DIR when t is one DIR per collection: [DIR] * len(psms) or
        [DIR for _ in psms]"""
        if t[0] == "bin" and t[1] == "*":
            for a_, b_ in ((t[2], t[3]), (t[3], t[2])):
                if a_[0] == "list" and len(a_[1]) == 1 and b_ == n_psms:
                    return a_[1][0]
        if t[0] == "comp" and t[1] == "list" and len(t[3]) == 1 and \
                not t[3][0][2] and t[3][0][1] == PSMS:
            return t[2]
        return None

    other = [t for t, c, n in de_defs if const_dirs(t) is None]
    ctx.require(de_defs and not other,
                f"{f.qual}: definitions of the returned directions not "
                f"recognised: {[show(t, 60) for t, _c, _n in de_defs]}")

    def has_extremum(v):
        """is v a variable one of whose definitions takes a max / min?"""
        return v[0] == "var" and any(
            isinstance(x, tuple) and x[:2] in (("call", "builtins.max"),
                                               ("call", "builtins.min"))
            for d in T.var_defs.get(v, [])
            for x in walk_term(T.of_def(d)))

    # the comparison: a condition  X < Y / X <= Y  between the learned
    # scores' count and the count of the best feature (the side that comes
    # out of an arg-max over the models)
    found = {}
    for t, c, n in de_defs:
        for c_ in c:
            if c_[0] in ("lt", "le") and (has_extremum(c_[1])
                                          or has_extremum(c_[2])):
                found.setdefault((c_[1], c_[2]) if has_extremum(c_[2])
                                 else (c_[2], c_[1]), []).append(
                    (c_, t, c, n))
    ctx.require(len(found) == 1, f"{f.qual}: fallback comparison not found")
    (P, F), uses = next(iter(found.items()))
    # definitions taken when the feature count is the larger one
    fb_d = [(const_dirs(t), c, n) for c_, t, c, n in uses
            if c_[1] == P and c_[2] == F]
    md_d = [(t, c, n) for c_, t, c, n in uses if c_[1] == F and c_[2] == P]
    ctx.require(len(fb_d) == 1 and md_d, f"{f.qual}: the two outcomes of "
                "the comparison do not both set the directions")
    DESC, fb_conds, fb_node = fb_d[0]
    kind = [c_[0] for c_ in fb_conds if c_[1:] == (P, F)][0]
    ctx.check(kind == "lt" and all(
        ("le", F, P) in c for _t, c, _n in md_d),
        "C07a-comparison", f,
        "fallback iff the best feature accepted strictly more targets "
        "than the learned scores",
        f"fallback direction under {show(P, 40)} "
        f"{'<' if kind == 'lt' else '<='} {show(F, 40)}: with equal counts "
        "the learned model must be kept", node=fb_node)
    ctx.check(all(const_dirs(t) == ("const", True) for t, _c, _n in md_d),
              "C07a-model-direction", f,
              "without fallback the learned scores are ranked higher = "
              "better",
              f"directions without fallback: "
              f"{[show(t, 60) for t, _c, _n in md_d]}", node=md_d[0][2])
    # ---- the per-model counts and their arg-max
    fdefs = T.var_defs.get(F, [])
    maxes = []
    for d in fdefs:
        t = nrm(T.of_def(d))
        ms = [x for x in walk_term(t) if isinstance(x, tuple)
              and x[:2] in (("call", "builtins.max"),
                            ("call", "builtins.min"))]
        if ms:
            maxes.append((t, d, ms[0]))
    zeros = [d for d in fdefs if T.of_def(d) == ("const", 0)]
    ctx.require(len(maxes) == 1, f"{f.qual}: arg-max over the per-model "
                "counts not found")
    M = maxes[0][2]
    MODELS = None
    ok_am = False
    why_am = f"the count compared is {show(maxes[0][0], 160)}"
    if M[1] == "builtins.max" and len(M[2]) == 1 and \
            M[2][0][0] == "call" and \
            M[2][0][1] == "builtins.enumerate" and len(M[2][0][2]) == 1 and \
            _second_item(dict(M[3]).get("key")) and \
            maxes[0][0] in (("item", M, 1), ("sub", M, ("const", 1))):
        C = M[2][0][2][0]
        if C[0] == "call" and C[1] == "builtins.map" and len(C[2]) == 2 \
                and C[2][0][0] == "call" and \
                C[2][0][1] == "operator.itemgetter" and \
                len(C[2][0][2]) == 1:
            X = C[2][1]
            C = ("comp", "list", ("sub", ("elem", X), C[2][0][2][0]),
                 (((), X, ()),))
        C = nrm(C)
        if C[0] == "comp" and len(C[3]) == 1 and not C[3][0][2]:
            MODELS = C[3][0][1]
            ok_am = C[2] == ("attr", ("elem", MODELS), "feat_pass")
            why_am = f"counts compared: {show(C, 120)}"
            if not ok_am:
                why_am += (": the maximum is not taken over the accepted "
                           "counts alone")
    enum_form = M[1] in ("builtins.max", "builtins.min") and \
        len(M[2]) == 1 and M[2][0][0] == "call" and \
        M[2][0][1] == "builtins.enumerate"
    # the other spelling of an arg-max: the winning *position*
    #   i = max(range(len(C)), key=lambda k: C[k]);  count = C[i]
    IDX_ALTS = None
    if not ok_am and not enum_form and M[1] == "builtins.max" and \
            len(M[2]) == 1 and M[2][0][0] == "call" and \
            M[2][0][1] == "builtins.range" and len(M[2][0][2]) == 1 and \
            M[2][0][2][0][0] == "call" and \
            M[2][0][2][0][1] == "builtins.len":
        C = M[2][0][2][0][2][0]
        key_ = dict(M[3]).get("key")
        pos_ok = key_ is not None and ((
            key_[0] == "lambda" and len(key_[1]) == 1 and key_[2] == (
                "sub", C, ("lparam", key_[1][0])))
            or key_ == ("attr", C, "__getitem__"))
        Cn = nrm(C)
        if pos_ok and nrm(maxes[0][0]) in (nrm(("sub", C, M)),
                                           ("sub", Cn, nrm(M))) and \
                Cn[0] == "comp" and len(Cn[3]) == 1 and not Cn[3][0][2]:
            MODELS = Cn[3][0][1]
            ok_am = Cn[2] == ("attr", ("elem", MODELS), "feat_pass")
            why_am = f"counts compared: {show(Cn, 120)}"
            IDX_ALTS = (M, nrm(M))
            enum_form = True        # read: judged below
    if not ok_am and not enum_form:
        raise AnalysisError(
            f"{f.qual}: the arg-max over the per-model counts is written in "
            f"a form the rule does not read ({show(M, 100)}); rule C07a "
            "needs re-reading")
    ctx.check(ok_am, "C07a-argmax-of-counts", f,
              "the winning record is the arg-max of the accepted counts "
              "(feat_pass of every fold model)", why_am,
              node=maxes[0][1].node)
    if MODELS is None:
        # needed below to resolve the record fields
        for x in walk_term(M):
            if isinstance(x, tuple) and x and x[0] == "comp" and \
                    len(x[3]) == 1 and x[2][0] in ("list", "tuple") and \
                    len(x[2][1]) == 3:
                MODELS = x[3][0][1]
    IDX = ("item", M, 0)

    def field(t):
        """(field name, index term) when t is <models>[i].<field>, read
        directly or through the per-model record list"""
        t = nrm(t)
        if t[0] == "attr" and t[1][0] == "sub" and MODELS is not None \
                and t[1][1] == MODELS:
            return t[2], t[1][2]
        pos = None
        if t[0] == "item":
            pos, base = t[2], t[1]
        elif t[0] == "sub" and t[2][0] == "const":
            pos, base = t[2][1], t[1]
        if pos is not None and base[0] == "sub" and base[1][0] == "comp" \
                and len(base[1][3]) == 1 and not base[1][3][0][2]:
            rec, it = base[1][2], base[1][3][0][1]
            if rec[0] in ("list", "tuple") and isinstance(pos, int) and \
                    pos < len(rec[1]) and (MODELS is None or it == MODELS):
                e = rec[1][pos]
                if e[0] == "attr" and e[1] == ("elem", it):
                    return e[2], base[2]
        return None

    def same_idx(i):
        if IDX_ALTS is not None:
            return i in IDX_ALTS or nrm(i) in IDX_ALTS
        return i in (IDX, ("sub", M, ("const", 0)))

    fd = field(DESC)
    ctx.check(fd is not None and fd[0] == "desc" and same_idx(fd[1]),
              "C07a-fallback-direction", f,
              "on fallback every collection gets the winning feature's "
              "direction",
              f"fallback directions are {show(DESC, 120)}", node=fb_node)
    # ---- fallback scores: the winning feature's column of each collection
    fb_s = [(t, c, n) for t, c, n in sc_defs if ("lt", P, F) in c]
    ok_s, ok_rec = False, False
    why_s = f"{[show(t, 100) for t, _c, _n in fb_s]}"
    if len(fb_s) == 1:
        t = fb_s[0][0]
        if t[0] == "comp" and len(t[3]) == 1 and not t[3][0][2] and \
                t[3][0][1] == PSMS:
            e = t[2]
            if e[0] == "attr" and e[2] == "values":
                e = e[1]
            elif e[0] == "mcall" and e[2] == "to_numpy":
                e = e[1]
            if e[0] == "mcall" and e[1] == ("elem", PSMS) and \
                    e[2] == "read_data":
                cols = dict(e[4]).get("columns") or (e[3][0] if e[3]
                                                     else None)
                if cols is not None and cols[0] == "list" and \
                        len(cols[1]) == 1:
                    ff = field(cols[1][0])
                    ok_s = ff is not None and ff[0] == "best_feat"
                    ok_rec = ok_s and same_idx(ff[1]) and fd is not None \
                        and ff[1] == fd[1]
                    if not ok_s:
                        why_s = ("the column read is "
                                 f"{show(cols[1][0], 100)}, not the winning "
                                 "model's best_feat")
    ctx.check(ok_s, "C07a-fallback-scores", f,
              "on fallback the scores are that feature's column of each "
              "collection", why_s, node=fb_node)
    ctx.check(ok_rec, "C07a-winning-record-used", f,
              "feature name and direction come from the same winning "
              "record", "name and direction are read at different indices, "
              "or not at the arg-max", node=fb_node)
    ctx.check(fd is not None and MODELS is not None, "C07a-record", f,
              "per-model record is (best_feat, feat_pass, desc) of one "
              "model", "record not resolvable to the fold models' fields",
              node=fb_node)
    # ---- without fallback: learned scores kept, higher = better
    kept = not any(("le", F, P) in c for _t, c, _n in sc_defs)
    ctx.check(kept, "C07a-model-direction", f,
              "without fallback the learned scores are kept",
              "the scores are replaced on the no-fallback path",
              node=md_d[0][2])
    # ---- the learned scores' count
    pt = T.of_defs(T.var_defs[P]) if P in T.var_defs else P
    pterms = [nrm(T.of_def(d)) for d in T.var_defs.get(P, [])] or [P]
    ul_calls = [x for t in pterms for x in walk_term(t)
                if isinstance(x, tuple) and x and x[0] == "call"
                and x[1] == "mokapot.dataset.update_labels"]
    ok_pt = bool(ul_calls) and any(
        isinstance(x, tuple) and x and x[0] == "cmp" and x[1] == "=="
        and ("const", 1) in (x[2], x[3])
        for t in pterms for x in walk_term(t))
    ctx.check(ok_pt, "C07a-model-count", f,
              "the learned scores' count is the number of labels == 1 from "
              "update_labels", f"pred_total = {[show(t, 120) for t in pterms]}",
              node=fb_node)
    # ... summed over every collection: a definition inside a loop over
    # the collections must add to the running total (not replace it), one
    # outside a loop must be a sum over them
    P_NAME = P[1] if P[0] == "var" else None
    bad_total = []
    for d in T.var_defs.get(P, []):
        if d.node is None:
            continue
        dt = nrm(T.of_def(d))
        if not any(isinstance(x, tuple) and x and x[0] == "call"
                   and x[1] == "mokapot.dataset.update_labels"
                   for x in walk_term(dt)):
            continue            # the initial 0
        loops_ = cfg.enclosing_all(d.node, (ast.For, ast.While))
        if loops_:
            st_ = cfg.stmt_of(d.node)
            additive = (isinstance(st_, ast.AugAssign) and isinstance(
                st_.op, ast.Add)) or any(
                isinstance(x, tuple) and len(x) >= 2 and x[0] in (
                    "var", "rec") and x[1] == P_NAME
                for x in walk_term(T.of(st_.value) if isinstance(
                    st_, ast.Assign) else ("const", None)))
            if not additive:
                bad_total.append((getattr(d.node, "lineno", "?"),
                                  "assigned inside the loop over the "
                                  "collections instead of added"))
        else:
            summed = any(isinstance(x, tuple) and x and x[0] == "call"
                         and x[1] in ("builtins.sum", "numpy.sum")
                         for x in walk_term(dt)) or any(
                isinstance(x, tuple) and x and x[0] == "mcall"
                and x[2] == "sum" and x[1][0] == "comp"
                for x in walk_term(dt))
            if not summed:
                bad_total.append((getattr(d.node, "lineno", "?"),
                                  "not a sum over the collections"))
    ctx.check(not bad_total, "C07a-model-count-all-collections", f,
              "the learned scores' count is the total over all collections "
              "(the best feature's count is one over all of them too)",
              f"pred_total (line, problem) = {bad_total}: the comparison "
              "with the best feature counts only part of the PSMs, so a "
              "better model loses against the feature", node=fb_node)
    if ul_calls:
        c = ul_calls[0]
        bound = bound_args(prog, c) or {}
        fdr = bound.get("eval_fdr")
        ctx.check(fdr == ("param", "test_fdr"), "C07a-count-at-test-fdr", f,
                  "the learned scores are counted at the caller's test_fdr",
                  "update_labels is evaluated at "
                  f"{show(fdr, 40) if fdr else 'its default eval_fdr'}, not "
                  "at brew's test_fdr: the comparison with the best feature "
                  "is made at the wrong threshold", node=fb_node)
        sc, tc, fn = (bound.get("scores"), bound.get("target_column"),
                      bound.get("file_name"))

        def coll_of(t):
            """the collection element a .filename / .target_column is
            read from"""
            return t[1] if t is not None and t[0] == "attr" else None
        ce = coll_of(fn)
        ok_cols = (ce is not None and coll_of(tc) == ce
                   and fn[2] == "filename" and tc[2] == "target_column")
        ok_sc = False
        if ok_cols and sc is not None:
            if ce[0] == "zipelem" and sc[0] == "zipelem" and \
                    ce[2] == sc[2] and ce[1] == 0 and sc[1] == 1 and \
                    ce[2][0] == PSMS:
                ok_sc = True
            elif ce[0] == "elem" and sc[0] == "sub" and \
                    sc[2] == ("idx", ce[1]):
                ok_sc = True
        ctx.check(ok_sc and ok_cols, "C07a-count-same-collection", f,
                  "each collection's scores are labelled against that "
                  "collection's own file and label column",
                  f"update_labels({show(fn, 40) if fn else None}, "
                  f"{show(sc, 40) if sc else None}, "
                  f"{show(tc, 40) if tc else None})", node=fb_node)
        desc_a = bound.get("desc")
        ctx.check(desc_a is None or desc_a == ("const", True),
                  "C07a-model-scores-descending", f,
                  "learned scores are counted with higher = better",
                  f"desc={show(desc_a, 40) if desc_a else None}",
                  node=fb_node)
    # ---- override: all models forced -> count 0 (never falls back)
    ALLOV = None
    if MODELS is not None:
        ALLOV = ("call", "builtins.all", (("comp", "list", (
            "attr", ("elem", MODELS), "override"), (((), MODELS, ()),)),),
            ())
    def forced(node, outcome):
        return any(c_ == (ALLOV, outcome) or (
            c_[0] == ALLOV[:2] if False else False)
            for c_ in conds_of(node)) if ALLOV else False
    ok_o = len(zeros) == 1 and forced(zeros[0].node, True) and \
        forced(maxes[0][1].node, False)
    ctx.check(ok_o, "C07a-override", f,
              "the comparison is skipped (count 0) only when every model is "
              "forced",
              f"count 0 under {cfg.conditions(zeros[0].node) if zeros else None}"
              f"; arg-max under {cfg.conditions(maxes[0][1].node)}",
              node=maxes[0][1].node)
    # ---- failed training -> zero scores
    z = []
    for t, c, n in sc_defs:
        if t[0] == "comp" and len(t[3]) == 1 and not t[3][0][2]:
            e = np_call(t[2])
            if e and e[0] == "zeros":
                z.append((t, c, n, e))
    ok_z = False
    if len(z) == 1:
        t, c, n, e = z[0]
        size = e[1][0] if e[1] else None
        want = ("call", "builtins.len", (
            ("attr", ("elem", PSMS), "spectra_dataframe"),), ())
        ok_z = t[3][0][1] == PSMS and size == want
    ctx.check(ok_z, "C07a-untrained-zeros", f,
              "untrained fold models yield all-zero scores, one per PSM of "
              "each collection (so any feature that accepts a target wins "
              "the comparison)",
              f"{[show(x[0], 100) for x in z]}", node=f.node)
    # ---- the comparison happens on every path before returning
    tests = [cfg.stmt_of(t_) for t_, _o in cfg.necessary_conditions(fb_node)
             if any(norm_cmp(nrm(T.of(t_)), o_) == ("lt", P, F)
                    or norm_cmp(nrm(T.of(t_)), not o_) == ("lt", P, F)
                    for o_ in (True,))]
    ctx.require(len(tests) >= 1, f"{f.qual}: comparison statement not found")
    fbn = cfg.node_of(tests[0]).id
    ok_r = all(cfg.every_path_passes(cfg.entry.id, cfg.node_of(r).id, {fbn})
               for r in rets)
    ctx.check(ok_r, "C07a-comparison-on-every-path", f,
              "every return of brew passes the model-versus-feature "
              "comparison", "a path returns scores without the comparison",
              node=tests[0])


def _starting_labels(ctx, f, fit):
    prog = ctx.prog
    du = DefUse(prog, f)
    T = Terms(du)
    # Model.fit takes labels, count, feature name and direction from the
    # matching positions of the result (the roles of the four positions are
    # established per path below)
    fdu = DefUse(prog, fit)
    fT = Terms(fdu)
    GSL = f.qual

    def from_result(t):
        """position i when t is item i of _get_starting_labels(...)"""
        from ..tutil import positional
        ps_ = positional(t)
        if ps_ and ps_[0][0] == "call" and ps_[0][1] == GSL:
            return ps_[1]
        return None

    stored = {}
    for (r, a_, v, st) in fdu.attr_stores:
        if r == "self" and a_ in ("feat_pass", "best_feat", "desc"):
            pos = from_result(fT.of(v))
            if pos is None and isinstance(st, ast.Assign) and isinstance(
                    st.targets[0], (ast.Tuple, ast.List)):
                # (labels, self.feat_pass, ...) = _get_starting_labels(...)
                vt = fT.of(st.value)
                if vt[0] == "call" and vt[1] == GSL:
                    for i, el in enumerate(st.targets[0].elts):
                        if isinstance(el, ast.Attribute) and el.attr == a_ \
                                and isinstance(el.value, ast.Name) and \
                                el.value.id == "self":
                            pos = i
            stored.setdefault(a_, []).append((pos, st))
    want_pos = {"feat_pass": 1, "best_feat": 2, "desc": 3}
    ok = all(len(stored.get(a_, [])) == 1 and stored[a_][0][0] == i
             for a_, i in want_pos.items())
    ctx.check(ok, "C07a-fit-unpacks-in-order", fit,
              "Model.fit stores count, feature name and direction from the "
              "matching positions of _get_starting_labels' result",
              "stored from positions "
              f"{ {a_: [p_ for p_, _s in v] for a_, v in stored.items()} }; "
              f"expected {want_pos}", node=fit.node)
    # one variant per path through the branches that set the result: the
    # labels, count, name and direction returned on a path are judged
    # together
    facts = []
    for v in path_variants(f.node):
        vdu = DefUse(prog, f, fnode=v.fnode)
        vT = Terms(vdu)
        rs = [t for _r, t in vT.returns()]
        if not rs:
            continue
        ctx.require(len(rs) == 1 and rs[0][0] == "tuple"
                    and len(rs[0][1]) == 4,
                    f"{f.qual}: a path does not return a 4-tuple")
        lab, cnt, name, desc = (normalise(x) for x in rs[0][1])
        conds = []
        for test, outcome in v.conds:
            t = normalise(vT.of(test))
            while t[0] == "un" and t[1] == "not":
                t, outcome = t[2], not outcome
            conds.append(norm_cmp(t, outcome) or (t, outcome))
        where = [ast.unparse(t)[:50] + f"={o}" for t, o in v.conds]
        inner = desc
        while inner[0] == "call" and inner[1] == "builtins.bool" and \
                len(inner[2]) == 1:
            inner = inner[2][0]
        if desc[0] != "const" and inner[0] == "cmp":
            # the direction is the *value* of a comparison (desc = a >= b,
            # results looked up under it): one case per outcome
            from ..tutil import map_term
            for val in (True, False):
                def sub(x, val=val):
                    def g(y):
                        if y == inner or y == desc:
                            return ("const", val)
                        if y[0] == "call" and y[1] == "builtins.bool" and \
                                y[2] == (("const", val),):
                            return ("const", val)
                        return y
                    return normalise(map_term(x, g))
                facts.append({
                    "lab": sub(lab), "cnt": sub(cnt), "name": sub(name),
                    "desc": ("const", val),
                    "conds": conds + [norm_cmp(inner, val) or (inner, val)],
                    "where": where + [show(inner, 50) + f"={val}"]})
            continue
        facts.append({"lab": lab, "cnt": cnt, "name": name, "desc": desc,
                      "conds": conds, "where": where})
    ctx.floor("C07a-starting-label-paths", len(facts), 3)

    def ul_desc(lt):
        """direction constant of a psms._update_labels(...) term"""
        if lt[0] == "mcall" and lt[2] == "_update_labels":
            k = dict(lt[4]).get("desc")
            if k is None and len(lt[3]) >= 3:
                k = lt[3][2]
            if k is None:
                return True       # the method's default
            return k[1] if k[0] == "const" else None
        return None

    TRAIN = ("attr", ("param", f.params[1]), "train_fdr")

    def ul_fdr(lt):
        if lt[0] == "mcall" and lt[2] == "_update_labels":
            k = dict(lt[4]).get("eval_fdr")
            if k is None and len(lt[3]) >= 2:
                k = lt[3][1]
            return k if k is not None else ("default", 0.01)
        if lt[0] == "mcall" and lt[2] == "_find_best_feature":
            k = dict(lt[4]).get("eval_fdr")
            if k is None and lt[3]:
                k = lt[3][0]
            return k
        return None

    bad_fdr = []
    for x in facts:
        for t in walk_term(x["lab"]):
            if isinstance(t, tuple) and t and t[0] == "mcall" and t[2] in (
                    "_update_labels", "_find_best_feature"):
                if ul_fdr(t) != TRAIN:
                    bad_fdr.append((x["where"][-1] if x["where"] else "",
                                    t[2], show(ul_fdr(t), 40)))
    ctx.check(not bad_fdr, "C07a-labels-at-train-fdr", f,
              "starting labels (and the search for the best feature) use "
              "the model's train_fdr on every path",
              f"(path, call, threshold used): {bad_fdr}: the positives are "
              "not the targets accepted at the training FDR", node=f.node)
    explicit = [x for x in facts if x["desc"][0] == "const"]
    auto = [x for x in facts if any(
        isinstance(t, tuple) and t and t[0] == "mcall"
        and t[2] == "_find_best_feature" for t in walk_term(x["lab"]))]
    ctx.require(len(explicit) == 2, f"{f.qual}: expected two paths with a "
                f"constant direction, found {len(explicit)}")
    ctx.require(len(auto) == 1, f"{f.qual}: expected one path through "
                f"_find_best_feature, found {len(auto)}")
    # best_feat must be a column NAME (kind lattice NAME/ARRAY)
    want_name = ("attr", ("param", f.params[1]), "direction")
    ok_n = all(x["name"] == want_name for x in explicit)
    ctx.check(ok_n, "C07a-best-feat-is-a-name", f,
              "with an explicit direction the recorded best feature is the "
              "feature's name",
              f"best_feat = {[show(x['name'], 60) for x in explicit]} (brew "
              "uses it as a column name)", node=f.node)
    for x in explicit:
        x["labels_desc"] = ul_desc(x["lab"])
        x["count_ok"] = x["cnt"] == (
            "mcall", ("cmp", "==", x["lab"], ("const", 1)), "sum", (), ())
    ok_arms = all(x["labels_desc"] is not None
                  and x["labels_desc"] == x["desc"][1] and x["count_ok"]
                  for x in explicit) and \
        {x["desc"][1] for x in explicit} == {True, False}
    ctx.check(ok_arms, "C07a-direction-arms-consistent", f,
              "each explicit-direction path returns labels, their own "
              "accepted count and the direction they were computed with",
              "; ".join(
                  f"path {x['where'][-1]}: direction {x['desc'][1]}, labels "
                  f"computed with desc={x['labels_desc']}, count is "
                  f"{'the' if x['count_ok'] else 'NOT the'} number of "
                  "accepted labels" for x in explicit), node=f.node)
    # the choice compares the two counts: on the path that returns count C
    # the other count O satisfies O <= C (or O < C)
    ok_t = True
    for x, y in (explicit, explicit[::-1]):
        ok_t = ok_t and any(
            c[0] in ("lt", "le") and c[1] == y["cnt"] and c[2] == x["cnt"]
            for c in x["conds"])
    ctx.check(ok_t, "C07a-direction-choice", f,
              "the direction with more accepted targets is chosen",
              "; ".join(f"direction {x['desc'][1]} is taken when "
                        f"{x['where'][-1]}" for x in explicit), node=f.node)
    # automatic path: (name, count, labels, direction) of _find_best_feature
    # used position by position
    x = auto[0]
    items = [x["name"], x["cnt"], x["lab"], x["desc"]]
    ok_a = all(t[0] in ("item", "sub") and t[2] in (i, ("const", i))
               and t[1][0] == "mcall" and t[1][2] == "_find_best_feature"
               for i, t in enumerate(items)) and \
        len({t[1] for t in items}) == 1
    ctx.check(ok_a, "C07a-automatic-arm", f,
              "automatic direction: (name, count, labels, direction) of "
              "_find_best_feature are used position by position",
              f"{[show(t, 60) for t in items]}", node=f.node)


def _best_feature_loop(ctx, f):
    """Sink-driven: the function returns (feature, count, labels,
    direction).  Each component is followed back to its definition inside
    the loop over the directions - through a record tuple that is unpacked
    after the loop, or, for the labels, to a call after the loop that is a
    function of the returned feature and direction."""
    from ..tutil import bound_args, bound_margs, no_uids
    from ..inline import _loop_level_jumps
    prog = ctx.prog
    cfg = CFG(f.node)
    du = DefUse(prog, f)
    T = Terms(du, phi_vars=True)
    loops = []
    for n in walk_own(f.node):
        if isinstance(n, ast.For):
            it = T.of(n.iter)
            if it[0] in ("tuple", "list") and it[1] and all(
                    x[0] == "const" and isinstance(x[1], bool)
                    for x in it[1]):
                loops.append((n, it))
    ctx.require(len(loops) == 1, f"{f.qual}: direction loop not found")
    lp, it = loops[0]
    vals = sorted(x[1] for x in it[1])
    ctx.check(vals == [False, True], "C07a-both-directions", f,
              "the best feature is searched in both score directions",
              f"loop iterates over {show(it, 60)}", node=lp)
    early = [n for n in _loop_level_jumps(lp.body)
             if isinstance(n, ast.Break)] + [
        n for n in ast.walk(lp) if isinstance(n, ast.Return)]
    ctx.check(not early, "C07a-both-directions-no-early-exit", f,
              "both directions are always examined (no break/return in the "
              "loop)",
              "the loop over the directions can stop early: a strong "
              "lower-is-better feature is never considered once any "
              "higher-is-better feature accepts a PSM", node=lp)
    rets = [n for n in walk_own(f.node) if isinstance(n, ast.Return)
            and n.value is not None]
    ctx.require(len(rets) == 1, f"{f.qual}: expected one return")
    rt = T.of(rets[0].value)
    ctx.require(rt[0] == "tuple" and len(rt[1]) == 4,
                f"{f.qual}: expected a 4-tuple as return")
    comps = dict(zip(("feat", "cnt", "lab", "desc"), rt[1]))
    loop_elem = ("elem", it)

    def inloop(t):
        """[(value term, node)] of the definitions of ``t`` inside the
        direction loop; None when ``t`` is not loop-carried state"""
        if t[0] == "var":
            out = []
            for d in T.var_defs.get(t, ()):
                if d.node is not None and inside(d.node, lp) and \
                        d.node is not lp:
                    out.append((T.of_def(d), d.node))
            return out
        if t[0] == "item" or (t[0] == "sub" and t[2][0] == "const"
                              and isinstance(t[2][1], int)):
            i = t[2] if t[0] == "item" else t[2][1]
            base = inloop(t[1])
            if base is None:
                return None
            return [(v[1][i], n) if v[0] == "tuple" and isinstance(i, int)
                    and i < len(v[1]) else (("item", v, i), n)
                    for v, n in base]
        return None

    def defs_in_loop(name_node, path, depth=0):
        out = []
        for d in du.defs_of(name_node):
            if d.node is None or d.node is lp:
                continue
            if inside(d.node, lp):
                v = T.of_def(d)
                for i in path:
                    v = v[1][i] if v[0] == "tuple" and isinstance(
                        i, int) and i < len(v[1]) else ("item", v, i)
                out.append((v, d.node))
            elif d.kind == "assign" and isinstance(d.value, ast.Name) \
                    and depth < 4:
                p_ = tuple((d.extra or {}).get("path") or ())
                out.extend(defs_in_loop(d.value, p_ + tuple(path),
                                        depth + 1))
        return out

    def conds_of(node):
        conds = set()
        for test, outcome in cfg.necessary_conditions(cfg.stmt_of(node)):
            if not inside(test, lp):
                continue
            t = T.of(test)
            while t[0] == "un" and t[1] == "not":
                t, outcome = t[2], not outcome
            conds.add(norm_cmp(t, outcome) or (t, outcome))
        return conds

    elts = rets[0].value.elts if isinstance(
        rets[0].value, ast.Tuple) else [None] * 4
    slots = {}
    for (key, t), e in zip(comps.items(), elts):
        ds = inloop(t)
        if ds is None and isinstance(e, ast.Name):
            # a name with a single definition is its value in the term
            # language: go back to the definitions themselves (through a
            # record that is unpacked after the loop)
            ds = defs_in_loop(e, ())
        if key == "lab" and not ds:
            slots[key] = None       # computed after the loop, see below
            continue
        resets = []
        if ds and len(ds) > 1:
            # a constant filed unconditionally at the top of every round
            # of the direction loop is a *reset*: what the earlier
            # directions found is forgotten
            resets = [(v, n) for v, n in ds if v[0] == "const"
                      and not conds_of(n) and cfg.enclosing(
                          cfg.stmt_of(n), (ast.For, ast.While)) is lp]
            if len(resets) == len(ds):
                resets = []
        if key == "cnt" or resets:
            if True:
                ctx.check(not resets, "C07a-best-spans-both-directions", f,
                          "the best-so-far record is initialised once, "
                          "before the loop over the directions",
                          f"the returned {key} ({show(t, 40)}) is reset to "
                          f"{show(resets[0][0], 20) if resets else ''} at "
                          "the start of every "
                          "direction: the second direction wins with any "
                          "candidate that accepts at least one target, "
                          "however much better the first direction was",
                          node=resets[0][1] if resets else lp)
                ds = [x for x in ds if x not in resets]
        ctx.require(ds is not None and len(ds) == 1,
                    f"{f.qual}: the returned {key} ({show(t, 60)}) has "
                    f"{len(ds or [])} definitions in the direction loop; "
                    "rule C07a needs re-reading")
        v, node = ds[0]
        slots[key] = (show(t, 30), node, v, conds_of(node))
    live = [v for v in slots.values() if v is not None]
    same = len({frozenset(v[3]) for v in live}) == 1
    _n, cnt_node, cnt_val, conds = slots["cnt"]
    def as_item(t):
        # rec[0] on a tuple record is the record's component 0
        return map_term(t, lambda x: ("item", x[1], x[2][1])
                        if x[0] == "sub" and x[2][0] == "const"
                        and type(x[2][1]) is int else x)
    better = [c for c in conds if c[0] in ("lt", "le")
              and no_uids(as_item(c[1])) == no_uids(as_item(comps["cnt"]))
              and as_item(c[2]) == as_item(cnt_val)]
    ok = same and len(conds) == 1 and len(better) == 1
    ok_desc = slots["desc"][2] == loop_elem
    ctx.check(ok and ok_desc, "C07a-best-updated-together", f,
              "feature, count, labels and direction of the best candidate "
              "are updated together, exactly when a candidate accepts more "
              "targets than the best so far",
              "in-loop updates: " + "; ".join(
                  f"{v[0]} := {show(v[2], 50)} under "
                  f"{sorted(show(c, 60) for c in v[3])}"
                  for v in live),
              node=cnt_node)
    if ok and ok_desc:
        if slots["lab"] is not None:
            lab, lab_node = slots["lab"][2], slots["lab"][1]
            feat, want_desc = slots["feat"][2], loop_elem
        else:
            # labels computed once, after the loop, for the winner: they
            # must be a function of the returned feature and direction
            lab, lab_node = comps["lab"], rets[0]
            feat, want_desc = comps["feat"], comps["desc"]
        ok_l = False
        b = None
        if lab[0] == "mcall" and lab[2] == "_update_labels":
            b = bound_margs(prog, lab)
            if b is None:
                args, kws = lab[3], dict(lab[4])
                b = dict(kws)
                for i_, nm in enumerate(("scores", "eval_fdr", "desc")):
                    if i_ < len(args):
                        b.setdefault(nm, args[i_])
        elif lab[0] == "call" and str(lab[1]).endswith("._update_labels"):
            b = bound_args(prog, lab)
        if b is not None:
            p_fdr = [p for p in f.params if p != "self"][0]
            sc = b.get("scores")
            ok_l = no_uids(b.get("desc", ("const", True))) == no_uids(
                want_desc) and sc is not None and any(
                no_uids(x) == no_uids(feat) for x in walk_term(sc)) and \
                b.get("eval_fdr") == ("param", p_fdr)
        ctx.check(ok_l, "C07a-labels-of-best", f,
                  "the labels returned are those of the winning feature in "
                  "the winning direction",
                  f"labels = {show(lab, 160)}", node=lab_node)
    # the candidate count is the count of the candidate feature in the
    # candidate direction
    cnt_ok = any(
        isinstance(x, tuple) and x and x[0] == "mcall"
        and x[2] == "_targets_count_by_feature" and loop_elem in (
            list(x[3]) + [v for _k, v in x[4]])
        for x in walk_term(cnt_val))
    ctx.check(cnt_ok, "C07a-count-of-direction", f,
              "the candidate count is computed in the loop's direction",
              f"count = {show(cnt_val, 160)}", node=cnt_node)


RECORD_ATTRS = ("best_feat", "feat_pass", "desc")


def _record_writers(ctx):
    """Who may write the best-feature record.  brew's fallback reads
    (best_feat, feat_pass, desc) off the models; the three belong together
    and are produced by one call of _get_starting_labels in Model.fit.  Any
    other place that assigns one of them on a model - a loader that "fills
    in defaults", a copy helper, a setattr loop over a table of names - can
    separate the direction from the feature it was measured for."""
    prog = ctx.prog
    model_classes = {"mokapot.model.Model"} | {
        c.qual for c in prog.subclasses("mokapot.model.Model")}
    allowed = {"mokapot.model.Model.__init__", "mokapot.model.Model.fit"}
    n_sites = 0

    def strings_reachable(func, expr):
        out = set()
        T = Terms(DefUse(prog, func))
        t = T.of(expr)
        for x in walk_term(t):
            if not isinstance(x, tuple) or len(x) < 2:
                continue
            if x[0] == "const" and isinstance(x[1], str):
                out.add(x[1])
            if x[0] == "name" and isinstance(x[1], str) and "." in x[1]:
                mod, _, nm = x[1].rpartition(".")
                m = prog.modules.get(mod)
                v = m.assigns.get(nm) if m is not None else None
                if v is not None:
                    out |= {c.value for c in ast.walk(v)
                            if isinstance(c, ast.Constant)
                            and isinstance(c.value, str)}
        return out

    for q in sorted(prog.funcs):
        fn = prog.funcs[q]
        if isinstance(fn.node, ast.Lambda):
            continue
        own_model = fn.cls is not None and fn.cls.qual in model_classes
        for n in walk_own(fn.node):
            targets = []
            if isinstance(n, ast.Assign):
                targets = list(n.targets)
            elif isinstance(n, (ast.AugAssign, ast.AnnAssign)):
                targets = [n.target]
            flat = []
            for tg in targets:
                flat.extend(tg.elts if isinstance(
                    tg, (ast.Tuple, ast.List)) else [tg])
            for tg in flat:
                if not (isinstance(tg, ast.Attribute)
                        and tg.attr in RECORD_ATTRS):
                    continue
                on_self = isinstance(tg.value, ast.Name) and \
                    tg.value.id == "self"
                if on_self and not own_model:
                    continue    # another class's own attribute of that name
                n_sites += 1
                ctx.check(q in allowed, "C07a-record-writers", fn,
                          f"'{ast.unparse(tg)}' is written where the record "
                          "is made (Model.__init__ / Model.fit)",
                          f"{q} assigns {ast.unparse(tg)}: the best-feature "
                          "record of a model (feature, count, direction) is "
                          "changed outside Model.fit, so brew's fallback "
                          "may pair a feature with a direction it was not "
                          "measured for", node=n)
            if isinstance(n, ast.Call) and callee_is(
                    prog, fn, n, "builtins.setattr") and len(n.args) == 3:
                nm = const_value(n.args[1], None)
                names = {nm} if isinstance(nm, str) else \
                    strings_reachable(fn, n.args[1])
                hit = sorted(set(RECORD_ATTRS) & names)
                if hit:
                    n_sites += 1
                    ctx.check(q in allowed, "C07a-record-writers", fn,
                              "setattr on the record only where it is made",
                              f"{q} sets {hit} with setattr(): the "
                              "best-feature record of a model is changed "
                              "outside Model.fit", node=n)
    ctx.floor("C07a-record-writers", n_sites, 3)


# ------------------------------------------------------------------ b
def _label_taint(ctx):
    prog = ctx.prog
    ulf = prog.func(UL)
    sites = prog.callers_of(UL)
    ctx.floor("C07b-update-labels-sites", len(sites), 3)
    for caller, call, kind in sites:
        b = prog.bind(ulf, call)
        tg = b.get("targets")
        ctx.require(tg is not None, f"{caller.qual}: _update_labels call "
                    "without targets")
        du = DefUse(prog, caller)
        T = Terms(du)
        t = T.of(tg)
        ok, why = _targets_clean(prog, caller, t, tg, depth=0)
        ctx.check(ok, "C07b-labels-converted", caller,
                  f"labels given to _update_labels at line {call.lineno} "
                  "are booleans (converted / dataset targets)",
                  why, node=call)
    # dataset constructor from file data: _create_psms converts first
    cp = prog.func("mokapot.brew._create_psms")
    cfg = CFG(cp.node)
    conv = [n for n in ast.walk(cp.node) if isinstance(n, ast.Call)
            and callee_is(prog, cp, n, CONV)]
    ctor = [n for n in ast.walk(cp.node) if isinstance(n, ast.Call)
            and callee_is(prog, cp, n, "LinearPsmDataset")]
    ok = len(conv) == 1 and len(ctor) == 1 and cfg.every_path_passes(
        cfg.entry.id, cfg.node_of(ctor[0]).id, {cfg.node_of(conv[0]).id})
    if ok:
        cT = Terms(DefUse(prog, cp))
        kb = {k: cT.of(v) for k, v in prog.bind(
            prog.func(CONV), conv[0]).items()}
        cb = {k: cT.of(v) for k, v in prog.bind(
            prog.func("mokapot.dataset.LinearPsmDataset.__init__"),
            ctor[0]).items()}

        def frame(t):
            # the frame object, also after the in-place conversion
            while t[0] in ("store", "mut", "mutsub") or (
                    t[0] == "call" and t[1] == CONV and t[2]):
                t = t[1] if t[0] != "call" else t[2][0]
            return t
        ok = kb.get("data") is not None and frame(
            kb.get("data")) == frame(cb.get("psms", ("x",))) and \
            kb.get("target_column") == cb.get("target_column")
    ctx.check(ok, "C07b-dataset-labels-converted", cp,
              "file data is converted before it becomes a dataset (whose "
              "constructor casts labels with astype(bool))",
              "LinearPsmDataset is built from file data whose label column "
              "was not converted: -1 would become True", node=cp.node)
    # the converter itself maps exactly 1 -> True: the label table of
    # C10b, evaluated on terms over label vectors (shared clause)
    from .c10 import _label_table
    _label_table(ctx, prog.func(CONV))


def _targets_clean(prog, caller, t, node, depth):
    if any(x[0] == "call" and x[1] == CONV for x in walk_term(t)):
        return True, ""
    if tkey(t) == "self.targets" and caller.cls is not None and \
            caller.cls.name in ("LinearPsmDataset", "PsmDataset"):
        return True, ""
    from ..tutil import np_call, strip_conv
    s = strip_conv(t)
    # one fold's labels taken off a per-fold list handed in by the caller:
    # np.hstack(L.pop(0)), L[i], an element of L ...
    while True:
        c = np_call(s)
        if c and c[0] in ("hstack", "concatenate") and c[1]:
            s = strip_conv(c[1][0])
        elif s[0] == "mcall" and s[2] == "pop":
            s = strip_conv(s[1])
        elif s[0] in ("sub", "elem") and s[1][0] in ("param", "sub",
                                                     "elem"):
            s = strip_conv(s[1])
        else:
            break
    if s[0] == "param" and depth < 4:
        pname = s[1]
        callers = prog.callers_of(caller.qual)
        if not callers:
            return True, ""  # public API: caller's responsibility
        for c2, call2, _k in callers:
            b = prog.bind(caller, call2)
            a = b.get(pname)
            if a is None:
                continue
            du = DefUse(prog, c2)
            T2 = Terms(du)
            ok, why = _targets_clean(prog, c2, T2.of(a), a, depth + 1)
            if not ok:
                return False, f"via {c2.qual}: {why}"
        return True, ""
    # boolean targets of datasets built by _create_psms (which converts)
    txt = tkey(t, 300)
    ds_targets = [x for x in walk_term(t) if x[0] == "attr"
                  and x[2] == "targets"]
    if ds_targets and all(
            any(y[0] == "call" and y[1] == "mokapot.brew._create_psms"
                for y in walk_term(x[1])) for x in ds_targets):
        return True, ""
    reads = [x for x in walk_term(t)
             if x[0] == "mcall" and x[2] in ("read", "read_data",
                                             "get_chunked_data_iterator")]
    if reads:
        return False, ("the label column is read from file "
                       f"({show(reads[0], 80)}) and used without "
                       "convert_targets_column: labels written as -1 count "
                       "as targets")
    # origin not recognised: neither a converted column, dataset targets nor
    # an unconverted file read - the rule cannot judge this
    raise AnalysisError(f"{caller.qual}: origin of the labels not "
                        f"recognised ({txt[:120]}); rule C07b needs "
                        "re-reading")


# ------------------------------------------------------------------ c
def _direction_downstream(ctx):
    prog = ctx.prog
    f = prog.func("mokapot.confidence.assign_confidence")
    du = DefUse(prog, f)
    T = Terms(du)
    loops = [n for n in ast.walk(f.node) if isinstance(n, ast.For)
             and "descs" in ast.unparse(n.iter)
             and "zip" in ast.unparse(n.iter)]
    ctx.require(len(loops) == 1, f"{f.qual}: collection loop not found")
    lp = loops[0]
    names = [e.id for e in lp.target.elts]
    zargs = [ast.unparse(a) for a in lp.iter.args]
    ctx.require("descs" in zargs, f"{f.qual}: descs not zipped")
    dvar = names[zargs.index("descs")]
    # (1) the score vector handed to the sorter depends on the direction
    cs = [n for n in ast.walk(lp) if isinstance(n, ast.Call)
          and ast.unparse(n.func) == "create_sorted_file_iterator"]
    ctx.require(len(cs) == 1, f"{f.qual}: sorter call not found")
    via_scores = any(
        isinstance(x, ast.Name) and x.id == dvar
        for a in list(cs[0].args) + [k.value for k in cs[0].keywords]
        for x in ast.walk(a))
    if not via_scores:
        for a in cs[0].args:
            roots = du.backward_roots(a)
            # loop variables are not params; check def-use through the loop
            for n in ast.walk(a):
                if isinstance(n, ast.Name):
                    for d in du.defs_of(n):
                        if d.value is not None and dvar in {
                                y.id for y in ast.walk(d.value)
                                if isinstance(y, ast.Name)}:
                            via_scores = True
    # (2) or it reaches the q-value computation / sort direction
    ac = prog.func("mokapot.confidence.LinearConfidence._assign_confidence")
    du2 = DefUse(prog, ac)
    qcalls = [n for n in ast.walk(ac.node) if isinstance(n, ast.Call)
              and "qvalues_from_scores" in ast.unparse(n.func)]
    via_q = False
    for q in qcalls:
        for a in list(q.args) + [k.value for k in q.keywords]:
            if ("param", "desc") in du2.backward_roots(a):
                # self.scores is re-assigned with desc only after q-values
                via_q = True
    # self.scores used by qvalues: is desc applied before?
    if qcalls:
        cfg = CFG(ac.node)
        flips = [st for (r, a, v, st) in du2.attr_stores
                 if r == "self" and a == "scores"
                 and ("param", "desc") in du2.backward_roots(v)]
        qn = cfg.node_of(qcalls[0]).id
        for st in flips:
            if cfg.every_path_passes(cfg.node_of(cfg.enclosing(
                    qcalls[0], (ast.For,))).id, qn,
                    {cfg.node_of(st).id}):
                via_q = True
    ctx.check(via_scores or via_q, "C07c-direction-routing", f,
              "desc->ranking",
              "the direction in 'descs' reaches neither the scores that are "
              "sorted/merged nor the q-value computation: chunks are sorted "
              "descending, the merge takes the maximum and tdc runs with "
              "desc=True, so a lower-is-better score is ranked upside down "
              "(the sign flip by desc happens only after the q-values)",
              node=cs[0])
