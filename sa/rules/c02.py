"""C02 - no PSM is scored by a model that saw its spectrum."""

from __future__ import annotations

import ast

from ..astutil import inside
from ..core import delayed_task_of, walk_own
from ..tutil import elem_of
from ..events import container_events, name_aug_events, root_name
from ..cfg import CFG
from ..core import AnalysisError, const_value
from ..defuse import DefUse, Terms, show, walk_term
from ..defuse import key as tkey
from ..tutil import (base_of, bound_args, bound_margs, flattened_of, callee_of, lin, norm_calls,
                     np_call, strip_conv, strip_materialise, subst_params)

EXPLANATION = (
    "Static analysis of brew.make_train_sets, brew.brew, brew._predict, "
    "brew.get_index_values/predict_fold, parsers.pin.parse_in_chunks / "
    "get_rows_from_dataframe / concat_and_reindex_chunks and "
    "OnDiskPsmDataset._split. (a) def-use provenance: every write to the "
    "per-file training index list is the empty list, += list(range-set - "
    "set(idx)) with idx the current fold's held-out indices of that same "
    "file (ranges tiling [0, size)), or rng.choice(train_idx[i], n, "
    "replace=False) written back to the same i. (b) fold/model/row "
    "correspondence: training sets are produced per fold in fold order, "
    "fitted with fold number = enumerate index over the whole list, sorted "
    "by fold on every path; the per-row model index is fold i repeated "
    "len(fold i) times, concatenated in fold order and un-permuted with "
    "argsort of the flattened fold indices of the same collection; in "
    "_predict rows with fold label i go to slot i, model i, score list i. "
    "(c) spectra are never split: on every path the cut positions given to "
    "np.split are selected from the group-start indices of np.unique on "
    "the hash array sorted by the same permutation as the row ids; the "
    "hash covers the whole spectrum key and is process-independent. (d) "
    "scores are concatenated fold-major and un-permuted with argsort of "
    "the fold-major original indices. Also: in _predict no container that one collection both fills and reads is created outside the per-collection loop. NOT decided: fold sizes, estimator "
    "behaviour.")
TECHNIQUE = ("def-use provenance over all writes + all-paths (phi leaves) "
             "term matching + CFG must-pass-through + index-correspondence "
             "typing of comprehensions")


def run(ctx):
    prog = ctx.prog
    _train_sets(ctx, prog.func("mokapot.brew.make_train_sets"))
    _brew_mapping(ctx, prog.func("mokapot.brew.brew"))
    _predict(ctx, prog.func("mokapot.brew._predict"))
    _split(ctx, prog.func("mokapot.dataset.OnDiskPsmDataset._split"))
    _parse_in_chunks(ctx)
    from .c05 import _models_sorted, _parquet_index
    _models_sorted(ctx)
    # the scores are put back in input order by the row index of the chunks
    _parquet_index(ctx)


# ------------------------------------------------------------------ a
def _counting_while(w, du, T, cfg):
    """(k name, step term, bound term) of a loop
           k = 0                      (checked by the caller: init)
           while k + step < bound:    (or <=; either orientation)
               ... k' = k + step      (the only redefinition of k, on every
                                       pass: k += step, or k = stop with
                                       stop = k + step)
       else None."""
    from ..astutil import norm_cmp
    t = T.of(w.test)
    n = norm_cmp(t, True)
    if n is None or n[0] not in ("lt", "le"):
        return None
    left, bound = n[1], n[2]
    li = lin(left)
    ks = [(li.terms[k], c) for k, c in li.atoms.items()
          if li.terms[k][0] == "var"]
    if len(ks) != 1 or ks[0][1] != 1:
        return None
    kvar = ks[0][0]
    kname = kvar[1]
    # step = left - k
    st = li + lin(kvar).scale(-1)
    redefs = [d for d in du.defs if d.name == kname and d.node is not None
              and inside(d.node, w) and d.node is not w]
    if len(redefs) != 1:
        return None
    d = redefs[0]
    nv = lin(T.of_def(d)) + lin(kvar).scale(-1)
    # the new value is k + step (k: the loop-carried variable)
    if not (nv == st):
        return None
    body_first = cfg.node_of(w.body[0]).id
    hdr = cfg.node_of(w).id
    dn = cfg.node_of(d.node).id
    if not (cfg.every_path_passes(body_first, hdr, {dn}) or body_first == dn):
        return None
    if any(isinstance(x, (ast.Break, ast.Return)) for x in ast.walk(w)):
        return None
    return kname, st, bound, n[0]


def _train_sets(ctx, f):
    """Sink-driven: the object yielded per fold, how it is initialised, and
    every update event that reaches it (through aliases), judged on terms."""
    prog = ctx.prog
    du = DefUse(prog, f)
    T = Terms(du, phi_vars=True)
    cfg = CFG(f.node)
    ps = f.params
    p_test, p_cap, p_size, p_rng = ps[:4]
    ZIP = ("call", "builtins.zip", (("star", ("param", p_test)),), ())
    outer = [n for n in walk_own(f.node) if isinstance(n, ast.For)
             and T.of(n.iter) == ZIP]
    ctx.require(len(outer) == 1, f"{f.qual}: loop over zip(*test_idx) not "
                "found")
    fl = outer[0]
    FOLD = ("elem", ZIP)
    ys = [n for n in walk_own(f.node) if isinstance(n, ast.Yield)]
    names = set()
    for y in ys:
        if isinstance(y.value, ast.Name):
            names.add(y.value.id)
    hdr = cfg.node_of(fl).id
    first = cfg.node_of(fl.body[0]).id
    yn = {cfg.node_of(cfg.stmt_of(y)).id for y in ys}
    once = bool(ys) and all(inside(y, fl) for y in ys) and (
        cfg.every_path_passes(first, hdr, yn) or first in yn) and not any(
        (yn - {a}) & cfg.reachable_normally(a, avoid={hdr}) for a in yn)
    ok_y = once and len(names) == 1 and all(
        isinstance(y.value, ast.Name) for y in ys)
    ctx.check(ok_y, "C02a-one-training-set-per-fold", f,
              "exactly one training set is yielded per held-out fold, in "
              "fold order",
              "a pass through the fold loop yields no training set, or "
              "more than one, or different objects", node=fl)
    if not ok_y:
        return
    tname = next(iter(names))
    # --- initialisation: one empty list per file, for every fold
    inits = [d for d in du.defs if d.name == tname and d.kind == "assign"
             and d.node is not None]
    from ..tutil import one_to_one
    SIZE = ("param", p_size)
    for d in inits:
        t = T.of_def(d)
        base = one_to_one(t) if t[0] == "comp" else None
        if base is not None and base[0] == "call" and \
                base[1] == "builtins.range" and len(base[2]) == 1 and \
                base[2][0] == ("call", "builtins.len", (SIZE,), ()):
            base = SIZE
        ok = t[0] == "comp" and t[1] == "list" and t[2] == ("list", ()) \
            and base == SIZE and inside(d.node, fl)
        ctx.check(ok, "C02a-training-set-provenance", f,
                  "training index lists start empty for every fold",
                  f"{tname} = {show(t, 100)}"
                  + ("" if inside(d.node, fl) else " (outside the fold "
                     "loop: rows of an earlier fold stay in the set)"),
                  node=d.node)
    ctx.require(bool(inits), f"{f.qual}: {tname} is never initialised")
    # --- update events that reach the yielded object
    evs = [e for e in container_events(f.node, T, cfg)
           + name_aug_events(f.node, du, T, cfg)
           if root_name(e.recv) == tname]
    n_writes = len(inits) + len(evs)
    ctx.floor("C02a-writes", n_writes, 3)
    file_loops = [n for n in walk_own(fl) if isinstance(n, ast.For)
                  and T.of(n.iter) == ("call", "builtins.enumerate",
                                       (FOLD,), ())]
    ctx.require(len(file_loops) == 1, f"{f.qual}: loop over the files of a "
                "fold not found")
    fil = file_loops[0]
    FI, HELD = ("idx", FOLD), ("elem", FOLD)
    DS = ("sub", SIZE, FI)

    def slot_of(e):
        """file index of the slot an event changes, else None"""
        r = e.recv
        if e.key is not None and r[0] == "var" and r[1] == tname:
            return e.key
        if r[0] == "sub" and r[1][0] == "var" and r[1][1] == tname and \
                e.key is None:
            return r[2]
        return None

    def strip_seq(v):
        while v[0] == "call" and v[1] in ("builtins.list", "builtins.sorted",
                                          "builtins.tuple") and \
                len(v[2]) == 1 and not v[3]:
            v = v[2][0]
        return v

    pieces = []       # (range term, event)
    for e in evs:
        slot = slot_of(e)
        if e.kind in ("aug", "extend") and slot is not None:
            v = strip_seq(e.value if e.kind == "aug" else e.args[0])
            ok = False
            why = show(v, 120)
            if v[0] == "bin" and v[1] == "-":
                l, r = v[2], v[3]
                is_set = (lambda x: x[0] == "call" and x[1] in (
                    "builtins.set", "builtins.frozenset") and len(x[2]) == 1)
                ok = (inside(e.node, fil) and slot == FI and is_set(l)
                      and is_set(r) and l[2][0][0] == "call"
                      and l[2][0][1] == "builtins.range"
                      and r[2][0] == HELD)
                if ok:
                    pieces.append((l[2][0], e))
                else:
                    why = (f"{tname}[{show(slot, 40)}] grows by "
                           f"{show(v, 80)}: expected {tname}[file] += "
                           "set(range(...)) - set(held-out rows of the same "
                           "file)")
            ctx.check(ok, "C02a-training-set-provenance", f,
                      "rows added to a file's training set are a range "
                      "minus that file's held-out fold", why, node=e.node)
        elif e.kind == "store" and slot is not None:
            v = e.value
            ok = False
            why = show(v, 140)
            if v[0] == "mcall" and v[2] == "choice":
                b = dict(v[4])
                args = v[3]
                src = args[0] if args else b.get("a")
                size = args[1] if len(args) > 1 else b.get("size")
                rep = args[2] if len(args) > 2 else b.get("replace")
                quota_it = slot[1] if slot[0] == "idx" else None
                own = src is not None and src[0] == "sub" and \
                    src[1][0] == "var" and src[1][1] == tname and \
                    src[2] == slot
                ok = (own and rep == ("const", False)
                      and v[1] == ("param", p_rng)
                      and quota_it is not None
                      and size == ("elem", quota_it))
                if not own:
                    why = (f"{tname}[{show(slot, 30)}] is sub-sampled from "
                           f"{show(src, 60) if src else None}: the capped "
                           "training rows of one file are drawn from "
                           "another file's index list (which contains rows "
                           "of this file's held-out fold)")
                elif rep != ("const", False):
                    why = "sub-sampling with replacement"
            ctx.check(ok, "C02a-training-set-provenance", f,
                      "the capped training set is sampled without "
                      "replacement from the same file's own training "
                      "indices", why, node=e.node)
        else:
            ctx.fail("C02a-training-set-provenance", f,
                     f"unexpected update {e.kind} of {show(e.recv, 60)}",
                     "training indices are modified by an unrecognised "
                     "operation", node=e.node)
    # --- the ranges whose complement is taken tile [0, rows of the file)
    ok_t, why_t = _ranges_tile(pieces, fil, du, T, cfg, DS)
    ctx.check(ok_t, "C02a-ranges-tile-the-file", f,
              "the ranges whose complement is taken tile [0, number of "
              "rows of the file)", why_t, node=fil)


def _ranges_tile(pieces, fil, du, T, cfg, DS):
    """Accepted ways to cover [0, DS):
         range(DS) / range(0, DS)
         k = 0; while k + s < DS: range(k, k + s); k += s   then range(k, DS)
         for a in range(0, DS, s): range(a, min(a + s, DS))
    """
    def bounds(r):
        a = r[2]
        if len(a) == 1:
            return ("const", 0), a[0]
        return a[0], a[1]

    desc = [show(r, 60) for r, _e in pieces]
    if len(pieces) == 1:
        lo, hi = bounds(pieces[0][0])
        e = pieces[0][1]
        if lo == ("const", 0) and hi == DS and cfg.enclosing(
                e.node, (ast.While,)) is None:
            return True, ""
        lp = cfg.enclosing(e.node, (ast.For,))
        if lp is not None and lp is not fil:
            it = T.of(lp.iter)
            if it[0] == "call" and it[1] == "builtins.range" and \
                    len(it[2]) == 3 and it[2][0] == ("const", 0) and \
                    it[2][1] == DS:
                A = ("elem", it)
                step = it[2][2]
                want_hi = ("call", "builtins.min",
                           (("bin", "+", A, step), DS), ())
                want_hi2 = ("call", "builtins.min",
                            (DS, ("bin", "+", A, step)), ())
                if lo == A and hi in (want_hi, want_hi2):
                    return True, ""
        return False, f"ranges: {desc}"
    if len(pieces) == 2:
        inw = [(r, e) for r, e in pieces
               if cfg.enclosing(e.node, (ast.While,)) is not None]
        out = [(r, e) for r, e in pieces
               if cfg.enclosing(e.node, (ast.While,)) is None]
        if len(inw) == 1 and len(out) == 1:
            w = cfg.enclosing(inw[0][1].node, (ast.While,))
            cw = _counting_while(w, du, T, cfg)
            if cw is None:
                return False, ("the loop that walks through the file is not "
                               "a counting loop 'k = 0; while k + step < "
                               f"rows: ...; k += step': ranges {desc}")
            kname, st, bound, kind = cw
            if bound != DS:
                return False, (f"the loop runs up to {show(bound, 60)}, not "
                               "the number of rows of the file")
            lo1, hi1 = bounds(inw[0][0])
            lo2, hi2 = bounds(out[0][0])
            isk = (lambda x: x[0] == "var" and x[1] == kname)
            d = lin(hi1) + lin(lo1).scale(-1)
            inits = [dd for dd in du.defs if dd.name == kname
                     and dd.kind == "assign" and dd.node is not None
                     and not inside(dd.node, w)]
            ok = (isk(lo1) and d == st and isk(lo2) and hi2 == DS
                  and len(inits) == 1
                  and T.of_def(inits[0]) == ("const", 0)
                  and inside(inits[0].node, fil)
                  # the tail piece follows the loop on every pass through
                  # the file loop
                  and cfg.every_path_passes(
                      cfg.node_of(fil.body[0]).id, cfg.node_of(fil).id,
                      {cfg.node_of(out[0][1].stmt).id})
                  and cfg.node_of(out[0][1].stmt).id in cfg.reachable_from(
                      cfg.node_of(w).id))
            if ok:
                return True, ""
            return False, (f"ranges {desc} do not continue one another from "
                           "0 to the number of rows")
    return False, f"ranges: {desc}"


# ------------------------------------------------------------------ b
def _brew_mapping(ctx, f):
    """All clauses are read off the (bound, normalised) argument terms of
    make_train_sets, parse_in_chunks and _predict: temporaries, keyword or
    positional spelling, loops versus comprehensions and the way the
    per-collection index is assembled do not matter."""
    prog = ctx.prog
    du = DefUse(prog, f)
    T = Terms(du)
    from ..proto import Calls
    from ..tutil import anon, normalise, strip_materialise
    c = Calls(prog, f, du=du, T=T)

    def one_call(q, what):
        sites = c.calls(q)
        ctx.require(len(sites) == 1, f"{f.qual}: {what} call not found "
                    f"({len(sites)})")
        t, node = sites[0]
        b = bound_args(prog, t)
        ctx.require(b is not None, f"{f.qual}: {what} arguments not bound")
        return b, node

    def nrm(t):
        return anon(normalise(t)) if t is not None else None

    mts, mts_n = one_call("mokapot.brew.make_train_sets", "make_train_sets")
    pic, pic_n = one_call("mokapot.parsers.pin.parse_in_chunks",
                          "parse_in_chunks")
    prd, prd_n = one_call("mokapot.brew._predict", "_predict")
    mp = prog.func("mokapot.brew.make_train_sets").params
    pp = prog.func("mokapot.parsers.pin.parse_in_chunks").params
    rp = prog.func("mokapot.brew._predict").params
    PSMS = prd.get(rp[1])
    FOLDS = nrm(mts.get(mp[0]))
    RNG = mts.get(mp[3])
    # folds: one _split per collection with the caller's fold count and the
    # run's generator
    ok = False
    FL = None
    if FOLDS is not None and FOLDS[0] == "comp" and len(FOLDS[3]) == 1 \
            and not FOLDS[3][0][2] and FOLDS[3][0][1] == PSMS:
        e = FOLDS[2]
        ok = (e[0] == "mcall" and e[1] == ("elem", PSMS)
              and e[2] == "_split"
              and e[3][:1] == (("param", "folds"),)
              and (e[3][1:2] == (RNG,) or dict(e[4]).get("rng") == RNG)
              and RNG is not None)
        FL = e
    ctx.check(ok, "C02b-split-per-collection", f,
              "every collection is split into the requested number of folds "
              "with the run's generator",
              f"folds = {show(FOLDS, 140) if FOLDS else None}", node=mts_n)
    want_size = ("comp", "list", ("call", "builtins.len", (
        ("attr", ("elem", PSMS), "spectra_dataframe"),), ()),
        (((), PSMS, ()),))
    ctx.check(ok and nrm(mts.get(mp[2])) == want_size
              and mts.get(mp[1]) == ("param", "subset_max_train"),
              "C02b-train-sets-from-folds", f,
              "training sets are derived from the very fold assignment that "
              "is used for scoring (and the sizes of the same collections)",
              f"make_train_sets(test_idx={show(FOLDS, 80) if FOLDS else None}"
              f", data_size={show(mts.get(mp[2]), 80)}, subset_max_train="
              f"{show(mts.get(mp[1]), 40)})", node=mts_n)
    tt = pic.get(pp[1])
    inner = tt
    while inner is not None and inner[0] == "call" and inner[1] in (
            "builtins.list", "builtins.tuple") and len(inner[2]) == 1:
        inner = inner[2][0]       # materialised in order
    ok_t = inner is not None and inner[0] == "call" and \
        inner[1] == "mokapot.brew.make_train_sets"
    ctx.check(ok_t and pic.get(pp[0]) == PSMS,
              "C02b-train-sets-unchanged", f,
              "the list of training index sets reaches parse_in_chunks "
              "unchanged (fold order kept), with the same collections",
              f"train_idx = {show(tt, 120) if tt else None}; psms = "
              f"{show(pic.get(pp[0]), 60)}", node=pic_n)
    # per-row model index of every collection, in input order
    IDX = nrm(prd.get(rp[0]))
    ok1 = ok2 = ok3 = False
    why = show(IDX, 200) if IDX else "None"
    if FL is not None and IDX is not None and IDX[0] == "comp" and \
            len(IDX[3]) == 1 and not IDX[3][0][2] and IDX[3][0][1] == PSMS:
        e = IDX[2]
        if e[0] == "sub":
            cat, order = np_call(e[1]), e[2]
            while order[0] == "mcall" and order[2] == "tolist" or (
                    order[0] == "call" and order[1] in (
                        "builtins.list", "numpy.asarray", "numpy.array")
                    and len(order[2]) == 1):
                # the same index values as a list / array
                order = order[1] if order[0] == "mcall" else order[2][0]
            ok3 = bool(cat) and cat[0] in ("concatenate", "hstack") and \
                len(cat[1]) == 1
            labels = cat[1][0] if ok3 else None
            o = np_call(order)
            ok2 = bool(o) and o[0] == "argsort" and len(o[1]) == 1 and \
                o[1][0] == ("call", "mokapot.utils.flatten", (FL,), ())
            if labels is not None and labels[0] == "comp" and \
                    len(labels[3]) == 1 and not labels[3][0][2] and \
                    labels[3][0][1] == ("call", "builtins.enumerate",
                                        (FL,), ()):
                one = ("list", (("idx", FL),))
                n = ("call", "builtins.len", (("elem", FL),), ())
                ok1 = labels[2] in (("bin", "*", one, n),
                                    ("bin", "*", n, one))
    ctx.check(ok1, "C02b-model-index-per-row", f,
              "row j of fold i is labelled with model index i (i = position "
              "of the fold in the collection's fold list)", why, node=prd_n)
    ctx.check(ok2, "C02b-inverse-of-fold-major-order", f,
              "the un-permutation is argsort of the collection's flattened "
              "(fold-major) row indices", why, node=prd_n)
    ctx.check(ok3 and ok1 and ok2, "C02b-model-index-in-input-order", f,
              "per-row model indices are concatenated fold-major and "
              "brought to input order with that un-permutation", why,
              node=prd_n)
    ctx.check(PSMS is not None and PSMS == pic.get(pp[0]),
              "C02b-predict-arguments", f,
              "_predict gets the per-row model indices of the same "
              "collections that were split and parsed",
              f"_predict(psms={show(PSMS, 60) if PSMS else None})",
              node=prd_n)
    # models is element 0 of zip(*fitted)
    mt = prd.get(rp[2])
    ok_m = mt is not None and mt[0] == "item" and mt[2] == 0 and any(
        isinstance(x, tuple) and x[:2] == ("call", "builtins.zip")
        for x in walk_term(mt))
    ctx.check(ok_m, "C02b-models-from-fitted", f,
              "the models handed to _predict are the (sorted) fitted models",
              f"models = {show(mt, 120) if mt else None}", node=prd_n)


def strip_growth(t):
    while t[0] in ("mutsub", "mut", "store"):
        t = t[1]
    if t[0] == "sub":
        return ("sub", strip_growth(t[1]), t[2])
    return t


def _call_args(prog, T, callee_qual, call):
    """formal parameter -> term of the actual argument"""
    cal = prog.func(callee_qual)
    return {k: T.of(v) for k, v in prog.bind(cal, call).items()}


def _is_pop0(t, var=None):
    """<var>.pop(0) on a (loop-carried) local list"""
    return (t[0] == "mcall" and t[2] == "pop" and t[3] == (("const", 0),)
            and not t[4] and t[1][0] == "var"
            and (var is None or t[1][1] == var))


def _is_pop_last_of_reversed(du, T, cfg, t):
    """<var>.pop() / .pop(-1) on a local list that was reversed in place
    exactly once, outside every loop that contains nothing else of it: the
    elements come out front to back, like pop(0) on the list as built."""
    if not (t[0] == "mcall" and t[2] == "pop" and not t[4]
            and t[3] in ((), (("const", -1),)) and t[1][0] == "var"):
        return False
    revs = [d for d in du.defs if d.name == t[1][1] and d.kind == "mut"
            and d.node is not None
            and T.of_def(d)[0] == "mut" and T.of_def(d)[2] == "reverse"]
    others = [d for d in du.defs if d.name == t[1][1] and d.kind == "mut"
              and d.node is not None and T.of_def(d)[0] == "mut"
              and T.of_def(d)[2] not in ("reverse", "pop")]
    if len(revs) != 1 or others:
        return False
    pops = [d for d in du.defs if d.name == t[1][1] and d.kind == "mut"
            and d.node is not None and T.of_def(d)[0] == "mut"
            and T.of_def(d)[2] == "pop"]
    # the reversal is not repeated with the pops: it is outside their loop
    for pd_ in pops:
        lp = cfg.enclosing(pd_.node, (ast.For, ast.While))
        if lp is not None and inside(revs[0].node, lp):
            return False
    return True


def _plain_comp(t):
    """(element term, iterable term) of a one-generator comprehension
    without conditions, else None"""
    if t[0] == "comp" and len(t[3]) == 1 and not t[3][0][2]:
        return t[2], t[3][0][1]
    return None


def _predict(ctx, f):
    """Facts about brew._predict, all read off reconstructed terms (local
    names, temporaries, loop-versus-comprehension spelling do not matter):

      chunk    = elem(<dataset>.read_data(...)) with ['fold'] := V.pop(0)
      V        = create_chunks(data=<the collection's model index>, ...)
      slices   = [get_index_values(chunk, 'fold', i, ORIG) for i in range(n)]
      datasets = [_create_psms(<dataset>, s, ...) for s in slices]
      tasks    = predict_fold(model=models[i], fold=i, psms=datasets[i],
                              scores=FS) for i, _ in enumerate(datasets)
      scores  += per model, in model order, hstack(FS.pop(0))
      yield      concatenate(scores)[argsort(sum(ORIG, []))]
    """
    prog = ctx.prog
    du = DefUse(prog, f)
    T = Terms(du, phi_vars=True)
    cfg = CFG(f.node)
    p_idx, p_psms, p_models = f.params[:3]
    # ---- the prediction task
    from ..proto import Calls
    from ..tutil import POS, align_positions, fuse_comps
    tasks = Calls(prog, f, du=du, T=T, cfg=cfg).calls(
        "mokapot.brew.predict_fold")
    ctx.require(len(tasks) == 1, f"{f.qual}: predict_fold task not found")
    task = [tasks[0][1]]
    kw = bound_args(prog, tasks[0][0]) or {}
    pf = prog.func("mokapot.brew.predict_fold")
    p_model, p_fold, p_pp, p_scores = pf.params
    t_fold, t_model, t_ps, t_fs = (kw.get(p_fold), kw.get(p_model),
                                   kw.get(p_pp), kw.get(p_scores))
    ctx.require(None not in (t_fold, t_model, t_ps, t_fs),
                f"{f.qual}: predict_fold task misses an argument")
    # fold = position k, psms = D[k], model = models[k]   (any spelling of
    # "the same position": enumerate, zip, range(len(..)) with subscripts)
    a_fold, a_ps, a_model = (align_positions(t_fold), align_positions(t_ps),
                             align_positions(t_model))
    def pos_expr(t):
        if t == POS or t[0] == "const":
            return True
        if t[0] == "bin":
            return pos_expr(t[2]) and pos_expr(t[3])
        if t[0] == "un":
            return pos_expr(t[2])
        return False
    gen = cfg.enclosing(task[0], (ast.GeneratorExp, ast.ListComp))
    if not (pos_expr(a_fold) and a_ps[0] == "sub" and pos_expr(a_ps[2])
            and a_model[0] == "sub" and pos_expr(a_model[2])
            and gen is not None):
        raise AnalysisError(
            f"{f.qual}: how a prediction task is paired with its fold, "
            f"model and slice is written in a form the rule does not read "
            f"(fold={show(t_fold, 50)}, model={show(t_model, 50)}, psms="
            f"{show(t_ps, 50)}); rule C02b needs re-reading")
    ok_t = (a_fold == POS and a_ps[0] == "sub" and a_ps[2] == POS
            and a_model == ("sub", ("param", p_models), POS))
    ok_t = ok_t and gen is not None and len(gen.generators) == 1 and \
        not gen.generators[0].ifs
    D = a_ps[1] if ok_t else None
    # D = [_create_psms(ds, get_index_values(chunk, 'fold', i, ORIG), ..)
    #      for i in range(n)]   (one or two comprehensions, fused here)
    dc = _plain_comp(fuse_comps(D)) if D else None
    if D is not None and dc is None and fuse_comps(D)[0] != "comp":
        raise AnalysisError(
            f"{f.qual}: the per-chunk list of fold slices is built in a "
            f"form the rule does not read ({show(D, 100)}); rule C02b "
            "needs re-reading")
    if D is not None and dc is not None and not (
            dc[0][0] == "call" and dc[0][1] == "mokapot.brew._create_psms"):
        raise AnalysisError(
            f"{f.qual}: the per-chunk list of fold slices is built in a "
            f"form the rule does not read ({show(D, 100)}); rule C02b "
            "needs re-reading")
    ok_list = ok_s = False
    L = chunk_t = orig_t = None
    ds_t = None
    n_t = None
    if dc and dc[0][0] == "call" and dc[0][1] == "mokapot.brew._create_psms":
        cp = prog.func("mokapot.brew._create_psms")
        ba = bound_args(prog, dc[0]) or {}
        L = dc[1]
        ds_t = ba.get(cp.params[0])
        g = ba.get(cp.params[1])
        if g is not None and g[0] == "call" and \
                g[1] == "mokapot.brew.get_index_values":
            ok_list = True
            giv = prog.func("mokapot.brew.get_index_values")
            ga = bound_args(prog, g) or {}
            chunk_t = ga.get(giv.params[0])
            orig_t = ga.get(giv.params[3])
            rng = L
            while rng[0] == "call" and rng[1] in (
                    "builtins.list", "builtins.tuple") and \
                    len(rng[2]) == 1 and not rng[3]:
                rng = rng[2][0]
            if not (rng[0] == "call" and rng[1] == "builtins.range"):
                raise AnalysisError(
                    f"{f.qual}: the fold numbers the slices are cut for "
                    f"({show(L, 80)}) are not a range the rule can read; "
                    "rule C02b needs re-reading")
            L_as_written = L
            L = rng
            if rng[0] == "call" and rng[1] == "builtins.range" and \
                    len(rng[2]) == 1:
                n_t = rng[2][0]
                ok_s = (ga.get(giv.params[1]) == ("const", "fold")
                        and ga.get(giv.params[2]) in (
                            elem_of(rng), elem_of(L_as_written),
                            ("elem", L_as_written))
                        and n_t == ("call", "builtins.len",
                                    (("param", p_models),), ()))
    ctx.check(ok_t and ok_list, "C02b-model-i-scores-slot-i", f,
              "slice i is scored by models[i] and stored under fold i",
              f"predict_fold(model={show(t_model, 60)}, fold="
              f"{show(t_fold, 40)}, psms={show(t_ps, 60)}) over "
              f"{show(D, 80) if D else '?'}", node=task[0])
    ctx.check(ok_s, "C02b-slot-i-holds-fold-i", f,
              "slot i of the per-chunk slices holds exactly the rows whose "
              "fold label is i, for i in range(number of models)",
              f"slices are {show(L, 160) if L else '?'}", node=task[0])
    # ---- fold label column = next chunk of the model-index vector
    if ok_t and not (chunk_t is not None and chunk_t[0] == "store"
                     and chunk_t[2] == ("const", "fold")):
        raise AnalysisError(
            f"{f.qual}: how a chunk gets its 'fold' column is written in a "
            f"form the rule does not read "
            f"({show(chunk_t, 100) if chunk_t else 'chunk not found'}); "
            "rule C02b needs re-reading")
    ok_f = False
    why = f"chunk frame is {show(chunk_t, 160) if chunk_t else '?'}"
    if chunk_t and chunk_t[0] == "store" and chunk_t[2] == ("const", "fold"):
        base, val = chunk_t[1], chunk_t[3]
        rd = base[1] if base[0] == "elem" else None
        if rd and rd[0] == "mcall" and rd[2] == "read_data" and (
                _is_pop0(val) or _is_pop_last_of_reversed(du, T, cfg, val)):
            vt = _var_inits(du, T, val[1])
            cc = [x for x in vt if x[0] == "call"
                  and x[1] == "mokapot.utils.create_chunks"]
            if len(vt) == 1 and cc:
                uc = prog.func("mokapot.utils.create_chunks")
                ca = dict(zip(uc.params, cc[0][2]))
                ca.update(dict(cc[0][3]))
                data_t = ca.get(uc.params[0])
                size_t = ca.get(uc.params[1])
                rsize = (bound_margs(prog, rd) or dict(rd[4])).get(
                    "chunk_size")
                ok_f = (data_t == ("zipelem", 1, (("param", p_psms),
                                                  ("param", p_idx)))
                        and rd[1] == ("zipelem", 0, (("param", p_psms),
                                                     ("param", p_idx)))
                        and size_t is not None and size_t == rsize
                        and ds_t == rd[1])
                why = (f"labels come from create_chunks(data="
                       f"{show(data_t, 60)}, chunk_size={show(size_t, 60)})"
                       f"; rows from {show(rd, 100)}")
    ctx.check(ok_f, "C02b-fold-label-per-chunk", f,
              "each file chunk is labelled with the next equally sized "
              "slice of the collection's own model-index vector (front to "
              "back)", why, node=task[0])
    giv = prog.func("mokapot.brew.get_index_values")
    gd = DefUse(prog, giv)
    gT = Terms(gd)
    rt = gT.returns()[0][1]
    p_df, p_col, p_val, p_orig = giv.params
    want_mask = ("cmp", "==", ("sub", ("param", p_df), ("param", p_col)),
                 ("param", p_val))
    DF_ROWS = (("param", p_df), ("attr", ("param", p_df), "loc"))
    ok_g = any(x[0] == "sub" and x[1] in DF_ROWS and x[2] == want_mask
               for x in walk_term(rt))
    from ..events import container_events, root_name as _root
    gev = [e for e in container_events(giv.node, gT, CFG(giv.node))
           if _root(e.recv) == p_orig]
    # the selected rows' own index is recorded under the fold value:
    # orig_idx[val] += list(sel.index) / .extend(sel.index) / .append(...)
    def _records_index(e):
        if e.kind == "aug":
            ok_slot = e.recv == ("param", p_orig) and \
                e.key == ("param", p_val)
            val = e.value
        elif e.kind in ("extend", "append") and len(e.args) == 1:
            ok_slot = e.recv == ("sub", ("param", p_orig),
                                 ("param", p_val))
            val = e.args[0]
        else:
            return False
        return ok_slot and val is not None and any(
            x[0] == "attr" and x[2] == "index" and any(
                y[0] == "sub" and y[1] in DF_ROWS
                and y[2] == want_mask for y in walk_term(x[1]))
            for x in walk_term(val))
    ok_g = ok_g and len(gev) == 1 and _records_index(gev[0])
    ctx.check(ok_g, "C02b-rows-of-fold", giv,
              "get_index_values selects rows with column == value and "
              "records their original row numbers under that value",
              f"returns {show(rt, 100)}; records "
              f"{[(e.kind, show(e.recv, 40), show(e.value or (e.args[0] if e.args else ('const', None)), 60)) for e in gev]}",
              node=giv.node)
    pT = Terms(DefUse(prog, pf))
    pev = [e for e in container_events(pf.node, pT, CFG(pf.node))
           if e.kind == "append" and len(e.args) == 1]
    SLOT = ("sub", ("param", p_scores), ("param", p_fold))

    def leaves(t):
        if t[0] == "phi":
            return [y for x in t[1] for y in leaves(x)]
        if t[0] == "ifexp":
            return leaves(t[2]) + leaves(t[3])
        return [t]

    vals = [lf for e in pev for lf in leaves(e.args[0])]
    pred = [x for x in vals if x[0] == "mcall" and x[1] == (
        "param", p_model) and x[2] in ("predict", "decision_function")
        and x[3] == (("param", p_pp),)]
    ok_p = bool(pev) and all(strip_growth(e.recv) == SLOT for e in pev) \
        and bool(pred)
    ctx.check(ok_p, "C02b-predict-fold", pf,
              "predict_fold scores its slice with its model and appends to "
              "its own fold's list",
              f"{[(show(e.recv, 40), show(e.args[0], 80)) for e in pev]}",
              node=pf.node)
    # ---- d: fold-major concatenation, un-permuted by argsort of the
    # fold-major original row numbers
    ys = [n for n in ast.walk(f.node) if isinstance(n, ast.Yield)]
    if not ys:
        # the same function written to return the list of per-collection
        # results: the value appended to the returned list, once per round
        # of the collection loop, stands for the yielded value
        rets_ = [t for _r, t in T.returns()]
        if len(rets_) == 1 and rets_[0][0] == "var":
            apps_ = [e for e in container_events(f.node, T, cfg)
                     if e.kind == "append" and len(e.args) == 1
                     and root_name(e.recv) == rets_[0][1]
                     and cfg.enclosing(e.node, (ast.For, ast.While))
                     is not None]
            if len(apps_) == 1:
                apps_[0].node.value = apps_[0].node.args[0]
                ys = [apps_[0].node]
    ctx.require(len(ys) == 1, f"{f.qual}: yield not found")
    yt = T.of(ys[0].value)
    ok_y = False
    sc_var = None
    if yt[0] == "sub":
        c = np_call(yt[1])
        o = yt[2]
        oc = np_call(o)
        if oc and oc[0] == "tolist":
            o = oc[1][0]
            oc = np_call(o)
        if c and c[0] == "concatenate" and len(c[1]) == 1 and \
                c[1][0][0] == "var" and oc and oc[0] == "argsort" and \
                len(oc[1]) == 1 and not oc[2]:
            sc_var = c[1][0]
            flat = flattened_of(oc[1][0])
            ok_y = flat is not None and orig_t is not None and \
                flat == orig_t
    ctx.check(ok_y, "C02d-scores-in-input-order", f,
              "scores are concatenated fold-major and un-permuted with "
              "argsort of the fold-major original row numbers (the lists "
              "get_index_values recorded them in)",
              f"yields {show(yt, 200)}", node=ys[0])
    # ---- scores list is filled once per model in model order, popping fold
    # 0, 1, ... from the front of the per-fold list the tasks wrote to
    ok_m = False
    why = "scores are not assembled fold by fold in model order"
    fs_expr = prog.bind(pf, task[0]).get(p_scores)
    if sc_var is not None and isinstance(fs_expr, ast.Name):
        apps = [n for n in ast.walk(f.node) if isinstance(n, ast.Call)
                and isinstance(n.func, ast.Attribute)
                and n.func.attr == "append" and isinstance(
                    n.func.value, ast.Name)
                and T.of(n.func.value)[:2] == sc_var[:2]]
        ml = {id(lp): lp for a in apps
              for lp in [cfg.enclosing(a, (ast.For, ast.While))]}
        # pops of the list the tasks wrote to (same variable, same object)
        task_defs = {d.uid for d in du.defs_of(fs_expr)}
        pops = []
        for n in ast.walk(f.node):
            if isinstance(n, ast.Call) and isinstance(
                    n.func, ast.Attribute) and n.func.attr == "pop" and \
                    isinstance(n.func.value, ast.Name) and \
                    n.func.value.id == fs_expr.id and task_defs & {
                        d.uid for d in du.defs_of(n.func.value)}:
                pops.append(n)
        fs_name = fs_expr.id
        if apps and len(ml) == 1 and None not in ml.values():
            lp = list(ml.values())[0]
            per = []
            from ..paths import var_leaves as _vl
            for a in apps:
                at = T.of(a.args[0]) if len(a.args) == 1 else ("unknown", "")
                # a temporary that holds the block (calibrated or not) is
                # the block: every alternative is counted on its own
                alts_ = _vl(du, T, at) if at[0] in ("var", "phi") else [at]
                for alt in alts_ or [at]:
                    per.append(sum(
                        1 for x in walk_term(alt)
                        if isinstance(x, tuple) and x
                        and x[0] == "mcall" and _is_pop0(x, fs_name)))
            ok_m = (isinstance(lp, ast.For)
                    and T.of(lp.iter) == ("param", p_models)
                    and all(k == 1 for k in per) and pops
                    and all(inside(p_, lp) and len(p_.args) == 1
                            and const_value(p_.args[0]) == 0 for p_ in pops))
            why = (f"{len(apps)} append(s) in a loop over "
                   f"{ast.unparse(getattr(lp, 'iter', lp))[:40]}, each using "
                   f"{per} front pops of the per-fold score list")
    ctx.check(ok_m, "C02d-fold-major-scores", f,
              "per-fold score blocks are appended in model order, each from "
              "the front of the per-fold list", why, node=ys[0])
    # ---- nothing one collection recorded is still there for the next
    from .common import loop_carried_state
    cl = cfg.enclosing(ys[0], (ast.For, ast.While))
    ctx.require(cl is not None,
                f"{f.qual}: the per-collection loop around the yield was "
                "not found")
    loop_carried_state(ctx, f, du, T, cfg, cl, "C02d-per-collection-state",
                       "collection", 3)


def _var_inits(du, T, var):
    """Terms of the definitions a ('var', name, uids) stands for, in-place
    mutations of the same object peeled off."""
    out = []
    seen = set()

    def rec(v):
        for d in du.defs:
            if d.name == v[1] and d.uid in v[2] and d.uid not in seen:
                seen.add(d.uid)
                if d.kind in ("mut", "store", "augstore", "delitem"):
                    # the object the mutation was applied to
                    base = T.of_def(d)
                    base = base[1] if len(base) > 1 and isinstance(
                        base[1], tuple) else None
                    if base is not None and base[0] == "var" and \
                            base[1] == v[1]:
                        rec(base)
                    elif base is not None and base[0] == "phi":
                        for b_ in base[1]:
                            if b_[0] == "var" and b_[1] == v[1]:
                                rec(b_)
                            elif b_[0] not in ("rec",) and b_ not in out:
                                out.append(b_)
                    elif base is not None and base[0] not in (
                            "var", "rec") and base not in out:
                        out.append(base)
                    continue
                t_ = T.of_def(d)
                if t_ not in out:
                    out.append(t_)
    rec(var)
    return out


# ------------------------------------------------------------------ c
def _split(ctx, f):
    prog = ctx.prog
    du = DefUse(prog, f)
    T = Terms(du)
    rets = T.returns()
    ctx.require(len(rets) >= 1, f"{f.qual}: no return")
    p_folds, p_rng = [p for p in f.params if p != "self"][:2]
    n_split = 0
    for rnode, rt in rets:
        leaves = _leaves(rt)
        for leaf in leaves:
            leaf = _peel_muts(leaf)
            c = np_call(leaf)
            if not (c and c[0] in ("split", "array_split") and len(c[1])
                    >= 2):
                raise AnalysisError(
                    f"{f.qual}: a returned fold list is not produced by "
                    f"np.split: {show(leaf, 120)}")
            n_split += 1
            rows, cuts = c[1][0], c[1][1]
            rows = strip_conv(rows)
            # rows = argsort(hash)
            rc = np_call(rows)
            ok_rows = bool(rc and rc[0] == "argsort" and rc[1])
            hash_t = rc[1][0] if ok_rows else None
            for cut in _leaves(cuts):
                cut = strip_conv(cut)
                ok_cut = False
                why = show(cut, 160)
                if cut[0] == "sub":
                    base = strip_conv(cut[1])
                    sel = strip_conv(cut[2])
                    # base = np.unique(sorted hash, return_index=True)[1]
                    ub = base
                    idx_ok = False
                    if ub[0] in ("item", "sub"):
                        which = ub[2] if ub[0] == "item" else (
                            ub[2][1] if ub[2][0] == "const" else None)
                        uc = np_call(strip_conv(ub[1]))
                        if uc and uc[0] == "unique" and which == 1 and \
                                uc[2].get("return_index") == ("const", True):
                            arr = strip_conv(uc[1][0])
                            # sorted hash: hash[argsort(hash)]
                            idx_ok = (arr[0] == "sub"
                                      and strip_conv(arr[1]) == hash_t
                                      and strip_conv(arr[2]) == rows)
                    sc = np_call(sel)
                    sel_ok = bool(sc and sc[0] == "searchsorted"
                                  and strip_conv(sc[1][0]) == base)
                    ok_cut = idx_ok and sel_ok
                    if not idx_ok:
                        why = ("cut positions are not taken from the "
                               "group-start indices of np.unique(hash "
                               "sorted by the row permutation, "
                               f"return_index=True): {show(base, 120)}")
                    elif not sel_ok:
                        why = ("cut positions are selected with "
                               f"{show(sel, 100)}, not by searchsorted in "
                               "the group starts")
                else:
                    why = ("on some path the cut positions are "
                           f"{show(cut, 120)}: raw positions can fall "
                           "inside a spectrum's group of PSMs and split it "
                           "across folds")
                ctx.check(ok_cut and ok_rows, "C02c-cuts-at-group-starts",
                          f, "fold boundaries are group-start positions of "
                          "the sorted spectrum hashes (all PSMs of a "
                          "spectrum stay together)", why, node=rnode)
            # hash covers the whole key and is process independent
            if hash_t is not None:
                _hash_key(ctx, f, hash_t, rnode)
    ctx.floor("C02c-np-split", n_split, 1)
    # folds - 1 cut points
    # every range whose length depends on the number of folds - in this
    # function or in the helpers it gets its cut points from - must have
    # folds - 1 elements
    want = lin(("param", p_folds)) + lin(("const", -1))
    counts = []
    funcs = [(f, {})]
    for n in ast.walk(f.node):
        if isinstance(n, ast.Call):
            t = T.of(n)
            if t[0] == "call" and t[1] in prog.funcs and \
                    prog.funcs[t[1]].module is f.module and any(
                        x == ("param", p_folds) for x in walk_term(t)):
                funcs.append((prog.funcs[t[1]], bound_args(prog, t) or {}))
    for g, b in funcs:
        gT = T if g is f else Terms(DefUse(prog, g))
        for n in ast.walk(g.node):
            if isinstance(n, ast.Call) and isinstance(
                    n.func, ast.Name) and n.func.id == "range":
                rt = subst_params(gT.of(n), b)
                if rt[0] == "call" and len(rt[2]) == 1 and any(
                        x == ("param", p_folds) for x in walk_term(rt)):
                    counts.append(lin(rt[2][0]))
    ctx.require(counts, f"{f.qual}: no range over the number of folds "
                "found; rule C02c needs re-reading")
    ctx.check(all(c == want for c in counts), "C02c-fold-count", f,
              "folds - 1 cut points give exactly the requested number of "
              "folds", f"cut points are counted by {counts!r}",
              node=f.node)


def _leaves(t):
    t = strip_conv(t)
    if t[0] == "phi":
        return [y for x in t[1] for y in _leaves(x)]
    return [t]


def _peel_muts(t):
    while t[0] in ("mut", "mutsub", "store"):
        t = t[1]
        if t[0] == "phi":
            cands = [x for x in t[1] if x[0] not in ("rec",)]
            base = [x for x in cands if x[0] not in ("mut", "mutsub")]
            t = base[0] if base else cands[0]
    return t


def _hash_key(ctx, f, hash_t, node):
    c = np_call(strip_conv(hash_t))
    ok = False
    why = show(hash_t, 160)
    if c and c[0] == "apply_along_axis" and c[1]:
        lam = c[1][0]
        if lam[0] in ("name", "free") and lam[1] in ctx.prog.funcs:
            # a named (nested) function instead of a lambda
            hf = ctx.prog.funcs[lam[1]]
            hr = Terms(DefUse(ctx.prog, hf)).returns()
            hp = [p_ for p_ in hf.params if p_ != "self"]
            if len(hr) == 1 and len(hp) == 1:
                lam = ("lambda", (hp[0],), subst_params(
                    hr[0][1], {hp[0]: ("lparam", hp[0])}))
        if lam[0] == "lambda" and len(lam[1]) == 1:
            body = lam[2]
            x = ("lparam", lam[1][0])
            hc = [y for y in walk_term(body) if y[0] == "call"
                  and y[1] in ("zlib.crc32", "zlib.adler32",
                               "hashlib.md5", "hashlib.sha1")]
            salted = [y for y in walk_term(body) if y[0] == "call"
                      and y[1] == "builtins.hash"]
            subs = [y for y in walk_term(body) if y[0] == "sub"
                    and y[1] == x]
            const_idx = [y[2][1] for y in subs if y[2][0] == "const"]
            whole = any(y[0] == "call" and y[1] in (
                "builtins.tuple", "builtins.str", "builtins.list",
                "builtins.repr") and y[2] and y[2][0] == x
                for y in walk_term(body))
            if salted:
                why = ("spectra are hashed with the builtin hash(), which "
                       "is salted per interpreter for strings "
                       "(PYTHONHASHSEED): fold membership changes between "
                       "sessions")
            elif not hc:
                why = f"no process-independent hash in {show(body, 100)}"
            elif subs and not whole:
                # constant subscripts must exist for the narrowest key (1)
                ok = all(isinstance(i, int) and i == 0 for i in const_idx) \
                    and len(const_idx) == len(subs)
                why = (f"the hash reads key columns {const_idx}: a spectrum "
                       "key may consist of the scan column alone (IndexError"
                       ") and further columns are ignored")
            else:
                ok = whole
        axis_ok = len(c[1]) >= 2 and c[1][1] == ("const", 1)
        ok = ok and axis_ok
    ctx.check(ok, "C02c-hash-of-whole-key", f,
              "each row's spectrum key is hashed as a whole with a "
              "process-independent hash", why, node=node)


# ------------------------------------------------------------------ pin
def _parse_in_chunks(ctx):
    prog = ctx.prog
    g = prog.func("mokapot.parsers.pin.get_rows_from_dataframe")
    p_idx, p_chunk, p_train, p_psms, p_file = g.params
    du = DefUse(prog, g)
    T = Terms(du)
    apps = [n for n in ast.walk(g.node) if isinstance(n, ast.Call)
            and isinstance(n.func, ast.Attribute)
            and n.func.attr == "append" and len(n.args) == 1]
    ok = False
    why = f"{[ast.unparse(a)[:80] for a in apps]}"
    if len(apps) == 1:
        a = apps[0]
        recv = base_of(T.of(a.func.value))
        val = norm_calls(prog, T.of(a.args[0]))
        K = ("idx", ("param", p_idx))
        recv_ok = recv == ("sub", ("sub", ("param", p_train),
                                   ("param", p_file)), K)
        sel_ok = False
        if val[0] == "sub" and val[1][0] == "attr" and val[1][2] == "loc":
            frame = val[1][1]
            conv = bound_args(prog, frame)
            frame_ok = conv is not None and \
                frame[1] == "mokapot.utils.convert_targets_column" and \
                conv.get("data") == ("param", p_chunk)
            sel = val[2]
            while sel[0] == "call" and sel[1] in (
                    "builtins.list", "builtins.sorted") and len(sel[2]) == 1:
                sel = sel[2][0]
            if sel[0] == "bin" and sel[1] == "&":
                def setof(x):
                    return ("call", "builtins.set", (x,), ())
                sides = {sel[2], sel[3]}
                sel_ok = frame_ok and sides == {
                    setof(("elem", ("param", p_idx))),
                    setof(("attr", frame, "index"))}
        ok = recv_ok and sel_ok
        why = (f"appends {show(val, 160)} to {show(recv, 80)}")
    ctx.check(ok, "C02b-training-rows-by-index", g,
              "rows appended to training set k of a file are that file's "
              "chunk rows whose index is in training index list k",
              why, node=apps[0] if apps else g.node)
    pic = prog.func("mokapot.parsers.pin.parse_in_chunks")
    pT = Terms(DefUse(prog, pic), phi_vars=True)
    p_ps, p_tr = pic.params[0], pic.params[1]
    task = [n for n in ast.walk(pic.node) if isinstance(n, ast.Call)
            and delayed_task_of(prog, pic, n, "get_rows_from_dataframe")]
    ok_a = False
    why = "task not found"
    TRAIN = None
    ZT = ("call", "builtins.zip", (("star", ("param", p_tr)),), ())
    if len(task) == 1:
        b = {k: strip_materialise(pT.of(v))
             for k, v in prog.bind(g, task[0]).items()}
        ti, tp, tf = b.get(p_idx), b.get(p_psms), b.get(p_file)
        TRAIN = b.get(p_train)
        why = str({k: show(v, 80) for k, v in b.items()})
        if ti and tp and tf and ti[0] == "zipelem" and tp[0] == "zipelem" \
                and ti[2] == tp[2] and ti[2][ti[1]] == ZT and \
                tp[2][tp[1]] == ("param", p_ps):
            Z = ti[2]
            rng = ("call", "builtins.range",
                   (("call", "builtins.len", (("param", p_ps),), ()),), ())
            file_ok = (tf[0] == "zipelem" and tf[2] == Z
                       and Z[tf[1]] == rng) or tf == (
                "idx", ("call", "builtins.zip", Z, ()))
            # the chunk comes from the same file's reader
            ch = b.get(p_chunk)
            chunk_ok = ch is not None and ch[0] == "elem" and any(
                x == ("attr", tp, "filename") for x in walk_term(ch))
            ok_a = file_ok and chunk_ok
    ctx.check(ok_a, "C02b-file-fold-transposition", pic,
              "file j is read with the per-fold index lists of file j "
              "(zip(*train_idx) transposes [fold][file] to [file][fold])",
              "the pairing of files, index lists and file numbers changed: "
              + why, node=task[0] if task else pic.node)
    rets = [strip_materialise(t) for _r, t in pT.returns()]
    ok_r = False
    if len(rets) == 1 and rets[0][0] == "comp" and len(rets[0][3]) == 1 \
            and not rets[0][3][0][2]:
        it = rets[0][3][0][1]
        elt = callee_of(rets[0][2])
        if elt and elt[0] == "pandas.concat" and elt[1] == [("elem", it)] \
                and it[0] == "call" and it[1] == "builtins.zip" and \
                len(it[2]) == 1 and it[2][0][0] == "star":
            par = it[2][0][1]
            rc = [x for x in walk_term(par) if isinstance(x, tuple) and x
                  and x[0] == "call" and x[1] ==
                  "mokapot.parsers.pin.concat_and_reindex_chunks"]
            if rc and TRAIN is not None:
                rb = bound_args(prog, rc[0])
                pair = (TRAIN, ZT)
                ok_r = rb.get("df") == ("zipelem", 0, pair) and \
                    rb.get("orig_idx") == ("zipelem", 1, pair)
    ctx.check(ok_r, "C02b-training-frames-per-fold", pic,
              "the result has one training frame per fold (files "
              "concatenated), in fold order; each file's rows are re-"
              "ordered by that file's own index lists",
              f"{[show(r, 200) for r in rets]}", node=pic.node)
