"""C02 - no PSM is scored by a model that saw its spectrum."""

from __future__ import annotations

import ast

from ..astutil import inside
from ..cfg import CFG
from ..core import AnalysisError, const_value
from ..defuse import DefUse, Terms, show, walk_term
from ..defuse import key as tkey
from ..tutil import (base_of, bound_args, callee_of, lin, norm_calls,
                     np_call, strip_conv, strip_materialise, subst_params)

EXPLANATION = (
    "Static analysis of brew.make_train_sets, brew.brew, brew._predict, "
    "brew.get_index_values/predict_fold, parsers.pin.parse_in_chunks / "
    "get_rows_from_dataframe / concat_and_reindex_chunks and "
    "OnDiskPsmDataset._split. (a) def-use provenance: every write to the "
    "per-file training index list is the empty list, += list(range-set - "
    "set(idx)) with idx the current fold's held-out indices of that same "
    "file (ranges tiling [0, size)), or rng.choice(train_idx[i], n, "
    "replace=False) written back to the same i. (b) fold/model/row "
    "correspondence: training sets are produced per fold in fold order, "
    "fitted with fold number = enumerate index over the whole list, sorted "
    "by fold on every path; the per-row model index is fold i repeated "
    "len(fold i) times, concatenated in fold order and un-permuted with "
    "argsort of the flattened fold indices of the same collection; in "
    "_predict rows with fold label i go to slot i, model i, score list i. "
    "(c) spectra are never split: on every path the cut positions given to "
    "np.split are selected from the group-start indices of np.unique on "
    "the hash array sorted by the same permutation as the row ids; the "
    "hash covers the whole spectrum key and is process-independent. (d) "
    "scores are concatenated fold-major and un-permuted with argsort of "
    "the fold-major original indices. NOT decided: fold sizes, estimator "
    "behaviour.")
TECHNIQUE = ("def-use provenance over all writes + all-paths (phi leaves) "
             "term matching + CFG must-pass-through + index-correspondence "
             "typing of comprehensions")


def run(ctx):
    prog = ctx.prog
    _train_sets(ctx, prog.func("mokapot.brew.make_train_sets"))
    _brew_mapping(ctx, prog.func("mokapot.brew.brew"))
    _predict(ctx, prog.func("mokapot.brew._predict"))
    _split(ctx, prog.func("mokapot.dataset.OnDiskPsmDataset._split"))
    _parse_in_chunks(ctx)
    from .c05 import _models_sorted, _parquet_index
    _models_sorted(ctx)
    # the scores are put back in input order by the row index of the chunks
    _parquet_index(ctx)


# ------------------------------------------------------------------ a
def _train_sets(ctx, f):
    prog = ctx.prog
    du = DefUse(prog, f)
    T = Terms(du, phi_vars=True)
    cfg = CFG(f.node)
    ps = f.params
    p_test, p_cap, p_size, p_rng = ps[:4]
    outer = [n for n in ast.walk(f.node) if isinstance(n, ast.For)
             and isinstance(n.iter, ast.Call)
             and ast.unparse(n.iter) == f"zip(*{p_test})"]
    ctx.require(len(outer) == 1, f"{f.qual}: loop over zip(*test_idx) not "
                "found")
    fl = outer[0]
    fold_var = fl.target.id
    ys = [n for n in ast.walk(fl) if isinstance(n, ast.Yield)]
    ok_y = len(ys) == 1 and isinstance(ys[0].value, ast.Name) and not \
        cfg.guards(ys[0])
    ctx.check(ok_y, "C02a-one-training-set-per-fold", f,
              "exactly one training set is yielded per held-out fold, in "
              "fold order", "yield is conditional or missing", node=fl)
    tname = ys[0].value.id if ok_y else "train_idx"
    # all writes to train_idx
    writes = []
    for n in ast.walk(f.node):
        if isinstance(n, ast.Assign):
            for t in n.targets:
                if isinstance(t, ast.Name) and t.id == tname:
                    writes.append(("init", n))
                elif isinstance(t, ast.Subscript) and isinstance(
                        t.value, ast.Name) and t.value.id == tname:
                    writes.append(("store", n))
        elif isinstance(n, ast.AugAssign) and isinstance(
                n.target, ast.Subscript) and isinstance(
                    n.target.value, ast.Name) and n.target.value.id == tname:
            writes.append(("aug", n))
        elif isinstance(n, ast.Call) and isinstance(
                n.func, ast.Attribute) and n.func.attr in (
                    "append", "extend", "insert") and tname in ast.unparse(
                        n.func.value):
            writes.append(("mut", n))
    ctx.floor("C02a-writes", len(writes), 4)
    # file loop
    file_loops = [n for n in ast.walk(fl) if isinstance(n, ast.For)
                  and ast.unparse(n.iter) == f"enumerate({fold_var})"]
    ctx.require(len(file_loops) == 1, f"{f.qual}: loop over the files of a "
                "fold not found")
    fil = file_loops[0]
    fi_var, held_var = (e.id for e in fil.target.elts)
    for kind, n in writes:
        if kind == "init":
            ok = ast.unparse(n.value) == f"[[] for _ in {p_size}]" and any(
                x is n for x in ast.walk(fl))
            ctx.check(ok, "C02a-training-set-provenance", f,
                      "training index lists start empty for every fold",
                      f"{ast.unparse(n)[:80]}", node=n)
        elif kind == "aug":
            idx = ast.unparse(n.target.slice)
            v = n.value
            inside = any(x is n for x in ast.walk(fil))
            ok = False
            why = ast.unparse(n)[:120]
            # list(S) / sorted(S) / S itself: += consumes any iterable
            while isinstance(v, ast.Call) and isinstance(
                    v.func, ast.Name) and v.func.id in (
                        "list", "sorted", "tuple") and len(v.args) == 1:
                v = v.args[0]
            if isinstance(n.op, ast.Add) and isinstance(
                    v, ast.BinOp) and isinstance(v.op, ast.Sub):
                l, r = v.left, v.right
                ok = (inside and idx == fi_var
                      and isinstance(l, ast.Call)
                      and ast.unparse(l.func) in ("set", "frozenset")
                      and isinstance(l.args[0], ast.Call)
                      and ast.unparse(l.args[0].func) == "range"
                      and ast.unparse(r) in (f"set({held_var})",
                                             f"frozenset({held_var})"))
                if not ok:
                    why = (f"train_idx[{idx}] += {ast.unparse(v)[:80]}: "
                           f"expected train_idx[{fi_var}] += list(set("
                           f"range(...)) - set({held_var})), the held-out "
                           "indices of the same file")
            ctx.check(ok, "C02a-training-set-provenance", f,
                      "rows added to a file's training set are a range "
                      "minus that file's held-out fold", why, node=n)
        elif kind == "store":
            idx = ast.unparse(n.targets[0].slice)
            v = n.value
            ok = False
            why = ast.unparse(n)[:140]
            if isinstance(v, ast.Call) and isinstance(
                    v.func, ast.Attribute) and v.func.attr == "choice":
                kws = {k.arg: k.value for k in v.keywords}
                rep = kws.get("replace") or (v.args[2] if len(v.args) > 2
                                             else None)
                src = ast.unparse(v.args[0]) if v.args else ""
                loop = cfg.enclosing(n, (ast.For,))
                lv = None
                if loop is not None and isinstance(
                        loop.target, ast.Tuple) and ast.unparse(
                            loop.iter).startswith("enumerate("):
                    lv = loop.target.elts[0].id
                rng_ok = ast.unparse(v.func.value) == p_rng
                ok = (src == f"{tname}[{idx}]" and lv == idx
                      and const_value(rep) is False and rng_ok)
                if src != f"{tname}[{idx}]":
                    why = (f"{tname}[{idx}] is sub-sampled from {src}: the "
                           "capped training rows of one file are drawn "
                           "from another file's index list (which contains "
                           "rows of this file's held-out fold)")
                elif const_value(rep) is not False:
                    why = "sub-sampling with replacement"
            ctx.check(ok, "C02a-training-set-provenance", f,
                      "the capped training set is sampled without "
                      "replacement from the same file's own training "
                      "indices", why, node=n)
        else:
            ctx.fail("C02a-training-set-provenance", f,
                     f"unexpected write {ast.unparse(n)[:80]}",
                     "training indices are modified by an unrecognised "
                     "operation", node=n)
    # ranges tile [0, ds)
    rng_calls = [n for n in ast.walk(fil) if isinstance(n, ast.Call)
                 and ast.unparse(n.func) == "range"]
    texts = sorted(ast.unparse(r) for r in rng_calls)
    wl = [n for n in ast.walk(fil) if isinstance(n, ast.While)]
    ok_t = False
    if len(wl) == 1 and len(rng_calls) == 2:
        k = None
        m = ast.unparse(wl[0].test)
        # while k + step < ds: range(k, k+step); k += step ; then range(k, ds)
        incs = [s for s in wl[0].body if isinstance(s, ast.AugAssign)
                and isinstance(s.target, ast.Name)]
        inits = [s for s in fil.body if isinstance(s, ast.Assign)
                 and const_value(s.value) == 0]
        if incs and inits:
            k = ast.unparse(incs[0].target)
            step = ast.unparse(incs[0].value)
            ds = [ast.unparse(s.targets[0]) for s in fil.body
                  if isinstance(s, ast.Assign)
                  and ast.unparse(s.value) == f"{p_size}[{fi_var}]"]
            if ds:
                ok_t = (m == f"{k} + {step} < {ds[0]}"
                        and f"range({k}, {k} + {step})" in texts
                        and f"range({k}, {ds[0]})" in texts
                        and ast.unparse(inits[0].targets[0]) == k)
    ctx.check(ok_t, "C02a-ranges-tile-the-file", f,
              "the ranges whose complement is taken tile [0, number of "
              "rows of the file)", f"ranges: {texts}", node=fil)


# ------------------------------------------------------------------ b
def _brew_mapping(ctx, f):
    prog = ctx.prog
    du = DefUse(prog, f)
    T = Terms(du)
    # folds: one _split per collection with the caller's fold count and rng
    sp = [n for n in ast.walk(f.node) if isinstance(n, ast.Assign)
          and "_split" in ast.unparse(n.value)
          and isinstance(n.value, ast.ListComp)]
    ctx.require(len(sp) == 1, f"{f.qual}: fold split not found")
    tfi = ast.unparse(sp[0].targets[0])
    e = sp[0].value.elt
    ok = ast.unparse(sp[0].value.generators[0].iter) == "psms" and \
        isinstance(e, ast.Call) and [ast.unparse(a) for a in e.args] == [
            "folds", "rng"]
    ctx.check(ok, "C02b-split-per-collection", f,
              "every collection is split into the requested number of folds "
              "with the run's generator",
              f"{ast.unparse(sp[0].value)[:100]}", node=sp[0])
    # train sets from the same folds, handed to parse_in_chunks unchanged
    mts = [n for n in ast.walk(f.node) if isinstance(n, ast.Call)
           and ast.unparse(n.func) == "make_train_sets"]
    pic = [n for n in ast.walk(f.node) if isinstance(n, ast.Call)
           and ast.unparse(n.func) == "parse_in_chunks"]
    ctx.require(len(mts) == 1 and len(pic) == 1,
                f"{f.qual}: make_train_sets/parse_in_chunks not found")
    kw = {k.arg: ast.unparse(k.value) for k in mts[0].keywords}
    ctx.check(kw.get("test_idx") == tfi and kw.get("rng") == "rng"
              and kw.get("data_size") == "data_size"
              and kw.get("subset_max_train") == "subset_max_train",
              "C02b-train-sets-from-folds", f,
              "training sets are derived from the very fold assignment that "
              "is used for scoring", f"make_train_sets({kw})", node=mts[0])
    tt = T.of({k.arg: k.value for k in pic[0].keywords}.get(
        "train_idx") or pic[0].args[1])
    ok_t = tt[0] == "call" and tt[1] == "builtins.list" and \
        tt[2][0][0] == "call" and tt[2][0][1] == \
        "mokapot.brew.make_train_sets"
    pk = {k.arg: ast.unparse(k.value) for k in pic[0].keywords}
    ctx.check(ok_t and pk.get("psms") == "psms",
              "C02b-train-sets-unchanged", f,
              "the list of training index sets reaches parse_in_chunks "
              "unchanged (fold order kept)", f"train_idx = {show(tt, 120)}",
              node=pic[0])
    # model index per row
    m2p = [n for n in ast.walk(f.node) if isinstance(n, ast.Assign)
           and ast.unparse(n.targets[0]) == "model_to_psm_idx"]
    ctx.require(len(m2p) == 2, f"{f.qual}: model_to_psm_idx idiom not "
                "recognised")
    first, second = sorted(m2p, key=lambda n: n.lineno)
    ok1 = False
    v = first.value
    if isinstance(v, ast.ListComp) and isinstance(v.elt, ast.ListComp):
        inner = v.elt
        g = inner.generators[0]
        if isinstance(g.iter, ast.Call) and ast.unparse(
                g.iter.func) == "enumerate" and isinstance(
                    g.target, ast.Tuple):
            i, idx = (x.id for x in g.target.elts)
            ok1 = (ast.unparse(inner.elt) in (f"[{i}] * len({idx})",
                                              f"len({idx}) * [{i}]")
                   and ast.unparse(g.iter.args[0]) == v.generators[0]
                   .target.id
                   and ast.unparse(v.generators[0].iter) == tfi
                   and not g.ifs and not v.generators[0].ifs)
    ctx.check(ok1, "C02b-model-index-per-row", f,
              "row j of fold i is labelled with model index i (i = position "
              "of the fold in the collection's fold list)",
              f"{ast.unparse(first.value)[:120]}", node=first)
    oo = [n for n in ast.walk(f.node) if isinstance(n, ast.Assign)
          and ast.unparse(n.targets[0]) == "original_order_idx"]
    ok2 = False
    if len(oo) == 1 and isinstance(oo[0].value, ast.ListComp):
        v2 = oo[0].value
        var = v2.generators[0].target.id
        ok2 = (ast.unparse(v2.elt) in (
            f"np.argsort(utils.flatten({var})).tolist()",
            f"np.argsort(utils.flatten({var}))")
            and ast.unparse(v2.generators[0].iter) == tfi)
    ctx.check(ok2, "C02b-inverse-of-fold-major-order", f,
              "the un-permutation is argsort of the collection's flattened "
              "(fold-major) row indices",
              f"{[ast.unparse(o.value)[:100] for o in oo]}", node=first)
    ok3 = False
    v3 = second.value
    if isinstance(v3, ast.ListComp) and isinstance(
            v3.generators[0].target, ast.Tuple):
        a, b = (x.id for x in v3.generators[0].target.elts)
        ok3 = (ast.unparse(v3.elt) == f"np.concatenate({a})[{b}]"
               and ast.unparse(v3.generators[0].iter) ==
               "zip(model_to_psm_idx, original_order_idx)")
    ctx.check(ok3, "C02b-model-index-in-input-order", f,
              "per-row model indices are concatenated fold-major and "
              "brought to input order with that un-permutation",
              f"{ast.unparse(second.value)[:120]}", node=second)
    # _predict receives them with the same collections and models
    pc = [n for n in ast.walk(f.node) if isinstance(n, ast.Call)
          and ast.unparse(n.func) == "_predict"]
    ctx.require(len(pc) == 1, f"{f.qual}: _predict call not found")
    pk = {k.arg: ast.unparse(k.value) for k in pc[0].keywords}
    ctx.check(pk.get("models_idx") == "model_to_psm_idx"
              and pk.get("psms") == "psms" and pk.get("models") == "models",
              "C02b-predict-arguments", f,
              "_predict gets the per-row model indices, the collections and "
              "the fold-sorted models", f"_predict({pk})", node=pc[0])
    # models is element 0 of zip(*fitted)
    mt = T.of([n for n in ast.walk(pc[0]) if isinstance(n, ast.Name)
               and n.id == "models"][0])
    ok_m = mt[0] == "item" and mt[2] == 0 and "zip" in tkey(mt, 200)
    ctx.check(ok_m, "C02b-models-from-fitted", f,
              "the models handed to _predict are the (sorted) fitted models",
              f"models = {show(mt, 120)}", node=pc[0])


def strip_growth(t):
    while t[0] in ("mutsub", "mut", "store"):
        t = t[1]
    if t[0] == "sub":
        return ("sub", strip_growth(t[1]), t[2])
    return t


def _call_args(prog, T, callee_qual, call):
    """formal parameter -> term of the actual argument"""
    cal = prog.func(callee_qual)
    return {k: T.of(v) for k, v in prog.bind(cal, call).items()}


def _is_pop0(t, var=None):
    """<var>.pop(0) on a (loop-carried) local list"""
    return (t[0] == "mcall" and t[2] == "pop" and t[3] == (("const", 0),)
            and not t[4] and t[1][0] == "var"
            and (var is None or t[1][1] == var))


def _plain_comp(t):
    """(element term, iterable term) of a one-generator comprehension
    without conditions, else None"""
    if t[0] == "comp" and len(t[3]) == 1 and not t[3][0][2]:
        return t[2], t[3][0][1]
    return None


def _predict(ctx, f):
    """Facts about brew._predict, all read off reconstructed terms (local
    names, temporaries, loop-versus-comprehension spelling do not matter):

      chunk    = elem(<dataset>.read_data(...)) with ['fold'] := V.pop(0)
      V        = create_chunks(data=<the collection's model index>, ...)
      slices   = [get_index_values(chunk, 'fold', i, ORIG) for i in range(n)]
      datasets = [_create_psms(<dataset>, s, ...) for s in slices]
      tasks    = predict_fold(model=models[i], fold=i, psms=datasets[i],
                              scores=FS) for i, _ in enumerate(datasets)
      scores  += per model, in model order, hstack(FS.pop(0))
      yield      concatenate(scores)[argsort(sum(ORIG, []))]
    """
    prog = ctx.prog
    du = DefUse(prog, f)
    T = Terms(du, phi_vars=True)
    cfg = CFG(f.node)
    p_idx, p_psms, p_models = f.params[:3]
    # ---- the prediction task
    task = [n for n in ast.walk(f.node) if isinstance(n, ast.Call)
            and isinstance(n.func, ast.Call)
            and ast.unparse(n.func) == "delayed(predict_fold)"]
    ctx.require(len(task) == 1, f"{f.qual}: predict_fold task not found")
    kw = _call_args(prog, T, "mokapot.brew.predict_fold", task[0])
    pf = prog.func("mokapot.brew.predict_fold")
    p_model, p_fold, p_pp, p_scores = pf.params
    t_fold, t_model, t_ps, t_fs = (kw.get(p_fold), kw.get(p_model),
                                   kw.get(p_pp), kw.get(p_scores))
    ctx.require(None not in (t_fold, t_model, t_ps, t_fs),
                f"{f.qual}: predict_fold task misses an argument")
    # fold = idx(D), psms = elem(D), model = models[idx(D)]
    ok_t = (t_fold[0] == "idx" and t_ps[0] == "elem"
            and t_fold[1] == t_ps[1]
            and t_model == ("sub", ("param", p_models), t_fold))
    gen = cfg.enclosing(task[0], (ast.GeneratorExp, ast.ListComp))
    ok_t = ok_t and gen is not None and len(gen.generators) == 1 and \
        not gen.generators[0].ifs
    D = t_ps[1] if t_ps[0] == "elem" else None
    dc = _plain_comp(D) if D else None
    ok_list = False
    L = chunk_t = orig_t = None
    ds_t = None
    if dc and dc[0][0] == "call" and dc[0][1] == "mokapot.brew._create_psms":
        cp = prog.func("mokapot.brew._create_psms")
        ba = dict(zip(cp.params, dc[0][2]))
        ba.update(dict(dc[0][3]))
        L = dc[1]
        ds_t = ba.get(cp.params[0])
        ok_list = ba.get(cp.params[1]) == ("elem", L)
    ctx.check(ok_t and ok_list, "C02b-model-i-scores-slot-i", f,
              "slice i is scored by models[i] and stored under fold i",
              f"predict_fold(model={show(t_model, 60)}, fold="
              f"{show(t_fold, 40)}, psms={show(t_ps, 60)}) over "
              f"{show(D, 80) if D else '?'}", node=task[0])
    # ---- slices: get_index_values(chunk, 'fold', i, ORIG) for i in range(n)
    lc = _plain_comp(L) if L else None
    ok_s = False
    n_t = None
    if lc and lc[0][0] == "call" and \
            lc[0][1] == "mokapot.brew.get_index_values":
        giv = prog.func("mokapot.brew.get_index_values")
        ga = dict(zip(giv.params, lc[0][2]))
        ga.update(dict(lc[0][3]))
        chunk_t = ga.get(giv.params[0])
        orig_t = ga.get(giv.params[3])
        rng = lc[1]
        if rng[0] == "call" and rng[1] == "builtins.range" and \
                len(rng[2]) == 1:
            n_t = rng[2][0]
            ok_s = (ga.get(giv.params[1]) == ("const", "fold")
                    and ga.get(giv.params[2]) == ("elem", rng)
                    and n_t == ("call", "builtins.len",
                                (("param", p_models),), ()))
    ctx.check(ok_s, "C02b-slot-i-holds-fold-i", f,
              "slot i of the per-chunk slices holds exactly the rows whose "
              "fold label is i, for i in range(number of models)",
              f"slices are {show(L, 160) if L else '?'}", node=task[0])
    # ---- fold label column = next chunk of the model-index vector
    ok_f = False
    why = f"chunk frame is {show(chunk_t, 160) if chunk_t else '?'}"
    if chunk_t and chunk_t[0] == "store" and chunk_t[2] == ("const", "fold"):
        base, val = chunk_t[1], chunk_t[3]
        rd = base[1] if base[0] == "elem" else None
        if rd and rd[0] == "mcall" and rd[2] == "read_data" and \
                _is_pop0(val):
            vt = _var_inits(du, T, val[1])
            cc = [x for x in vt if x[0] == "call"
                  and x[1] == "mokapot.utils.create_chunks"]
            if len(vt) == 1 and cc:
                uc = prog.func("mokapot.utils.create_chunks")
                ca = dict(zip(uc.params, cc[0][2]))
                ca.update(dict(cc[0][3]))
                data_t = ca.get(uc.params[0])
                size_t = ca.get(uc.params[1])
                rsize = dict(rd[4]).get("chunk_size")
                ok_f = (data_t == ("zipelem", 1, (("param", p_psms),
                                                  ("param", p_idx)))
                        and rd[1] == ("zipelem", 0, (("param", p_psms),
                                                     ("param", p_idx)))
                        and size_t is not None and size_t == rsize
                        and ds_t == rd[1])
                why = (f"labels come from create_chunks(data="
                       f"{show(data_t, 60)}, chunk_size={show(size_t, 60)})"
                       f"; rows from {show(rd, 100)}")
    ctx.check(ok_f, "C02b-fold-label-per-chunk", f,
              "each file chunk is labelled with the next equally sized "
              "slice of the collection's own model-index vector (front to "
              "back)", why, node=task[0])
    giv = prog.func("mokapot.brew.get_index_values")
    gd = DefUse(prog, giv)
    gT = Terms(gd)
    rt = gT.returns()[0][1]
    p_df, p_col, p_val, p_orig = giv.params
    want_mask = ("cmp", "==", ("sub", ("param", p_df), ("param", p_col)),
                 ("param", p_val))
    ok_g = any(x[0] == "sub" and x[1] == ("param", p_df) and x[2] == want_mask
               for x in walk_term(rt))
    aug = [n for n in ast.walk(giv.node) if isinstance(n, ast.AugAssign)]
    ok_g = ok_g and len(aug) == 1 and ast.unparse(aug[0].target) == \
        f"{p_orig}[{p_val}]" and "index" in ast.unparse(aug[0].value)
    ctx.check(ok_g, "C02b-rows-of-fold", giv,
              "get_index_values selects rows with column == value and "
              "records their original row numbers under that value",
              f"returns {show(rt, 100)}; records "
              f"{[ast.unparse(a) for a in aug]}", node=giv.node)
    from ..events import container_events
    pT = Terms(DefUse(prog, pf))
    pev = [e for e in container_events(pf.node, pT, CFG(pf.node))
           if e.kind == "append" and len(e.args) == 1]
    SLOT = ("sub", ("param", p_scores), ("param", p_fold))

    def leaves(t):
        if t[0] == "phi":
            return [y for x in t[1] for y in leaves(x)]
        if t[0] == "ifexp":
            return leaves(t[2]) + leaves(t[3])
        return [t]

    vals = [lf for e in pev for lf in leaves(e.args[0])]
    pred = [x for x in vals if x[0] == "mcall" and x[1] == (
        "param", p_model) and x[2] in ("predict", "decision_function")
        and x[3] == (("param", p_pp),)]
    ok_p = bool(pev) and all(strip_growth(e.recv) == SLOT for e in pev) \
        and bool(pred)
    ctx.check(ok_p, "C02b-predict-fold", pf,
              "predict_fold scores its slice with its model and appends to "
              "its own fold's list",
              f"{[(show(e.recv, 40), show(e.args[0], 80)) for e in pev]}",
              node=pf.node)
    # ---- d: fold-major concatenation, un-permuted by argsort of the
    # fold-major original row numbers
    ys = [n for n in ast.walk(f.node) if isinstance(n, ast.Yield)]
    ctx.require(len(ys) == 1, f"{f.qual}: yield not found")
    yt = T.of(ys[0].value)
    ok_y = False
    sc_var = None
    if yt[0] == "sub":
        c = np_call(yt[1])
        o = yt[2]
        oc = np_call(o)
        if oc and oc[0] == "tolist":
            o = oc[1][0]
            oc = np_call(o)
        if c and c[0] == "concatenate" and len(c[1]) == 1 and \
                c[1][0][0] == "var" and oc and oc[0] == "argsort" and \
                len(oc[1]) == 1 and not oc[2]:
            sc_var = c[1][0]
            flat = oc[1][0]
            ok_y = (flat[0] == "call" and flat[1] == "builtins.sum"
                    and len(flat[2]) == 2 and flat[2][1] == ("list", ())
                    and orig_t is not None and flat[2][0] == orig_t)
    ctx.check(ok_y, "C02d-scores-in-input-order", f,
              "scores are concatenated fold-major and un-permuted with "
              "argsort of the fold-major original row numbers (the lists "
              "get_index_values recorded them in)",
              f"yields {show(yt, 200)}", node=ys[0])
    # ---- scores list is filled once per model in model order, popping fold
    # 0, 1, ... from the front of the per-fold list the tasks wrote to
    ok_m = False
    why = "scores are not assembled fold by fold in model order"
    fs_expr = prog.bind(pf, task[0]).get(p_scores)
    if sc_var is not None and isinstance(fs_expr, ast.Name):
        apps = [n for n in ast.walk(f.node) if isinstance(n, ast.Call)
                and isinstance(n.func, ast.Attribute)
                and n.func.attr == "append" and isinstance(
                    n.func.value, ast.Name)
                and T.of(n.func.value)[:2] == sc_var[:2]]
        ml = {id(lp): lp for a in apps
              for lp in [cfg.enclosing(a, (ast.For, ast.While))]}
        # pops of the list the tasks wrote to (same variable, same object)
        task_defs = {d.uid for d in du.defs_of(fs_expr)}
        pops = []
        for n in ast.walk(f.node):
            if isinstance(n, ast.Call) and isinstance(
                    n.func, ast.Attribute) and n.func.attr == "pop" and \
                    isinstance(n.func.value, ast.Name) and \
                    n.func.value.id == fs_expr.id and task_defs & {
                        d.uid for d in du.defs_of(n.func.value)}:
                pops.append(n)
        fs_name = fs_expr.id
        if apps and len(ml) == 1 and None not in ml.values():
            lp = list(ml.values())[0]
            per = []
            for a in apps:
                at = T.of(a.args[0]) if len(a.args) == 1 else ("unknown", "")
                per.append(sum(1 for x in walk_term(at)
                               if isinstance(x, tuple) and x
                               and x[0] == "mcall" and _is_pop0(x, fs_name)))
            ok_m = (isinstance(lp, ast.For)
                    and T.of(lp.iter) == ("param", p_models)
                    and all(k == 1 for k in per) and pops
                    and all(inside(p_, lp) and len(p_.args) == 1
                            and const_value(p_.args[0]) == 0 for p_ in pops))
            why = (f"{len(apps)} append(s) in a loop over "
                   f"{ast.unparse(getattr(lp, 'iter', lp))[:40]}, each using "
                   f"{per} front pops of the per-fold score list")
    ctx.check(ok_m, "C02d-fold-major-scores", f,
              "per-fold score blocks are appended in model order, each from "
              "the front of the per-fold list", why, node=ys[0])


def _var_inits(du, T, var):
    """Terms of the definitions a ('var', name, uids) stands for, in-place
    mutations of the same object peeled off."""
    out = []
    for d in du.defs:
        if d.name == var[1] and d.uid in var[2]:
            if d.kind in ("mut", "store", "augstore", "delitem"):
                continue
            out.append(T.of_def(d))
    return out


# ------------------------------------------------------------------ c
def _split(ctx, f):
    prog = ctx.prog
    du = DefUse(prog, f)
    T = Terms(du)
    rets = T.returns()
    ctx.require(len(rets) >= 1, f"{f.qual}: no return")
    p_folds, p_rng = [p for p in f.params if p != "self"][:2]
    n_split = 0
    for rnode, rt in rets:
        leaves = _leaves(rt)
        for leaf in leaves:
            leaf = _peel_muts(leaf)
            c = np_call(leaf)
            if not (c and c[0] in ("split", "array_split") and len(c[1])
                    >= 2):
                raise AnalysisError(
                    f"{f.qual}: a returned fold list is not produced by "
                    f"np.split: {show(leaf, 120)}")
            n_split += 1
            rows, cuts = c[1][0], c[1][1]
            rows = strip_conv(rows)
            # rows = argsort(hash)
            rc = np_call(rows)
            ok_rows = bool(rc and rc[0] == "argsort" and rc[1])
            hash_t = rc[1][0] if ok_rows else None
            for cut in _leaves(cuts):
                cut = strip_conv(cut)
                ok_cut = False
                why = show(cut, 160)
                if cut[0] == "sub":
                    base = strip_conv(cut[1])
                    sel = strip_conv(cut[2])
                    # base = np.unique(sorted hash, return_index=True)[1]
                    ub = base
                    idx_ok = False
                    if ub[0] in ("item", "sub"):
                        which = ub[2] if ub[0] == "item" else (
                            ub[2][1] if ub[2][0] == "const" else None)
                        uc = np_call(strip_conv(ub[1]))
                        if uc and uc[0] == "unique" and which == 1 and \
                                uc[2].get("return_index") == ("const", True):
                            arr = strip_conv(uc[1][0])
                            # sorted hash: hash[argsort(hash)]
                            idx_ok = (arr[0] == "sub"
                                      and strip_conv(arr[1]) == hash_t
                                      and strip_conv(arr[2]) == rows)
                    sc = np_call(sel)
                    sel_ok = bool(sc and sc[0] == "searchsorted"
                                  and strip_conv(sc[1][0]) == base)
                    ok_cut = idx_ok and sel_ok
                    if not idx_ok:
                        why = ("cut positions are not taken from the "
                               "group-start indices of np.unique(hash "
                               "sorted by the row permutation, "
                               f"return_index=True): {show(base, 120)}")
                    elif not sel_ok:
                        why = ("cut positions are selected with "
                               f"{show(sel, 100)}, not by searchsorted in "
                               "the group starts")
                else:
                    why = ("on some path the cut positions are "
                           f"{show(cut, 120)}: raw positions can fall "
                           "inside a spectrum's group of PSMs and split it "
                           "across folds")
                ctx.check(ok_cut and ok_rows, "C02c-cuts-at-group-starts",
                          f, "fold boundaries are group-start positions of "
                          "the sorted spectrum hashes (all PSMs of a "
                          "spectrum stay together)", why, node=rnode)
            # hash covers the whole key and is process independent
            if hash_t is not None:
                _hash_key(ctx, f, hash_t, rnode)
    ctx.floor("C02c-np-split", n_split, 1)
    # folds - 1 cut points
    # every range whose length depends on the number of folds - in this
    # function or in the helpers it gets its cut points from - must have
    # folds - 1 elements
    want = lin(("param", p_folds)) + lin(("const", -1))
    counts = []
    funcs = [(f, {})]
    for n in ast.walk(f.node):
        if isinstance(n, ast.Call):
            t = T.of(n)
            if t[0] == "call" and t[1] in prog.funcs and \
                    prog.funcs[t[1]].module is f.module and any(
                        x == ("param", p_folds) for x in walk_term(t)):
                funcs.append((prog.funcs[t[1]], bound_args(prog, t) or {}))
    for g, b in funcs:
        gT = T if g is f else Terms(DefUse(prog, g))
        for n in ast.walk(g.node):
            if isinstance(n, ast.Call) and isinstance(
                    n.func, ast.Name) and n.func.id == "range":
                rt = subst_params(gT.of(n), b)
                if rt[0] == "call" and len(rt[2]) == 1 and any(
                        x == ("param", p_folds) for x in walk_term(rt)):
                    counts.append(lin(rt[2][0]))
    ctx.require(counts, f"{f.qual}: no range over the number of folds "
                "found; rule C02c needs re-reading")
    ctx.check(all(c == want for c in counts), "C02c-fold-count", f,
              "folds - 1 cut points give exactly the requested number of "
              "folds", f"cut points are counted by {counts!r}",
              node=f.node)


def _leaves(t):
    t = strip_conv(t)
    if t[0] == "phi":
        return [y for x in t[1] for y in _leaves(x)]
    return [t]


def _peel_muts(t):
    while t[0] in ("mut", "mutsub", "store"):
        t = t[1]
        if t[0] == "phi":
            cands = [x for x in t[1] if x[0] not in ("rec",)]
            base = [x for x in cands if x[0] not in ("mut", "mutsub")]
            t = base[0] if base else cands[0]
    return t


def _hash_key(ctx, f, hash_t, node):
    c = np_call(strip_conv(hash_t))
    ok = False
    why = show(hash_t, 160)
    if c and c[0] == "apply_along_axis" and c[1]:
        lam = c[1][0]
        if lam[0] in ("name", "free") and lam[1] in ctx.prog.funcs:
            # a named (nested) function instead of a lambda
            hf = ctx.prog.funcs[lam[1]]
            hr = Terms(DefUse(ctx.prog, hf)).returns()
            hp = [p_ for p_ in hf.params if p_ != "self"]
            if len(hr) == 1 and len(hp) == 1:
                lam = ("lambda", (hp[0],), subst_params(
                    hr[0][1], {hp[0]: ("lparam", hp[0])}))
        if lam[0] == "lambda" and len(lam[1]) == 1:
            body = lam[2]
            x = ("lparam", lam[1][0])
            hc = [y for y in walk_term(body) if y[0] == "call"
                  and y[1] in ("zlib.crc32", "zlib.adler32",
                               "hashlib.md5", "hashlib.sha1")]
            salted = [y for y in walk_term(body) if y[0] == "call"
                      and y[1] == "builtins.hash"]
            subs = [y for y in walk_term(body) if y[0] == "sub"
                    and y[1] == x]
            const_idx = [y[2][1] for y in subs if y[2][0] == "const"]
            whole = any(y[0] == "call" and y[1] in (
                "builtins.tuple", "builtins.str", "builtins.list",
                "builtins.repr") and y[2] and y[2][0] == x
                for y in walk_term(body))
            if salted:
                why = ("spectra are hashed with the builtin hash(), which "
                       "is salted per interpreter for strings "
                       "(PYTHONHASHSEED): fold membership changes between "
                       "sessions")
            elif not hc:
                why = f"no process-independent hash in {show(body, 100)}"
            elif subs and not whole:
                # constant subscripts must exist for the narrowest key (1)
                ok = all(isinstance(i, int) and i == 0 for i in const_idx) \
                    and len(const_idx) == len(subs)
                why = (f"the hash reads key columns {const_idx}: a spectrum "
                       "key may consist of the scan column alone (IndexError"
                       ") and further columns are ignored")
            else:
                ok = whole
        axis_ok = len(c[1]) >= 2 and c[1][1] == ("const", 1)
        ok = ok and axis_ok
    ctx.check(ok, "C02c-hash-of-whole-key", f,
              "each row's spectrum key is hashed as a whole with a "
              "process-independent hash", why, node=node)


# ------------------------------------------------------------------ pin
def _parse_in_chunks(ctx):
    prog = ctx.prog
    g = prog.func("mokapot.parsers.pin.get_rows_from_dataframe")
    p_idx, p_chunk, p_train, p_psms, p_file = g.params
    du = DefUse(prog, g)
    T = Terms(du)
    apps = [n for n in ast.walk(g.node) if isinstance(n, ast.Call)
            and isinstance(n.func, ast.Attribute)
            and n.func.attr == "append" and len(n.args) == 1]
    ok = False
    why = f"{[ast.unparse(a)[:80] for a in apps]}"
    if len(apps) == 1:
        a = apps[0]
        recv = base_of(T.of(a.func.value))
        val = norm_calls(prog, T.of(a.args[0]))
        K = ("idx", ("param", p_idx))
        recv_ok = recv == ("sub", ("sub", ("param", p_train),
                                   ("param", p_file)), K)
        sel_ok = False
        if val[0] == "sub" and val[1][0] == "attr" and val[1][2] == "loc":
            frame = val[1][1]
            conv = bound_args(prog, frame)
            frame_ok = conv is not None and \
                frame[1] == "mokapot.utils.convert_targets_column" and \
                conv.get("data") == ("param", p_chunk)
            sel = val[2]
            while sel[0] == "call" and sel[1] in (
                    "builtins.list", "builtins.sorted") and len(sel[2]) == 1:
                sel = sel[2][0]
            if sel[0] == "bin" and sel[1] == "&":
                def setof(x):
                    return ("call", "builtins.set", (x,), ())
                sides = {sel[2], sel[3]}
                sel_ok = frame_ok and sides == {
                    setof(("elem", ("param", p_idx))),
                    setof(("attr", frame, "index"))}
        ok = recv_ok and sel_ok
        why = (f"appends {show(val, 160)} to {show(recv, 80)}")
    ctx.check(ok, "C02b-training-rows-by-index", g,
              "rows appended to training set k of a file are that file's "
              "chunk rows whose index is in training index list k",
              why, node=apps[0] if apps else g.node)
    pic = prog.func("mokapot.parsers.pin.parse_in_chunks")
    pT = Terms(DefUse(prog, pic), phi_vars=True)
    p_ps, p_tr = pic.params[0], pic.params[1]
    task = [n for n in ast.walk(pic.node) if isinstance(n, ast.Call)
            and isinstance(n.func, ast.Call)
            and ast.unparse(n.func) == "delayed(get_rows_from_dataframe)"]
    ok_a = False
    why = "task not found"
    TRAIN = None
    ZT = ("call", "builtins.zip", (("star", ("param", p_tr)),), ())
    if len(task) == 1:
        b = {k: strip_materialise(pT.of(v))
             for k, v in prog.bind(g, task[0]).items()}
        ti, tp, tf = b.get(p_idx), b.get(p_psms), b.get(p_file)
        TRAIN = b.get(p_train)
        why = str({k: show(v, 80) for k, v in b.items()})
        if ti and tp and tf and ti[0] == "zipelem" and tp[0] == "zipelem" \
                and ti[2] == tp[2] and ti[2][ti[1]] == ZT and \
                tp[2][tp[1]] == ("param", p_ps):
            Z = ti[2]
            rng = ("call", "builtins.range",
                   (("call", "builtins.len", (("param", p_ps),), ()),), ())
            file_ok = (tf[0] == "zipelem" and tf[2] == Z
                       and Z[tf[1]] == rng) or tf == (
                "idx", ("call", "builtins.zip", Z, ()))
            # the chunk comes from the same file's reader
            ch = b.get(p_chunk)
            chunk_ok = ch is not None and ch[0] == "elem" and any(
                x == ("attr", tp, "filename") for x in walk_term(ch))
            ok_a = file_ok and chunk_ok
    ctx.check(ok_a, "C02b-file-fold-transposition", pic,
              "file j is read with the per-fold index lists of file j "
              "(zip(*train_idx) transposes [fold][file] to [file][fold])",
              "the pairing of files, index lists and file numbers changed: "
              + why, node=task[0] if task else pic.node)
    rets = [strip_materialise(t) for _r, t in pT.returns()]
    ok_r = False
    if len(rets) == 1 and rets[0][0] == "comp" and len(rets[0][3]) == 1 \
            and not rets[0][3][0][2]:
        it = rets[0][3][0][1]
        elt = callee_of(rets[0][2])
        if elt and elt[0] == "pandas.concat" and elt[1] == [("elem", it)] \
                and it[0] == "call" and it[1] == "builtins.zip" and \
                len(it[2]) == 1 and it[2][0][0] == "star":
            par = it[2][0][1]
            rc = [x for x in walk_term(par) if isinstance(x, tuple) and x
                  and x[0] == "call" and x[1] ==
                  "mokapot.parsers.pin.concat_and_reindex_chunks"]
            if rc and TRAIN is not None:
                rb = bound_args(prog, rc[0])
                pair = (TRAIN, ZT)
                ok_r = rb.get("df") == ("zipelem", 0, pair) and \
                    rb.get("orig_idx") == ("zipelem", 1, pair)
    ctx.check(ok_r, "C02b-training-frames-per-fold", pic,
              "the result has one training frame per fold (files "
              "concatenated), in fold order; each file's rows are re-"
              "ordered by that file's own index lists",
              f"{[show(r, 200) for r in rets]}", node=pic.node)
