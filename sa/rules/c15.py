"""C15 - picked-protein: one entry per target/decoy protein pair, won by its
best peptide."""

from __future__ import annotations

import ast

from ..cfg import CFG
from ..core import callee_is, AnalysisError, const_value
from ..defuse import DefUse, Terms, show, walk_term
from ..defuse import key as tkey
from ..memo import check_no_cross_call_state
from ..paths import path_variants
from ..tutil import norm_calls

EXPLANATION = (
    "Static analysis of picked_protein.picked_protein / strip_peptides / "
    "group_with_decoys / group_without_decoys, utils.groupby_max, "
    "peptides.match_decoy and the protein branch of "
    "LinearConfidence._assign_confidence. (a) mapping: the lookup key is "
    "the stripped sequence of the best peptide; the three stripping "
    "patterns are parsed (regex AST) and must remove any bracketed "
    "modification, everything up to the first '.', and everything from the "
    "next '.' on; lookup goes through the unique-peptide map only; "
    "unmatched rows are removed before the pick. (b) the pick is a "
    "maximum: ascending sort on (group key, score) with keep='last' (or "
    "the mirror image), after a shuffle seeded by the rng. (c) the picked "
    "index labels are applied with .loc to the frame they were computed "
    "from; the pairing key maps the first member of a target group to its "
    "decoy name and a decoy to itself through protein_map.get(x, x); the "
    "five result columns are returned; the confidence code feeds the "
    "peptide-level table, its own columns, the Proteins object and the "
    "rng. Nothing is cached across calls. Also: read_fasta's maps, pairing and has_decoys flag (shared with C16b). "
    "Also: the protein grouping rules (shared with C16d) are clauses of this property. "
    "NOT decided: which peptide wins "
    "for given data.")
TECHNIQUE = ("def-use term matching + regex-AST classification of the "
             "stripping patterns + sibling agreement (sort direction vs "
             "keep) + cross-call state scan")

PP = "mokapot.picked_protein."


def run(ctx):
    from .common import READ_FASTA, FASTA_OPTIONS, cli_routing
    cli_routing(ctx, "C15c-cli-fasta-options", READ_FASTA, FASTA_OPTIONS,
                "the protein database the picked-protein step pairs targets and decoys with")
    prog = ctx.prog
    _strip(ctx, prog.func(PP + "strip_peptides"))
    _picked(ctx, prog.func(PP + "picked_protein"))
    _groupby_max(ctx, prog.func("mokapot.utils.groupby_max"))
    _confidence(ctx, prog.func(
        "mokapot.confidence.LinearConfidence._assign_confidence"))
    # which path the picked-protein step takes (decoys in the database or
    # mirrored from the targets) and what it pairs are decided by the
    # Proteins object read_fasta builds: its maps, pairing and has_decoys
    # flag are a clause of this property too (shared with C16b)
    from .c16 import _read_fasta
    _read_fasta(ctx, prog.func("mokapot.parsers.fasta.read_fasta"))
    # ... and the protein *groups* the entries stand for: indistinguishable
    # and subset proteins are merged, so that one group means one entry
    # (shared with C16d)
    from .c16 import _group
    _group(ctx, prog.func("mokapot.parsers.fasta._group_proteins"))
    reach = prog.reachable([PP + "picked_protein"])
    check_no_cross_call_state(
        ctx, "C15-no-cross-call-state",
        [prog.funcs[q] for q in sorted(reach) if q in prog.funcs
         and not isinstance(prog.funcs[q].node, ast.Lambda)],
        "picked-protein computation")


def _classify_regex(pat):
    """('mods'|'prefix'|'suffix'|'lower'|None, detail) from the regex AST."""
    try:
        import re._parser as sp
        import re._constants as sc
    except ImportError:  # pragma: no cover
        import sre_parse as sp
        import sre_constants as sc
    try:
        tree = list(sp.parse(pat))
    except Exception as e:  # noqa: BLE001
        return None, f"unparsable: {e}"

    def is_any_repeat(node):
        op, av = node
        if op in (sc.MIN_REPEAT, sc.MAX_REPEAT):
            lo, hi, sub = av
            sub = list(sub)
            if lo == 0 and hi == sc.MAXREPEAT and len(sub) == 1:
                sop, sav = sub[0]
                if sop == sc.ANY:
                    return True
                if sop == sc.NOT_LITERAL and sav == ord("."):
                    return True
        return False

    def is_set(node, chars):
        op, av = node
        if op == sc.IN:
            got = {chr(a) for o, a in av if o == sc.LITERAL}
            return got == set(chars) and all(o == sc.LITERAL for o, a in av)
        return False

    if len(tree) == 3 and tree[0] == (sc.AT, sc.AT_BEGINNING) and \
            is_any_repeat(tree[1]) and tree[2] == (sc.LITERAL, ord(".")):
        return "prefix", ""
    if len(tree) == 3 and tree[0] == (sc.LITERAL, ord(".")) and \
            is_any_repeat(tree[1]) and tree[2] == (sc.AT, sc.AT_END):
        return "suffix", ""
    if len(tree) == 3 and is_set(tree[0], "[(") and tree[1][0] in (
            sc.MIN_REPEAT,) and is_any_repeat(tree[1]) and is_set(
                tree[2], "])"):
        return "mods", ""
    if len(tree) == 1 and tree[0][0] == sc.IN:
        rng = [a for o, a in tree[0][1] if o == sc.RANGE]
        if rng == [(ord("a"), ord("z"))]:
            return "lower", ""
    return None, f"{pat!r} has regex structure {tree}"


def _strip(ctx, f):
    reps = [n for n in ast.walk(f.node) if isinstance(n, ast.Call)
            and isinstance(n.func, ast.Attribute)
            and n.func.attr == "replace" and len(n.args) >= 2]
    kinds = {}
    for r in reps:
        pat = const_value(r.args[0])
        rep = const_value(r.args[1])
        regex = const_value({k.arg: k.value for k in r.keywords}.get(
            "regex"))
        if not isinstance(pat, str):
            continue
        k, why = _classify_regex(pat)
        if k is None:
            ctx.fail("C15a-strip-patterns", f, f"pattern {pat!r}",
                     "a stripping pattern is not one of: bracketed "
                     "modification, everything up to the first '.', "
                     f"everything from a '.' to the end ({why}); flanking "
                     "residues or modifications in other notations are no "
                     "longer ignored when mapping peptides to proteins",
                     node=r)
            continue
        kinds[k] = (rep, regex)
    for k in ("mods", "prefix", "suffix"):
        ok = kinds.get(k) == ("", True)
        ctx.check(ok, "C15a-strip-patterns", f,
                  {"mods": "bracketed/parenthesised modifications are "
                           "removed",
                   "prefix": "everything up to and including the first '.' "
                             "is removed (N-terminal flank, any notation)",
                   "suffix": "everything from the next '.' to the end is "
                             "removed (C-terminal flank, any notation)"}[k],
                  f"no replacement of kind '{k}' with '' (found "
                  f"{sorted(kinds)})", node=f.node)
    # order: mods first (a '.' inside a modification must not be taken for
    # a flank separator)
    order = []
    for r in sorted(reps, key=lambda n: (n.end_lineno, n.end_col_offset)):
        pat = const_value(r.args[0])
        if isinstance(pat, str):
            order.append(_classify_regex(pat)[0])
    core = [k for k in order if k in ("mods", "prefix", "suffix")]
    ctx.check(core[:1] == ["mods"], "C15a-strip-order", f,
              "modifications are removed before the flanks are cut at '.' "
              "(masses such as [+15.99] contain dots)",
              f"replacement order is {core}", node=f.node)


def _picked(ctx, f):
    """Sink-driven: the frame that picked_protein returns is unwound from
    the return statement back to the peptide table (one reading per value of
    proteins.has_decoys)."""
    prog = ctx.prog
    (p_pep, p_tc, p_pc, p_sc, p_prot, p_rng) = f.params
    P = {n: ("param", n) for n in f.params}
    HAS = ("attr", P[p_prot], "has_decoys")
    readings = {}
    for v in path_variants(f.node):
        vT = Terms(DefUse(prog, f, fnode=v.fnode))
        vals = set()
        consistent = True
        for t, o in v.conds:
            tt = vT.of(t)
            while tt[0] == "un" and tt[1] == "not":
                tt, o = tt[2], not o
            if tt == HAS:
                vals.add(o)
        if len(vals) > 1:
            continue            # contradictory branch choices
        rs = [t for _r, t in vT.returns()]
        if not rs:
            continue
        for fl in (vals or {True, False}):
            readings.setdefault(fl, set()).update(rs)
    ctx.require(set(readings) == {True, False} and all(
        len(x) == 1 for x in readings.values()),
        f"{f.qual}: returned frame not determined per value of has_decoys")

    def layers(t):
        """the frame term unwound into its layers, outermost first:
        ('store', key, value, frame-with-this-layer) | ('rows', mask,
        frame) ...; ends with ('base', term)"""
        out = []
        while True:
            if t[0] == "store" and t[2][0] == "const":
                out.append(("store", t[2][1], t[3], t))
                t = t[1]
            elif t[0] == "sub" and t[1][0] == "attr" and t[1][2] == "loc" \
                    and t[2][0] == "tuple" and len(t[2][1]) == 2 and \
                    t[2][1][1] == ("slice", ("const", None),
                                   ("const", None), ("const", None)):
                out.append(("rows", t[2][1][0], t))
                t = t[1][1]
            else:
                out.append(("base", t))
                return out

    def unwind(ret):
        fx = {"problems": []}
        if not (ret[0] == "sub" and ret[1][0] == "attr"
                and ret[1][2] == "loc" and ret[2][0] == "tuple"
                and len(ret[2][1]) == 2):
            return None, (f"result is {show(ret, 100)}, not "
                          "frame.loc[rows, cols]")
        fx["F4"] = ret[1][1]
        fx["pick"], fx["cols"] = ret[2][1]
        ls = layers(fx["F4"])
        names = [(x[0], x[1] if x[0] == "store" else None) for x in ls]

        def find(kind, key=None):
            for i, x in enumerate(ls):
                if x[0] == kind and (key is None or x[1] == key):
                    return i
            return None

        i_dec = find("store", "decoy")
        i_grp = find("store", "mokapot protein group")
        i_key = find("store", "stripped sequence")
        i_rows = find("rows")
        fx["decoy"] = ls[i_dec][2] if i_dec is not None else None
        fx["groups"] = ls[i_grp][2] if i_grp is not None else None
        fx["F2"] = ls[i_grp][3] if i_grp is not None else None
        fx["key"] = ls[i_key][2] if i_key is not None else None
        fx["F1"] = ls[i_key][3] if i_key is not None else None
        fx["F0"] = ls[-1][1]
        # rows are filtered after the groups are known and before the
        # pairing column is built
        fx["rowmask"] = None
        fx["F3"] = None
        if i_rows is not None and i_grp is not None and i_rows < i_grp \
                and (i_dec is None or i_dec < i_rows):
            fx["rowmask"] = ls[i_rows][1]
            fx["F3"] = ls[i_rows][2]
        fx["order"] = names
        return fx, None

    facts = {}
    for fl, terms in readings.items():
        fx, why = unwind(next(iter(terms)))
        ctx.require(fx is not None, f"{f.qual}: {why}")
        if fx["key"] is None or fx["groups"] is None:
            ctx.check(False, "C15c-labels-applied-to-same-frame", f,
                      "the picked index labels select rows (.loc) of the "
                      "very frame they were computed from",
                      f"the result is cut from {show(fx['F4'], 100)}, which "
                      "is not the working frame (no stripped sequence / "
                      "protein group column)", node=f.node)
            return
        facts[fl] = fx
    fx = facts[True]
    F0 = fx["F0"]
    none = ("const", None)
    want_F0 = ("mcall", ("sub", ("attr", P[p_pep], "loc"), ("tuple", (
        ("slice", none, none, none),
        ("list", (P[p_tc], P[p_pc], P[p_sc]))))), "rename", (),
        (("columns", ("dict", (P[p_pc],), (("const", "best peptide"),))),))
    ctx.check(all(x["F0"] == want_F0 for x in facts.values()),
              "C15a-frame-from-peptide-table", f,
              "the working frame is the peptide table's label, peptide and "
              "score columns, the peptide column renamed 'best peptide'",
              f"working frame is {show(F0, 160)}", node=f.node)
    want_key = ("call", PP + "strip_peptides",
                (("sub", F0, ("const", "best peptide")),), ())
    ctx.check(all(x["key"] == want_key for x in facts.values()),
              "C15a-key-is-stripped-best-peptide", f,
              "the lookup key is the stripped form of the row's own best "
              "peptide", f"key column is {show(fx['key'], 120)}",
              node=f.node)
    F1 = fx["F1"]
    want_g = {
        True: ("call", PP + "group_with_decoys", (F1, P[p_prot]), ()),
        False: ("call", PP + "group_without_decoys",
                (F1, P[p_tc], P[p_prot], P[p_rng]), ()),
    }
    from ..tutil import expand_helpers, method_forms

    def canon_g(t):
        # a call of the small lookup helper and its hand-inlined body are
        # the same thing
        return norm_calls(prog, method_forms(expand_helpers(
            prog, t, names={PP + "group_with_decoys"})))
    ok_g = all(canon_g(facts[fl]["groups"]) == canon_g(want_g[fl])
               for fl in (True, False))
    ctx.check(ok_g, "C15a-group-lookup", f,
              "protein groups come from group_with_decoys / "
              "group_without_decoys depending on the FASTA",
              str({fl: show(facts[fl]["groups"], 80)
                   for fl in (True, False)}), node=f.node)
    gw = prog.func(PP + "group_with_decoys")
    gT = Terms(DefUse(prog, gw))
    r = [t for _r, t in gT.returns()]
    want_w = ("mcall", ("sub", ("param", gw.params[0]),
                        ("const", "stripped sequence")), "map",
              (("attr", ("attr", ("param", gw.params[1]), "peptide_map"),
                "get"),), ())
    ctx.check(r == [want_w], "C15a-unique-map-only", gw,
              "stripped sequences are looked up in the unique-peptide map "
              "only (shared peptides never contribute)",
              f"{[show(x, 120) for x in r]}", node=gw.node)

    # unmatched removed before the pick
    def strip_w(t):
        while t[0] in ("store", "mut"):
            t = t[1]
        return t

    ok_f = True
    for x in facts.values():
        m = x["rowmask"]
        ok_f = ok_f and m is not None and m[0] == "un" and m[1] == "~" \
            and method_forms(strip_w(m[2])) == (
            "mcall", ("sub", x["F2"], ("const", "mokapot protein group")),
            "isna", (), ())
    ctx.check(ok_f, "C15a-unmatched-removed-before-pick", f,
              "rows without a protein group are removed before the pick",
              f"rows kept: {show(fx['rowmask'], 120) if fx['rowmask'] else 'all'}"
              f" (layers {fx['order']}): unmatched rows can take part in "
              "the competition", node=f.node)
    # pairing key
    ok_d = True
    why = ""
    for x in facts.values():
        t = x["decoy"]
        okx = False
        if t is None:
            why = ("the frame the result is taken from has no 'decoy' "
                   "pairing column")
        elif t[0] == "mcall" and t[2] == "map" and t[3] and \
                t[3][0][0] == "lambda" and len(t[3][0][1]) == 1:
            lx = ("lparam", t[3][0][1][0])
            body = t[3][0][2]
            PM = ("attr", P[p_prot], "protein_map")
            # d.get(x, x)  /  d[x] if x in d else x  /  x if x not in d ...
            ok_l = body in (
                ("mcall", PM, "get", (lx, lx), ()),
                ("ifexp", ("cmp", "in", lx, PM), ("sub", PM, lx), lx),
                ("ifexp", ("cmp", "not in", lx, PM), lx, ("sub", PM, lx)))
            base = t[1]
            ok_b = (base[0] == "sub" and base[2] == ("const", 0)
                    and base[1][0] == "mcall" and base[1][2] == "split"
                    and base[1][3][:1] == (("const", ","),)
                    and dict(base[1][4]).get("expand") == ("const", True)
                    and base[1][1][0] == "attr" and base[1][1][2] == "str"
                    and base[1][1][1][0] == "sub" and base[1][1][1][2] == (
                        "const", "mokapot protein group")
                    and base[1][1][1][1] in (x["F3"], x["F2"]))
            okx = ok_l and ok_b
            if not ok_l:
                why = (f"pairing function is {show(body, 100)}: a target "
                       "group must map to its decoy's name and a decoy to "
                       "itself (protein_map.get(x, x))")
            elif not ok_b:
                why = f"pairing key is taken from {show(base, 140)}"
        else:
            why = (f"pairing key is {show(t, 140)}: expected the first "
                   "group member passed through protein_map.get(x, x)")
        ok_d = ok_d and okx
    ctx.check(ok_d, "C15c-pairing-key", f,
              "target group and decoy counterpart share one key: first "
              "member of the group, targets mapped to their decoy name, "
              "decoys to themselves", why, node=f.node)
    # the pick and its application
    ok_p = all(norm_calls(prog, x["pick"]) == norm_calls(prog, (
        "call", "mokapot.utils.groupby_max",
        (x["F4"], ("list", (("const", "decoy"),)), P[p_sc], P[p_rng]), ()))
        for x in facts.values())
    ctx.check(ok_p, "C15b-pick-arguments", f,
              "the best row per pairing key is picked by score with the "
              "run's rng", f"pick is {show(fx['pick'], 160)}", node=f.node)
    ctx.check(ok_p, "C15c-labels-applied-to-same-frame", f,
              "the picked index labels select rows (.loc) of the very frame "
              "they were computed from",
              "the labels are computed on another frame than the one they "
              "are applied to", node=f.node)
    want_cols = ("list", (("const", "mokapot protein group"),
                          ("const", "best peptide"),
                          ("const", "stripped sequence"), P[p_sc], P[p_tc]))
    ctx.check(all(x["cols"] == want_cols for x in facts.values()),
              "C15c-result-columns", f,
              "the entry reports group, best peptide, stripped sequence, "
              "score and label",
              f"columns are {show(fx['cols'], 160)}", node=f.node)


def _groupby_max(ctx, f):
    prog = ctx.prog
    du = DefUse(prog, f)
    T = Terms(du)
    p_df, p_by, p_max, p_rng = f.params
    rets = T.returns()
    ctx.require(len(rets) == 1, f"{f.qual}: expected one return")
    t = rets[0][1]
    chain = []
    x = t
    if x[0] == "attr" and x[2] == "index":
        x = x[1]
    while x[0] == "mcall":
        chain.append((x[2], x[3], dict(x[4])))
        x = x[1]
    chain.reverse()
    names = [c[0] for c in chain]
    ok = names == ["sample", "sort_values", "drop_duplicates"] and \
        x == ("param", p_df)
    ctx.check(ok, "C15b-pick-pipeline", f,
              "shuffle -> sort -> drop duplicates -> index, on the given "
              "frame", f"pipeline is {names} on {show(x, 40)}",
              node=rets[0][0])
    if not ok:
        return
    s_kw = chain[0][2]
    ctx.check(s_kw.get("frac") == ("const", 1) and s_kw.get(
        "random_state") == ("param", p_rng), "C15b-tie-shuffle-seeded", f,
        "ties are broken by a complete shuffle seeded with the rng",
        f"sample({ {k: show(v, 30) for k, v in s_kw.items()} })",
        node=rets[0][0])
    sv_args, sv_kw = chain[1][1], chain[1][2]
    asc = sv_kw.get("ascending", ("const", True))
    keep = chain[2][2].get("keep", ("const", "first"))
    by = sv_args[0] if sv_args else sv_kw.get("by")
    by_txt = tkey(by, 200) if by else ""
    # sort keys = the group columns followed by the score column, in any
    # spelling of that list (cols + [m], [*cols, m] ...)
    from ..tutil import seq_concat
    by_parts = seq_concat(by) if by is not None else []
    ends_with_max = len(by_parts) == 2 and by_parts[0][0] == "splice" and \
        by_parts[1] == ("item", ("param", p_max))
    GROUP_COLS = by_parts[0][1] if ends_with_max else None
    ok_dir = (asc == ("const", True) and keep == ("const", "last")) or (
        asc == ("const", False) and keep == ("const", "first"))
    ctx.check(ends_with_max, "C15b-sorted-by-group-then-score", f,
              "rows are sorted by the group columns and then by the score",
              f"sort keys: {by_txt}", node=rets[0][0])
    ctx.check(ok_dir, "C15b-keeps-the-maximum", f,
              "the kept row of each group is the one with the highest "
              "score (ascending + keep='last', or descending + 'first')",
              f"ascending={show(asc)}, keep={show(keep)} keeps the "
              "minimum of each group", node=rets[0][0])
    dd = chain[2][1] or tuple(
        x for x in (chain[2][2].get("subset"),) if x is not None)
    def as_sequence(t):
        """list(list(x)) / tuple(x) / [*x]: the same column names in the
        same order as x"""
        while t[0] == "call" and t[1] in ("builtins.list",
                                          "builtins.tuple") and \
                len(t[2]) == 1 and not t[3]:
            t = t[2][0]
        return t
    ok_dd = bool(dd) and tkey(as_sequence(dd[0])) == tkey(
        as_sequence(GROUP_COLS)) if ends_with_max else False
    ctx.check(ok_dd, "C15b-one-row-per-group", f,
              "duplicates are dropped on exactly the group columns",
              f"drop_duplicates({[show(d, 60) for d in dd]})",
              node=rets[0][0])


def _confidence(ctx, f):
    calls = [n for n in ast.walk(f.node) if isinstance(n, ast.Call)
             and callee_is(ctx.prog, f, n, "picked_protein")]
    ctx.require(len(calls) == 1, f"{f.qual}: picked_protein call not found")
    prog = ctx.prog
    du = DefUse(prog, f)
    T = Terms(du)
    pp = prog.func(PP + "picked_protein")
    b = {k: T.of(v) for k, v in prog.bind(pp, calls[0]).items()}
    SELF = ("param", "self")
    want = {pp.params[1]: ("attr", SELF, "_target_column"),
            pp.params[2]: ("attr", SELF, "_peptide_column"),
            pp.params[3]: ("attr", SELF, "_score_column"),
            pp.params[4]: ("attr", SELF, "_proteins"),
            pp.params[5]: ("attr", SELF, "_rng")}
    ok = all(b.get(k) == v for k, v in want.items())
    ctx.check(ok, "C15c-confidence-arguments", f,
              "picked_protein receives the peptide-level table, the label, "
              "peptide and score columns, the Proteins object and the rng",
              f"picked_protein({ {k: show(v, 40) for k, v in b.items()} })",
              node=calls[0])
    cfg = CFG(f.node)
    table = prog.bind(pp, calls[0]).get(pp.params[0])
    tt = b.get(pp.params[0], ("x",))
    LEVEL1 = ("sub", ("param", "level_paths"), ("const", 1))
    from_level1 = any(
        isinstance(x, tuple) and x and x[0] == "mcall" and x[2] == "read"
        and any(y == LEVEL1 for y in walk_term(x[1]))
        for x in walk_term(tt))
    ok_r = False
    if from_level1:
        if any(isinstance(x, tuple) and x[:2] == (
                "call", "mokapot.utils.convert_targets_column")
                for x in walk_term(tt)):
            ok_r = True         # converted value is what is passed on
        elif isinstance(table, ast.Name):
            # converted in place: a convert_targets_column(table, ...) call
            # on the same object lies on every path to the inference
            tdefs = {d.uid for d in du.defs_of(table)}
            conv = [n for n in ast.walk(f.node) if isinstance(n, ast.Call)
                    and ast.unparse(n.func).split(".")[-1] ==
                    "convert_targets_column"]
            for c in conv:
                cb = prog.bind(prog.func(
                    "mokapot.utils.convert_targets_column"), c)
                d_ = cb.get("data")
                if isinstance(d_, ast.Name) and tdefs & {
                        x.uid for x in du.defs_of(d_)} and \
                        cfg.every_path_passes(
                            cfg.entry.id,
                            cfg.node_of(cfg.stmt_of(calls[0])).id,
                            {cfg.node_of(cfg.stmt_of(c)).id}):
                    ok_r = True
    ctx.check(ok_r, "C15c-peptide-level-input", f,
              "the table is the retained peptide level (level_paths[1]) "
              "with converted labels",
              f"protein inference starts from {show(tt, 120)}",
              node=calls[0])
    PICK = norm_calls(prog, T.of(calls[0]))
    sv = [n for n in ast.walk(f.node) if isinstance(n, ast.Call)
          and isinstance(n.func, ast.Attribute)
          and n.func.attr == "sort_values"
          and norm_calls(prog, T.of(n.func.value)) == PICK]
    ok_s = False
    if len(sv) == 1:
        st_ = T.of(sv[0])
        kw_ = dict(st_[4]) if st_[0] == "mcall" else {}
        by_ = kw_.get("by", st_[3][0] if st_[0] == "mcall" and st_[3]
                      else None)
        asc_ = kw_.get("ascending", st_[3][2] if st_[0] == "mcall"
                       and len(st_[3]) > 2 else ("const", True))
        ok_s = by_ in (("attr", SELF, "_score_column"),
                       ("list", (("attr", SELF, "_score_column"),))) and \
            asc_ == ("const", False)
    ctx.check(ok_s, "C15c-protein-level-sorted", f,
              "protein entries are written best first, like the other "
              "levels", f"{[ast.unparse(s)[:80] for s in sv]}",
              node=calls[0])
